#!/bin/sh
# MANIFEST.setup_cmd: build the fact-extraction driver and pre-check /repo's dependencies.
# Everything comes from files on disk; no network.
set -e
export CARGO_NET_OFFLINE=true
cd /verif/driver
cargo +nightly build --release --offline 2>&1 | tail -2
cd /verif
python3 -m compileall -q analysis >/dev/null 2>&1 || true
python3 - <<'PY'
import sys
sys.path.insert(0, '/verif/analysis')
from t2n import facts
facts.ensure_deps_target('/repo', 'dbg')
print('deps target ready')
PY
