//! Compile-time witnesses for type-level clauses of C12 and C14, written as an external user of the
//! crate would.  Every `compile_fail` witness has a compiling twin that differs only by the offending
//! line, so a witness whose path is merely wrong cannot pass.
//!
//! Run with `cargo +nightly test --doc --offline` (stable ignores the error codes).

use text2num::lang::{Dutch, English, French, German, Italian, Portuguese, Spanish};
use text2num::Language;

fn send_sync<T: Send + Sync>() {}

/// C14: the seven interpreters and the facade can be sent to and shared between threads.
/// This function only type-checks if the auto traits hold.
pub fn interpreters_are_send_and_sync() {
    send_sync::<English>();
    send_sync::<French>();
    send_sync::<German>();
    send_sync::<Italian>();
    send_sync::<Spanish>();
    send_sync::<Dutch>();
    send_sync::<Portuguese>();
    send_sync::<Language>();
    // shared references as well (what scoped threads capture)
    send_sync::<&Language>();
    send_sync::<&German>();
}

/// The `Send + Sync` witness bites: a type with interior mutability is rejected by the same bound.
/// ```compile_fail,E0277
/// fn send_sync<T: Send + Sync>() {}
/// send_sync::<std::cell::Cell<text2num::Language>>();
/// ```
/// Twin (compiles):
/// ```no_run
/// fn send_sync<T: Send + Sync>() {}
/// send_sync::<text2num::Language>();
/// ```
pub struct SendSyncWitness;

/// C12: the digit buffer is private — external code can reach it only through the checked operations.
/// ```compile_fail,E0616
/// let b = text2num::digit_string::DigitString::new();
/// let _ = b.buffer.len();
/// ```
/// ```compile_fail,E0616
/// let mut b = text2num::digit_string::DigitString::new();
/// b.frozen = false;
/// ```
/// ```compile_fail,E0616
/// let mut b = text2num::digit_string::DigitString::new();
/// b.leading_zeroes = 3;
/// ```
/// Twin (compiles): the public surface is reachable.
/// ```no_run
/// let mut b = text2num::digit_string::DigitString::new();
/// b.put(b"5").unwrap();
/// let _ = b.len();
/// let _ = b.flags;
/// ```
pub struct PrivacyWitness;

/// C14: interpreters are used through `&self` only — a shared reference suffices for every call.
/// ```no_run
/// use text2num::{Language, LangInterpreter, replace_numbers_in_text, text2digits};
/// fn use_shared(l: &Language) -> (String, bool) {
///     (replace_numbers_in_text("", l, 0.0), text2digits("one", l).is_ok())
/// }
/// let l = Language::english();
/// let _ = use_shared(&l);
/// ```
pub struct SharedRefWitness;
