#!/usr/bin/env python3
"""Seeded changes written by independent sub-agents (/verif/seeded/<id>/).

  tools/seeded.py import <worktree> <id>   verify (applies, 136 tests pass, demo fails with / passes without) and store
  tools/seeded.py run [<id> ...]           apply each patch to a scratch copy of /repo and run all 18 checks

Nothing is ever applied to /repo itself; scratch copies and their build output are removed right away.
"""
import json
import os
import re
import shutil
import subprocess
import sys
import tempfile

HERE = os.path.dirname(os.path.dirname(os.path.abspath(__file__)))
SEEDED = os.path.join(HERE, 'seeded')
REPO = '/repo'


def scratch_copy():
    d = tempfile.mkdtemp(prefix='t2n-seeded-')
    for name in ('Cargo.toml', 'Cargo.lock', 'README.md'):
        if os.path.exists(os.path.join(REPO, name)):
            shutil.copy(os.path.join(REPO, name), os.path.join(d, name))
    shutil.copytree(os.path.join(REPO, 'src'), os.path.join(d, 'src'))
    return d


def apply_patch(d, patch):
    r = subprocess.run(['patch', '-p1', '--no-backup-if-mismatch', '-i', patch], cwd=d, capture_output=True, text=True)
    return r.returncode == 0, r.stdout + r.stderr


def cargo_test(d, target, args):
    env = dict(os.environ, CARGO_TARGET_DIR=target, CARGO_NET_OFFLINE='true')
    try:
        r = subprocess.run(['cargo', 'test', '--offline'] + args, cwd=d, env=env, capture_output=True, text=True, timeout=600)
    except subprocess.TimeoutExpired:
        return None, 'timeout'
    return r.returncode, r.stdout + r.stderr


def do_import(wt, sid):
    src = os.path.join(wt, 'SEEDED')
    patch = os.path.join(src, 'patch.diff')
    demo = os.path.join(src, 'demo.rs')
    meta = json.load(open(os.path.join(src, 'meta.json')))
    target = tempfile.mkdtemp(prefix='t2n-seeded-target-')
    ran = []
    ok = True
    try:
        # with the patch
        d = scratch_copy()
        try:
            applied, out = apply_patch(d, patch)
            ran.append('patch -p1 < patch.diff on a scratch copy of /repo HEAD: %s' % ('applies' if applied else 'DOES NOT APPLY: ' + out[-300:]))
            if not applied:
                ok = False
            else:
                rc, out = cargo_test(d, target, ['--lib'])
                m = re.search(r'test result: (\w+)\. (\d+) passed; (\d+) failed', out or '')
                suite_ok = bool(m and m.group(1) == 'ok' and int(m.group(2)) >= 136 and m.group(3) == '0')   # a patch may add unit tests of its own
                ran.append('cargo test --offline --lib with the patch: %s' % (m.group(0) if m else 'no result (rc=%s)' % rc))
                ok = ok and suite_ok
                os.makedirs(os.path.join(d, 'tests'), exist_ok=True)
                shutil.copy(demo, os.path.join(d, 'tests', 'seeded_demo.rs'))
                rc, out = cargo_test(d, target, ['--test', 'seeded_demo'])
                m = re.search(r'test result: (\w+)\. (\d+) passed; (\d+) failed', out or '')
                ran.append('cargo test --offline --test seeded_demo with the patch: %s' % (m.group(0) if m else 'rc=%s' % rc))
                ok = ok and (rc not in (0, None))
        finally:
            shutil.rmtree(d, ignore_errors=True)
        # without the patch (its own target directory: nothing of the patched build may be reused)
        shutil.rmtree(target, ignore_errors=True)
        target = tempfile.mkdtemp(prefix='t2n-seeded-target-')
        d = scratch_copy()
        try:
            os.makedirs(os.path.join(d, 'tests'), exist_ok=True)
            shutil.copy(demo, os.path.join(d, 'tests', 'seeded_demo.rs'))
            rc, out = cargo_test(d, target, ['--test', 'seeded_demo'])
            m = re.search(r'test result: (\w+)\. (\d+) passed; (\d+) failed', out or '')
            ran.append('cargo test --offline --test seeded_demo without the patch: %s' % (m.group(0) if m else 'rc=%s' % rc))
            ok = ok and rc == 0
        finally:
            shutil.rmtree(d, ignore_errors=True)
    finally:
        shutil.rmtree(target, ignore_errors=True)
    print('\n'.join(ran))
    if not ok:
        print('NOT KEPT: %s did not verify' % sid)
        return 1
    out = os.path.join(SEEDED, sid)
    os.makedirs(out, exist_ok=True)
    shutil.copy(patch, os.path.join(out, 'patch.diff'))
    shutil.copy(demo, os.path.join(out, 'demo.rs'))
    meta2 = {
        'id': sid,
        'property': meta.get('property'),
        'summary': meta.get('summary'),
        'why_it_breaks': meta.get('why_it_breaks'),
        'needs_to_manifest': meta.get('needs_to_manifest'),
        'files_changed': meta.get('files_changed'),
        'author': 'independent sub-agent given only the property text and a scratch worktree of /repo',
        'what_i_ran': ran,
        'base_commit': subprocess.run(['git', '-C', REPO, 'log', '--format=%h', '-1'], capture_output=True, text=True).stdout.strip(),
    }
    json.dump(meta2, open(os.path.join(out, 'meta.json'), 'w'), indent=1, ensure_ascii=False)
    print('kept as %s' % out)
    return 0



def run_one_check(d, prop):
    """One `check <prop>` run on the scratch copy: {prop: [failing lines]} if it fails, {} if it passes."""
    r = subprocess.run([os.path.join(HERE, 'check'), prop, '--repo', d, '--no-evidence'], capture_output=True, text=True)
    lines = [re.sub(r'\s+', ' ', l.strip())[:300] for l in r.stdout.splitlines() if re.match(r'^\s+(FAIL|ANCHOR) ', l)]
    if r.returncode == 0:
        return {}
    return {prop: lines[:5] or [(r.stderr or r.stdout)[-300:]]}


def run_all_checks(d):
    """One `check all` run on the scratch copy: {property: [failing lines]} for the properties that fail."""
    r = subprocess.run([os.path.join(HERE, 'check'), 'all', '--repo', d, '--no-evidence'], capture_output=True, text=True)
    fired = {}
    cur = []
    for l in r.stdout.splitlines():
        if re.match(r'^\s+(FAIL|ANCHOR) ', l):
            cur.append(re.sub(r'\s+', ' ', l.strip())[:300])
        m = re.match(r'^RESULT (C\d\d) (PASS|FAIL)', l)
        if m:
            if m.group(2) == 'FAIL':
                fired[m.group(1)] = cur[:5]
            cur = []
    if 'RESULT C18' not in r.stdout:
        fired['ENGINE'] = [(r.stderr or r.stdout)[-300:]]
    return fired


def do_run(ids):
    ids = ids or sorted(os.listdir(SEEDED))
    summary = {}
    for sid in ids:
        pdir = os.path.join(SEEDED, sid)
        if not os.path.exists(os.path.join(pdir, 'patch.diff')):
            continue
        meta = json.load(open(os.path.join(pdir, 'meta.json')))
        d = scratch_copy()
        try:
            applied, out = apply_patch(d, os.path.join(pdir, 'patch.diff'))
            if not applied:
                print('%-20s patch does not apply to the current tree' % sid)
                continue
            fired = run_all_checks(d)
            target = meta.get('property')
            status = 'CAUGHT' if target in fired else ('caught-by-other' if fired else 'MISSED')
            summary[sid] = {'property': target, 'status': status, 'fired': fired}
            print('%-20s %-16s target=%s fired=%s' % (sid, status, target, sorted(fired)))
            for p, ks in fired.items():
                for k in ks[:2]:
                    print('      %s: %s' % (p, k[:220]))
            json.dump(summary[sid], open(os.path.join(pdir, 'result.json'), 'w'), indent=1, ensure_ascii=False)
        finally:
            shutil.rmtree(d, ignore_errors=True)
    return 0


REFAC = os.path.join(HERE, 'refactorings')


def do_refactor_import(wt, prefix):
    """Behaviour-preserving refactorings written by sub-agents: keep those that apply and pass the 136 tests."""
    src = os.path.join(wt, 'REFACTOR')
    metas = {m['id']: m for m in json.load(open(os.path.join(src, 'meta.json')))}
    target = tempfile.mkdtemp(prefix='t2n-refactor-target-')
    try:
        for rid in sorted(metas):
            patch = os.path.join(src, rid + '.diff')
            if not os.path.exists(patch):
                continue
            d = scratch_copy()
            try:
                applied, out = apply_patch(d, patch)
                if not applied:
                    print('%s-%s: does not apply' % (prefix, rid))
                    continue
                rc, out = cargo_test(d, target, ['--lib'])
                m = re.search(r'test result: (\w+)\. (\d+) passed; (\d+) failed', out or '')
                ok = bool(m and m.group(1) == 'ok' and m.group(2) == '136')
                print('%s-%s: %s' % (prefix, rid, m.group(0) if m else 'no result'))
                if not ok:
                    continue
                o = os.path.join(REFAC, '%s-%s' % (prefix, rid))
                os.makedirs(o, exist_ok=True)
                shutil.copy(patch, os.path.join(o, 'patch.diff'))
                json.dump(dict(metas[rid], id='%s-%s' % (prefix, rid), author='independent sub-agent (behaviour-preserving refactoring)',
                               what_i_ran=['patch applies to /repo HEAD', 'cargo test --offline --lib: ' + m.group(0)]),
                          open(os.path.join(o, 'meta.json'), 'w'), indent=1, ensure_ascii=False)
            finally:
                shutil.rmtree(d, ignore_errors=True)
    finally:
        shutil.rmtree(target, ignore_errors=True)
    return 0


def do_refactor_run(ids):
    ids = ids or sorted(os.listdir(REFAC))
    bad = 0
    for rid in ids:
        pdir = os.path.join(REFAC, rid)
        if not os.path.exists(os.path.join(pdir, 'patch.diff')):
            continue
        d = scratch_copy()
        try:
            applied, out = apply_patch(d, os.path.join(pdir, 'patch.diff'))
            if not applied:
                print('%-14s patch does not apply to the current tree' % rid)
                continue
            fired = run_all_checks(d)
            json.dump({'fired': fired}, open(os.path.join(pdir, 'result.json'), 'w'), indent=1, ensure_ascii=False)
            if fired:
                bad += 1
                print('%-14s FALSE ALARM %s' % (rid, sorted(fired)))
                for p, ks in fired.items():
                    for k in ks[:2]:
                        print('      %s: %s' % (p, k[:240]))
            else:
                print('%-14s silent' % rid)
        finally:
            shutil.rmtree(d, ignore_errors=True)
    return 1 if bad else 0


if __name__ == '__main__':
    if len(sys.argv) >= 4 and sys.argv[1] == 'refactor-import':
        sys.exit(do_refactor_import(sys.argv[2], sys.argv[3]))
    if len(sys.argv) >= 2 and sys.argv[1] == 'refactor-run':
        sys.exit(do_refactor_run(sys.argv[2:]))
    if len(sys.argv) >= 4 and sys.argv[1] == 'import':
        sys.exit(do_import(sys.argv[2], sys.argv[3]))
    if len(sys.argv) >= 2 and sys.argv[1] == 'run':
        sys.exit(do_run(sys.argv[2:]))
    print(__doc__)
    sys.exit(2)
