#!/usr/bin/env python3
"""List calls, dominating facts and writes of a body in descriptor form (debug aid)."""
import sys, os
sys.path.insert(0, os.path.join(os.path.dirname(os.path.dirname(os.path.abspath(__file__))), 'analysis'))
from t2n import facts
from t2n.mirx import X, pretty, untag
from t2n.paths import Q
args = [a for a in sys.argv[1:] if not a.startswith('-')]
f = facts.load(args[1] if len(args) > 1 else '/repo')
for path, m in f.mir.items():
    if args[0] not in path: continue
    x = X(m, f); x.expand_named = ('-e' in sys.argv)
    q = Q(x)
    print('==', path)
    for bi, n, d, t in q.all_calls():
        print(' bb%-3d %s' % (bi, d[:200]))
        print('        facts: %s' % [s[:120] for s in q.facts(bi)])
    for bi, si, pl, rv in x.assignments():
        if pl['l'] == 0 or 'deref' in pl['p'] or (pl['l'] in x.names and not x._is_transparent(pl['l'])):
            print(' bb%-3d %s = %s' % (bi, untag(pretty(x.desc_place(pl))), untag(pretty(x.desc_rvalue(rv)))[:160]))
    for s in x.mut_analysis()['sites']:
        print(' MUT bb%d %s | %s | root=%s' % (s[0], untag(pretty(s[2]))[:80], untag(pretty(s[3]))[:120], untag(pretty(s[5]))))
