//! Conformance probes, part 3: user traits and generics, Display impls, custom iterators, closures, patterns.
#![allow(clippy::all, dead_code, unused)]
use std::fmt;

fn j<T: ToString>(v: &[T]) -> String { v.iter().map(|x| x.to_string()).collect::<Vec<_>>().join(",") }
fn o<T: ToString>(v: Option<T>) -> String { match v { Some(x) => format!("S{}", x.to_string()), None => "N".to_string() } }

trait Shape { fn area(&self) -> usize; fn name(&self) -> String { format!("shape{}", self.area()) } fn scaled(&self, k: usize) -> usize where Self: Sized { self.area() * k } }
struct Sq(usize);
struct Rect { w: usize, h: usize }
impl Shape for Sq { fn area(&self) -> usize { self.0 * self.0 } }
impl Shape for Rect { fn area(&self) -> usize { self.w * self.h } fn name(&self) -> String { "rect".into() } }
fn total<S: Shape>(xs: &[S]) -> usize { xs.iter().map(Shape::area).sum() }
fn describe(s: &dyn Shape) -> String { format!("{}:{}", s.name(), s.area()) }

pub fn t001(n: usize) -> String { let a = Sq(n); let b = Rect { w: n, h: 2 }; format!("{}{}{}{}{}", a.name(), b.name(), a.scaled(2), total(&[Sq(1), Sq(n)]), describe(&b)) }
pub fn t002(n: usize) -> String { let shapes: Vec<Box<dyn Shape>> = vec![Box::new(Sq(n)), Box::new(Rect { w: 1, h: n })]; shapes.iter().map(|s| describe(s.as_ref())).collect::<Vec<_>>().join(";") }

#[derive(Debug, Clone, Copy, PartialEq, Eq, PartialOrd, Ord, Default)]
struct Ver { major: u8, minor: u8 }
impl fmt::Display for Ver { fn fmt(&self, f: &mut fmt::Formatter<'_>) -> fmt::Result { write!(f, "v{}.{}", self.major, self.minor) } }
impl std::str::FromStr for Ver { type Err = String; fn from_str(s: &str) -> Result<Self, String> { let (a, b) = s.split_once('.').ok_or("nodot")?; Ok(Ver { major: a.parse().map_err(|_| "maj".to_string())?, minor: b.parse().map_err(|_| "min".to_string())? }) } }
pub fn t003(a: &str) -> String { match a.parse::<Ver>() { Ok(v) => format!("{} {} {} {}", v, v > Ver { major: 1, minor: 5 }, v == Ver::default(), v.max(Ver { major: 2, minor: 0 })), Err(e) => e } }
pub fn t004(n: usize) -> String { let mut vs = vec![Ver { major: 2, minor: n as u8 }, Ver { major: 1, minor: 9 }, Ver { major: 2, minor: 0 }]; vs.sort(); let s = vs.iter().map(|v| v.to_string()).collect::<Vec<_>>().join(" "); let m = vs.iter().max().map(|v| v.to_string()); s + &o(m) + &format!("{:?}", vs[0]) }

struct Countdown { n: usize }
impl Iterator for Countdown { type Item = usize; fn next(&mut self) -> Option<usize> { if self.n == 0 { None } else { self.n -= 1; Some(self.n + 1) } } }
pub fn t005(n: usize) -> String { let a: Vec<usize> = Countdown { n }.filter(|x| x % 2 == 1).collect(); let b = Countdown { n }.take(2).map(|x| x * 10).sum::<usize>(); let mut c = Countdown { n }; let first = c.next(); let rest = c.count(); let z: Vec<(usize, usize)> = Countdown { n }.zip(Countdown { n: 2 }).collect(); format!("{}|{}|{}{}|{}", j(&a), b, o(first), rest, z.len()) }
pub fn t006(n: usize) -> String { let mut c = Countdown { n: 5 }; let mut out = vec![]; for x in c.by_ref() { if x <= n { break; } out.push(x); } let rem: Vec<usize> = c.collect(); j(&out) + "/" + &j(&rem) }

pub fn t007(n: usize) -> String { let mut counter = 0usize; let mut bump = |k: usize| { counter += k; counter }; let a = bump(n); let b = bump(2); let adder = move |x: usize| x + a; let fs: Vec<Box<dyn Fn(usize) -> usize>> = vec![Box::new(adder), Box::new(|x| x * 2), Box::new(move |x| x + b)]; let r = fs.iter().fold(1, |acc, f| f(acc)); format!("{}{}{}{}", a, b, counter, r) }
pub fn t008(n: usize) -> String { fn apply<F: FnMut(usize) -> bool>(mut f: F, xs: &[usize]) -> usize { let mut c = 0; for &x in xs { if f(x) { c += 1; } } c } fn compose(f: impl Fn(usize) -> usize, g: impl Fn(usize) -> usize) -> impl Fn(usize) -> usize { move |x| g(f(x)) } let mut seen = vec![]; let c = apply(|x| { seen.push(x); x > n }, &[1, 5, 3]); let h = compose(|x| x + 1, |x| x * n); format!("{}{}{}", c, j(&seen), h(2)) }

pub fn t009(n: usize) -> String { let v = [1usize, 5, 9, 12, 40]; let kind = |x: usize| match x { 0 => "zero".to_string(), k @ 1..=9 if k % 2 == 1 => format!("odd{}", k), k @ (10 | 12) => format!("tw{}", k), k if k > n * 10 => "big".to_string(), _ => "other".to_string() }; v.iter().map(|&x| kind(x)).collect::<Vec<_>>().join(",") }
pub fn t010(n: usize) -> String { let pairs = [(Some(1usize), Ok::<usize, &str>(2)), (None, Err("e")), (Some(n), Err("f"))]; pairs.iter().map(|p| match p { (Some(a), Ok(b)) => format!("{}", a + b), (Some(a), Err(e)) if *a > 2 => format!("{}{}", a, e), (None, Err(e)) | (Some(_), Err(e)) => e.to_string(), (None, Ok(_)) => "x".into() }).collect::<Vec<_>>().concat() }
pub fn t011(a: &str) -> String { let ws: Vec<&str> = a.split(' ').collect(); match ws.as_slice() { [] => "none".into(), [w] => format!("1:{}", w), [first, rest @ ..] if rest.len() > 2 => format!("{}+{}", first, rest.len()), [first, .., last] => format!("{}..{}", first, last) } }
pub fn t012(a: &str) -> String { let mut words: Vec<&str> = a.split(' ').collect(); words.sort(); let mx = words.iter().max().copied().unwrap_or(""); let cmp = words.first().map(|w| w.cmp(&"one")).map(|o| format!("{:?}", o)); let lt = a < "p"; let eq = words.iter().any(|w| *w == "one"); format!("{}|{}|{}{}{}", words.join(","), mx, o(cmp), lt, eq) }
pub fn t013(a: &str) -> String { let c = a.chars().next().unwrap_or('a'); let nxt = char::from_u32(c as u32 + 1); let up = c.to_uppercase().collect::<String>(); let d = c.to_digit(10); let is = (c.is_alphabetic(), c.is_numeric(), c.is_ascii(), c.len_utf8()); let b = (c as u8).wrapping_add(1) as char; format!("{}{}{}{:?}{}", o(nxt), up, o(d), is, b.is_ascii_graphic()) }
pub fn t014(a: &str) -> String { let b = a.as_bytes(); let h = b.iter().fold(0u32, |h, &x| h.wrapping_mul(31).wrapping_add(x as u32)); let s = b.iter().map(|&x| x as u64).sum::<u64>(); let m = b.iter().copied().max(); let cmp = b.cmp(b"one"); let st = b.starts_with(b"on"); format!("{}{}{}{:?}{}", h, s, o(m), cmp, st) }
pub fn t015(n: usize) -> String { let x = n; let x = x * 2; let y = { let x = x + 1; x * x }; let z = if let Some(x) = Some(x).filter(|v| *v > 2) { x } else { 0 }; let w = loop { break x + y; }; let (x, y) = (y, x); format!("{}{}{}{}", x, y, z, w) }
pub fn t016(n: usize) -> String { #[derive(Clone, Debug, PartialEq)] enum Tree { Leaf(usize), Node(Box<Tree>, Box<Tree>) } fn sum(t: &Tree) -> usize { match t { Tree::Leaf(v) => *v, Tree::Node(l, r) => sum(l) + sum(r) } } fn depth(t: &Tree) -> usize { match t { Tree::Leaf(_) => 1, Tree::Node(l, r) => 1 + depth(l).max(depth(r)) } } fn build(n: usize) -> Tree { if n == 0 { Tree::Leaf(1) } else { Tree::Node(Box::new(build(n - 1)), Box::new(Tree::Leaf(n))) } } let t = build(n.min(4)); let t2 = t.clone(); format!("{}{}{}", sum(&t), depth(&t), t == t2) }
pub fn t017(n: usize) -> String { struct Stack<T> { items: Vec<T> } impl<T: Clone + ToString> Stack<T> { fn new() -> Self { Stack { items: Vec::new() } } fn push(&mut self, x: T) -> &mut Self { self.items.push(x); self } fn pop(&mut self) -> Option<T> { self.items.pop() } fn peek(&self) -> Option<&T> { self.items.last() } fn render(&self) -> String { self.items.iter().map(|x| x.to_string()).collect::<Vec<_>>().join(">") } } let mut s: Stack<usize> = Stack::new(); s.push(1).push(n).push(3); let p = s.pop(); let k = s.peek().cloned(); let mut t: Stack<String> = Stack::new(); t.push("a".into()).push(n.to_string()); format!("{}{}{}{}", o(p), o(k), s.render(), t.render()) }
pub fn t018(n: usize) -> String { let mut stack = vec![n]; let mut out = vec![]; while let Some(x) = stack.pop() { out.push(x); if x > 1 { stack.push(x / 2); if x % 2 == 1 { stack.push(x - 1); } } if out.len() > 12 { break; } } j(&out) }
pub fn t019(n: usize) -> String { let data = vec![vec![1usize, 2], vec![], vec![n, 4, 5]]; let flat: Vec<usize> = data.iter().flat_map(|v| v.iter().copied()).collect(); let firsts: Vec<usize> = data.iter().filter_map(|v| v.first().copied()).collect(); let longest = data.iter().map(Vec::len).max().unwrap_or(0); let nested: usize = data.iter().map(|v| v.iter().filter(|x| **x > 1).count()).sum(); let pos = data.iter().position(|v| v.is_empty()); format!("{}|{}|{}{}{}", j(&flat), j(&firsts), longest, nested, o(pos)) }
pub fn t020(n: usize) -> String { const LIMITS: [(usize, &str); 3] = [(1, "low"), (3, "mid"), (usize::MAX, "high")]; static NAMES: [&str; 2] = ["x", "y"]; fn lookup(n: usize) -> &'static str { LIMITS.iter().find(|(lim, _)| n <= *lim).map(|(_, s)| *s).unwrap_or("?") } const fn sq(x: usize) -> usize { x * x } const K: usize = sq(3) + 1; format!("{}{}{}{}", lookup(n), NAMES[n % 2], K, u8::MAX as usize + i8::MIN.unsigned_abs() as usize) }

pub fn t021(n: usize) -> String { use std::collections::{HashMap, HashSet}; let mut m: HashMap<&str, usize> = HashMap::new(); let a = m.insert("a", 1); let b = m.insert("a", n); m.insert("b", 2); let g = m.get("a").copied(); let c = m.contains_key("z"); let r = m.remove("b"); let s: HashSet<usize> = [1, 2, 2, n].into_iter().collect(); let t = HashSet::from([3usize, 4]); format!("{}{}{}{}{}{}{}{}{}", o(a), o(b), o(g), c, o(r), m.len(), s.len(), s.contains(&n), t.contains(&n)) }
pub fn t022(n: usize) -> String { use std::collections::{BTreeMap, BTreeSet}; let mut m: BTreeMap<usize, &str> = BTreeMap::new(); m.insert(5, "five"); m.insert(n, "n"); m.insert(2, "two"); let keys: Vec<usize> = m.keys().copied().collect(); let vals: Vec<&str> = m.values().copied().collect(); let first = m.iter().next().map(|(k, v)| format!("{}{}", k, v)); let s: BTreeSet<char> = "hello".chars().collect(); let t: String = s.iter().collect(); let idx = m[&5]; format!("{}|{}|{}|{}{}{}", j(&keys), vals.concat(), o(first), t, idx, o(m.get(&9).copied())) }
pub fn t023(a: &str) -> String { use std::collections::HashMap; use std::sync::LazyLock; static TABLE: LazyLock<HashMap<&'static str, u32>> = LazyLock::new(|| [("one", 1), ("two", 2), ("hundred", 100)].into_iter().collect()); static WORDS: LazyLock<Vec<String>> = LazyLock::new(|| vec!["x".to_string(), "y".repeat(2)]); let total: u32 = a.split(' ').filter_map(|w| TABLE.get(w)).sum(); format!("{}{}{}{}", total, TABLE.len(), WORDS[1], TABLE.contains_key(a)) }

pub fn t024(a: &str) -> String { use std::borrow::Cow; fn norm(w: &str) -> Cow<'_, str> { if w.chars().any(|c| c.is_uppercase()) { Cow::Owned(w.to_lowercase()) } else { Cow::Borrowed(w) } } let c = norm(a); let owned = matches!(c, Cow::Owned(_)); let l = c.len(); let e = c == "été b"; let st = c.starts_with("o"); let s: String = c.clone().into_owned(); let d: Cow<str> = Cow::from("x"); let mut m = norm(a); m.to_mut().push('!'); format!("{}{}{}{}{}{}{}{}", c, owned, l, e, st, s.len(), d, m) }
pub fn t025(a: &str) -> String { let c = a.chars().next().unwrap_or('x'); let up = c.to_uppercase().to_string(); let lo = c.to_lowercase().next(); let first_upper: String = a.chars().take(1).flat_map(char::to_uppercase).chain(a.chars().skip(1)).collect(); let n = a.chars().rev().position(|c| c == ' '); let t = a.trim_start_matches(char::is_numeric).trim_end_matches(|c: char| !c.is_alphabetic()); let ci: Vec<usize> = a.char_indices().rev().filter(|(_, c)| *c == 'e').map(|(i, _)| i).collect(); format!("{}{}{}{}{}{}", up, o(lo), first_upper, o(n), t, j(&ci)) }
pub fn t026(n: usize) -> String { use std::rc::Rc; let shared = Rc::new(vec![1usize, n]); let other = Rc::clone(&shared); let s: usize = shared.iter().sum::<usize>() + other.len(); let fl = [1.5f64, -0.5, n as f64]; let mx = fl.iter().cloned().fold(f64::NEG_INFINITY, f64::max); let mut sorted = fl.to_vec(); sorted.sort_by(|a, b| a.partial_cmp(b).unwrap()); let tot: f64 = fl.iter().sum(); format!("{}{}{}{}{}", s, mx, j(&sorted), tot, Rc::strong_count(&shared) > 1) }

pub fn all() -> Vec<(&'static str, String)> {
    let mut out = Vec::new();
    macro_rules! s { ($($f:ident),*) => { $( for (k, a) in ["2.7", "one hundred and one", "", "1.x", "été b"].iter().enumerate() { out.push((concat!(stringify!($f)), format!("{}:{}", k, $f(a)))); } )* } }
    macro_rules! n { ($($f:ident),*) => { $( for a in [0usize, 1, 3, 6] { out.push((concat!(stringify!($f)), format!("{}:{}", a, $f(a)))); } )* } }
    n!(t001, t002); s!(t003); n!(t004, t005, t006, t007, t008, t009, t010); s!(t011, t012, t013, t014); n!(t015, t016, t017, t018, t019, t020, t021, t022); s!(t023, t024, t025); n!(t026);
    out
}
#[cfg(test)]
mod tests { #[test] fn dump() { for (k, v) in super::all() { println!("PROBE {} {:?}", k, v); } } }
