//! Conformance probes for the MIR abstract machine of /verif (not part of the crate).
#![allow(clippy::all, dead_code, unused)]
use std::collections::VecDeque;

fn j<T: ToString>(v: &[T]) -> String {
    let mut s = String::new();
    for (i, x) in v.iter().enumerate() {
        if i > 0 {
            s.push(',');
        }
        s.push_str(&x.to_string());
    }
    s
}
fn o<T: ToString>(v: Option<T>) -> String {
    match v {
        Some(x) => format!("S{}", x.to_string()),
        None => "N".to_string(),
    }
}

pub fn p001(a: &str) -> String { let Some((x, y)) = a.split_once('-') else { return "none".into() }; format!("{}|{}", x, y) }
pub fn p002(a: &str) -> String { o(a.rsplit_once(' ').map(|(x, y)| format!("{}/{}", y, x))) }
pub fn p003(a: &str) -> String { o(a.strip_suffix("ième").or_else(|| a.strip_suffix("e"))) }
pub fn p004(a: &str) -> String { o(a.strip_prefix("un").filter(|r| !r.is_empty())) }
pub fn p005(a: &str) -> String { a.trim_end_matches('s').trim_start_matches("x").to_string() }
pub fn p006(a: &str) -> String { o(a.find('e')) + &o(a.rfind('e')) + &o(a.find("te")) }
pub fn p007(a: &str) -> String { a.char_indices().filter(|(_, c)| c.is_alphabetic()).map(|(i, _)| i.to_string()).collect::<Vec<_>>().join(",") }
pub fn p008(a: &str) -> String { a.chars().rev().collect::<String>() }
pub fn p009(a: &str) -> String { a.chars().map(|c| c.to_ascii_uppercase()).collect() }
pub fn p010(a: &str) -> String { a.split(' ').map(str::len).map(|n| n.to_string()).collect::<Vec<_>>().join("+") }
pub fn p011(a: &str) -> String { a.split_whitespace().rev().collect::<Vec<_>>().join(" ") }
pub fn p012(a: &str) -> String { o(a.chars().next().filter(|c| c.is_uppercase())) }
pub fn p013(a: &str) -> String { a.bytes().filter(|b| b.is_ascii_digit()).count().to_string() }
pub fn p014(a: &str) -> String { format!("{}", a.len()) + &format!("{}", a.chars().count()) }
pub fn p015(a: &str) -> String { let (x, y) = a.split_at(a.len() / 2); format!("{}|{}", y, x) }
pub fn p016(a: &str) -> String { a.replace("e", "E").to_lowercase() + &a.to_uppercase() }
pub fn p017(a: &str) -> String { a.starts_with(|c: char| c.is_ascii_digit()).to_string() + &a.ends_with(char::is_alphabetic).to_string() }
pub fn p018(a: &str) -> String { a.contains("in").then(|| "yes").unwrap_or("no").to_string() }
pub fn p019(a: &str) -> String { (a.len() > 3).then_some(a.len()).map_or("short".to_string(), |n| n.to_string()) }
pub fn p020(a: &str) -> String { a.matches('e').count().to_string() }
pub fn p021(v: &[u8]) -> String { o(v.first().copied()) + &o(v.last().copied()) }
pub fn p022(v: &[u8]) -> String { match v { [] => "empty".into(), [x] => format!("one{}", x), [x, .., y] => format!("{}..{}", x, y) } }
pub fn p023(v: &[u8]) -> String { match v.split_first() { Some((h, t)) => format!("{}:{}", h, t.len()), None => "N".into() } }
pub fn p024(v: &[u8]) -> String { match v.split_last() { Some((h, t)) => format!("{}:{}", h, j(t)), None => "N".into() } }
pub fn p025(v: &[u8]) -> String { o(v.strip_prefix(b"12").map(|r| r.len())) + &o(v.strip_suffix(&[b'0']).map(|r| r.len())) }
pub fn p026(v: &[u8]) -> String { v.chunks(2).map(|c| c.len().to_string()).collect::<Vec<_>>().join(",") }
pub fn p027(v: &[u8]) -> String { v.windows(2).filter(|w| w[0] < w[1]).count().to_string() }
pub fn p028(v: &[u8]) -> String { o(v.iter().rposition(|&b| b != b'0')) + &o(v.iter().position(|&b| b == b'0')) }
pub fn p029(v: &[u8]) -> String { v.contains(&b'0').to_string() + &v.starts_with(b"1").to_string() + &v.ends_with(b"00").to_string() }
pub fn p030(v: &[u8]) -> String { j(&[v, b"-", v].concat()) }
pub fn p031(v: &[u8]) -> String { let mut w = v.to_vec(); w.reverse(); w.sort(); w.dedup(); j(&w) }
pub fn p032(v: &[u8]) -> String { v.iter().rev().skip_while(|&&b| b == b'0').count().to_string() }
pub fn p033(v: &[u8]) -> String { v.iter().take_while(|&&b| b != b'0').map(|b| (b - b'0') as u32).sum::<u32>().to_string() }
pub fn p034(v: &[u8]) -> String { v.iter().map_while(|&b| (b > b'0').then(|| b - b'0')).map(|d| d.to_string()).collect::<Vec<_>>().join("") }
pub fn p035(v: &[u8]) -> String { v.iter().fold(0u64, |acc, &b| acc * 10 + (b - b'0') as u64).to_string() }
pub fn p036(v: &[u8]) -> String { o(v.iter().try_fold(0u8, |acc, &b| acc.checked_add(b))) }
pub fn p037(v: &[u8]) -> String { v.iter().any(|&b| b == b'9').to_string() + &v.iter().all(u8::is_ascii_digit).to_string() }
pub fn p038(v: &[u8]) -> String { o(v.iter().max().copied()) + &o(v.iter().min().copied()) + &o(v.iter().copied().last()) }
pub fn p039(v: &[u8]) -> String { v.iter().zip(v.iter().skip(1)).filter(|(a, b)| a == b).count().to_string() }
pub fn p040(v: &[u8]) -> String { v.iter().enumerate().filter_map(|(i, &b)| (b == b'0').then_some(i)).map(|i| i.to_string()).collect::<Vec<_>>().join(",") }
pub fn p041(v: &[u8]) -> String { v.iter().chain(b"xy".iter()).step_by(2).map(|&b| (b as char).to_string()).collect::<String>() }
pub fn p042(v: &[u8]) -> String { v.iter().flat_map(|&b| [b, b]).count().to_string() }
pub fn p043(v: &[u8]) -> String { let mut it = v.iter().peekable(); let mut n = 0; while let Some(&b) = it.next() { if it.peek().map_or(false, |&&c| c == b) { n += 1; } } n.to_string() }
pub fn p044(v: &[u8]) -> String { let arr: [usize; 4] = std::array::from_fn(|i| v.len() + i); j(&arr) }
pub fn p045(n: usize) -> String { std::iter::once("a").chain(std::iter::repeat("b").take(n)).collect::<Vec<_>>().concat() }
pub fn p046(n: usize) -> String { std::iter::successors(Some(n), |&x| (x > 1).then(|| x / 2)).map(|x| x.to_string()).collect::<Vec<_>>().join(">") }
pub fn p047(n: usize) -> String { let mut k = 0; std::iter::from_fn(|| { k += 1; (k <= n).then_some(k * k) }).map(|x| x.to_string()).collect::<Vec<_>>().join(",") }
pub fn p048(n: usize) -> String { (0..n).rev().map(|x| x.to_string()).collect::<Vec<_>>().join("") + &(1..=n).sum::<usize>().to_string() }
pub fn p049(n: usize) -> String { let mut v: Vec<usize> = (0..n).collect(); v.retain(|x| x % 2 == 0); v.truncate(2); v.insert(0, 9); let t = v.split_off(1); format!("{}|{}", j(&v), j(&t)) }
pub fn p050(n: usize) -> String { let mut v: Vec<usize> = (0..n).collect(); let d: Vec<usize> = v.drain(1.min(v.len())..).collect(); v.extend(d.iter().rev()); v.extend_from_slice(&[7, 7]); j(&v) }
pub fn p051(n: usize) -> String { let mut q: VecDeque<usize> = VecDeque::new(); for i in 0..n { if i % 2 == 0 { q.push_back(i) } else { q.push_front(i) } } let f = q.pop_front(); let b = q.pop_back(); o(f) + &o(b) + &q.len().to_string() + &o(q.front().copied()) + &o(q.back().copied()) }
pub fn p052(n: usize) -> String { let mut q: VecDeque<usize> = (0..n).collect(); q.make_contiguous().reverse(); let v: Vec<usize> = q.into_iter().collect(); j(&v) }
pub fn p053(n: usize) -> String { let mut a = Some(n); let t = a.take(); let r = a.replace(3); o(t) + &o(r) + &o(a) }
pub fn p054(n: usize) -> String { let a = Some(n); a.is_some_and(|x| x > 2).to_string() + &a.is_none_or(|x| x > 5).to_string() + &a.map_or(0, |x| x + 1).to_string() }
pub fn p055(n: usize) -> String { let a = Some(n); let b: Option<usize> = None; o(a.zip(Some(1)).map(|(x, y)| x + y)) + &o(a.xor(b)) + &o(b.or(a)) + &o(a.and(b)) + &o(a.filter(|x| *x > 100)) }
pub fn p056(n: usize) -> String { let r: Result<usize, String> = if n > 2 { Ok(n) } else { Err("small".into()) }; o(r.clone().ok()) + &r.clone().map_err(|e| e.len()).map_or_else(|e| e.to_string(), |v| v.to_string()) + &r.and_then(|x| x.checked_sub(10).ok_or("neg".to_string())).unwrap_or_else(|e| e.len()).to_string() }
pub fn p057(n: usize) -> String { fn f(n: usize) -> Option<usize> { let a = n.checked_sub(2)?; let b = a.checked_mul(3)?; Some(b + 1) } o(f(n)) }
pub fn p058(n: usize) -> String { let mut a = vec![1, 2, 3]; let mut b = vec![n]; std::mem::swap(&mut a, &mut b); let c = std::mem::take(&mut a); let d = std::mem::replace(&mut b, vec![0]); format!("{}|{}|{}|{}", j(&a), j(&b), j(&c), j(&d)) }
pub fn p059(n: usize) -> String { n.saturating_sub(5).to_string() + &n.min(3).to_string() + &n.max(3).to_string() + &n.pow(2).to_string() + &(n % 3).to_string() + &n.abs_diff(10).to_string() + &n.clamp(2, 4).to_string() }
pub fn p060(n: usize) -> String { matches!(n, 1 | 3..=5).to_string() + &matches!(Some(n), Some(x) if x > 3).to_string() }
pub fn p061(n: usize) -> String { const T: [(&str, u8); 3] = [("a", 1), ("b", 2), ("c", 3)]; o(T.iter().find(|(_, v)| *v as usize == n).map(|(k, _)| *k)) + &o(T.iter().find_map(|&(k, v)| (v as usize > n).then_some(k))) }
pub fn p062(n: usize) -> String { static T: &[&str] = &["zero", "one", "two"]; o(T.get(n).copied()) + &o(T.iter().position(|&w| w.len() == n)) + &T.binary_search(&"one").is_ok().to_string() }
pub fn p063(n: usize) -> String { let f = |x: usize| x * 2 + n; let g: &dyn Fn(usize) -> usize = &f; let h: fn(usize) -> usize = |x| x + 1; (f(1) + g(2) + h(3)).to_string() }
pub fn p064(n: usize) -> String { struct S; impl S { const K: usize = 7; const W: &'static [&'static str] = &["x", "yy"]; } (S::K + n + S::W[1].len()).to_string() }
pub fn p065(n: usize) -> String { #[derive(Clone, Copy, PartialEq, Eq, PartialOrd, Ord, Debug, Default)] enum K { #[default] A, B, C } let k = match n { 0 => K::A, 1 => K::B, _ => K::C }; (k == K::B).to_string() + &(k > K::A).to_string() + &(K::default() == k).to_string() + &(k as u8).to_string() }
pub fn p066(n: usize) -> String { #[derive(Clone, Default, PartialEq)] struct P { a: usize, b: Option<u8>, c: Vec<u8>, d: bool, e: String } let mut p = P::default(); p.a = n; let q = P { b: Some(1), ..p.clone() }; (p == q).to_string() + &q.a.to_string() + &o(q.b) + &q.c.len().to_string() + &q.d.to_string() + &q.e }
pub fn p067(a: &str) -> String { let mut s = String::with_capacity(8); s.push_str(a); s.insert(0, '<'); s.push('>'); if s.is_char_boundary(5) { s.truncate(5); } let p = s.pop(); s.extend(['!', '?']); s += "z"; format!("{}{}{}", s, o(p), s.is_empty()) }
pub fn p068(a: &str) -> String { use std::fmt::Write; let mut s = String::new(); write!(s, "{}-{:>3}|{:<3}|{:03}", a, 7, 8, 9).unwrap(); writeln!(s, "{}", a.len()).unwrap(); s }
pub fn p069(a: &str) -> String { format!("{a}{0}{n}", a.len(), n = 2) + &format!("{:?}", a) + &format!("{:?}", 12u8) }
pub fn p070(a: &str) -> String { let v: Vec<String> = a.split('-').map(String::from).collect(); let w: Vec<&str> = v.iter().map(String::as_str).collect(); w.join("_") + &v.concat() }
pub fn p071(a: &str) -> String { let mut it = a.split(' '); let first = it.next(); let rest: Vec<&str> = it.collect(); o(first) + &rest.len().to_string() }
pub fn p072(a: &str) -> String { a.split(|c: char| !c.is_alphanumeric()).filter(|w| !w.is_empty()).last().unwrap_or("").to_string() }
pub fn p073(a: &str) -> String { a.splitn(2, ' ').nth(1).unwrap_or("-").to_string() + a.rsplit(' ').next().unwrap_or("") }
pub fn p074(a: &str) -> String { o(a.parse::<u32>().ok()) + &o(a.parse::<f64>().ok()) + &o(a.parse::<i8>().ok()) }
pub fn p075(a: &str) -> String { o(a.chars().last()) + &o(a.chars().nth(1)) + &o(a.char_indices().nth(2).map(|(i, _)| i)) + &o(a.chars().position(|c| c == 'é')) }
pub fn p076(a: &str) -> String { let b = a.as_bytes(); o(b.get(1).copied()) + &o(b.get(1..3).map(|s| s.len())) + &o(a.get(1..3)) + &a.is_char_boundary(1).to_string() }
pub fn p077(a: &str) -> String { let mut cs: Vec<char> = a.chars().collect(); cs.sort_unstable(); cs.dedup(); cs.iter().collect::<String>() + &cs.len().to_string() }
pub fn p078(a: &str) -> String { a.eq_ignore_ascii_case("ONE").to_string() + &a.to_ascii_lowercase() + &(a < "m").to_string() + &a.cmp("one").is_eq().to_string() }
pub fn p079(v: &[u8]) -> String { let s = std::str::from_utf8(v).unwrap_or("bad"); let t = String::from_utf8_lossy(v); s.to_string() + &t }
pub fn p080(v: &[u8]) -> String { let mut w = [0u8; 4]; let n = v.len().min(4); w[..n].copy_from_slice(&v[..n]); w.rotate_left(1); w.swap(0, 3); w.fill_with_check() }
trait FW { fn fill_with_check(&self) -> String; }
impl FW for [u8; 4] { fn fill_with_check(&self) -> String { j(self) } }
pub fn p081(v: &[u8]) -> String { let (a, b): (Vec<u8>, Vec<u8>) = v.iter().partition(|&&x| x % 2 == 0); let (c, d): (Vec<usize>, Vec<u8>) = v.iter().copied().enumerate().unzip(); format!("{}|{}|{}|{}", j(&a), j(&b), j(&c), j(&d)) }
pub fn p082(v: &[u8]) -> String { let mut w = v.to_vec(); w.sort_by(|a, b| b.cmp(a)); let m = w.iter().max_by_key(|&&x| x % 10).copied(); w.sort_by_key(|x| x % 3); j(&w) + &o(m) }
pub fn p083(v: &[u8]) -> String { let mut w = v.to_vec(); if let Some(x) = w.first_mut() { *x += 1; } if let Some(x) = w.last_mut() { *x += 2; } if let Some(x) = w.get_mut(1) { *x = 0; } for x in w.iter_mut().skip(2) { *x *= 2; } j(&w) }
pub fn p084(v: &[u8]) -> String { let (l, r) = v.split_at(v.len() / 2); let mut w = r.to_vec(); w.extend(l); if w.is_empty() { return "e".into(); } o(w.iter().rev().nth(1).copied()) + &j(&w[1..]) + &j(&w[..w.len() - 1]) }
pub fn p085(v: &[u8]) -> String { let mut n = 0usize; let mut i = 0; loop { if i >= v.len() { break; } if v[i] == b'0' { i += 2; continue; } n += v[i] as usize; i += 1; } n.to_string() }
pub fn p086(n: usize) -> String { let mut tot = 0; 'outer: for i in 0..n { for k in 0..n { if k > i { continue 'outer; } if i + k > 6 { break 'outer; } tot += i * k; } } tot.to_string() }
pub fn p087(n: usize) -> String { let v: Vec<(usize, &str)> = vec![(1, "a"), (n, "b")]; let mut s = String::new(); for &(k, w) in &v { s += &format!("{}{}", k, w); } for (i, (k, _)) in v.iter().enumerate().rev() { s += &(i + k).to_string(); } s }
pub fn p088(n: usize) -> String { let b = Box::new(n); let r = &*b; let v = vec![Box::new(1usize), b.clone()]; (*r + *v[1] + v.len()).to_string() }
pub fn p089(n: usize) -> String { let t = (n, "x", 2u8); let (a, b, c) = t; let arr = [[1, 2], [3, n]]; let [[_, p], [q, r]] = arr; format!("{}{}{}{}{}{}", a, b, c, p, q, r) }
pub fn p090(n: usize) -> String { let x = n as u8; let y = x as char; let z = (b'0' + x) as char; let w = y as u32 + z as u32; let f = n as f64 / 4.0; format!("{}{}{}", z, w, f) + &(f as usize).to_string() + &(-1i32 as u8).to_string() + &(300usize as u8).to_string() }
pub fn p091(n: usize) -> String { let u = n as u64; (u << 3 | 1).to_string() + &(u & 6).to_string() + &(u ^ 5).to_string() + &(!u & 0xff).to_string() + &u.count_ones().to_string() + &u.leading_zeros().to_string() + &u.is_power_of_two().to_string() }
pub fn p092(n: usize) -> String { o(n.checked_sub(3)) + &o((n as u8).checked_mul(100)) + &n.wrapping_sub(n + 1).to_string().len().to_string() + &(n as u8).wrapping_add(250).to_string() + &format!("{:?}", (n as u8).overflowing_add(255).1) }
pub fn p093(a: &str) -> String { let mut words: Vec<&str> = a.split(' ').collect(); words.dedup(); let l_ = words.len() - 1; words.swap(0, l_); if !words.is_empty() { words.rotate_left(1) }; words.join(" ") }
pub fn p094(a: &str) -> String { let c = a.chars().filter(|c| "aeiou".contains(*c)).count(); let d = a.chars().filter(|c| ['a', 'e'].contains(c)).count(); format!("{}{}", c, d) }
pub fn p095(a: &str) -> String { let it = a.split('-'); let n = it.clone().count(); let l = it.map(|w| w.len()).max().unwrap_or(0); format!("{}{}", n, l) }
pub fn p096(a: &str) -> String { let v: Vec<char> = a.chars().collect(); v.iter().rev().skip(1).step_by(2).collect::<String>() + &v.chunks(2).map(|c| c.iter().collect::<String>()).collect::<Vec<_>>().join("/") }
pub fn p097(a: &str) -> String { let s = String::from(a); let t = s.clone() + "!" + &s; if !t.is_char_boundary(1) || !t.is_char_boundary(t.len() - 1) || t.len() < 2 { return "nb".into(); } let u: &str = &t[1..t.len() - 1]; u.to_owned() + &t[..1] + t.get(100..).unwrap_or("~") }
pub fn p098(a: &str) -> String { let x: Option<&str> = Some(a).filter(|s| s.len() > 2); let y = x.map(str::to_uppercase).unwrap_or_default(); let z = x.as_deref().unwrap_or("?"); y + z + x.unwrap_or_default() }
pub fn p099(a: &str) -> String { let r: Result<u8, _> = a.parse::<u8>(); match r { Ok(v) if v > 5 => format!("big{}", v), Ok(v) => format!("small{}", v), Err(_) => "nan".to_string() } }
pub fn p100(a: &str) -> String { let v: Vec<u32> = a.chars().filter_map(|c| c.to_digit(10)).collect(); let s: u32 = v.iter().sum(); let p: u32 = v.iter().product(); let m = v.iter().copied().reduce(|x, y| x.max(y)); format!("{}{}{}", s, p, o(m)) }

pub fn all() -> Vec<(&'static str, String)> {
    let s1 = "vingt-et-unième";
    let s2 = "one hundred and one";
    let v1: &[u8] = b"120300";
    let v2: &[u8] = b"";
    let v3: &[u8] = b"7";
    let mut out = Vec::new();
    macro_rules! s { ($($f:ident),*) => { $( for (k, a) in [s1, s2, "", "42", "été"].iter().enumerate() { out.push((concat!(stringify!($f)), format!("{}:{}", k, $f(a)))); } )* } }
    macro_rules! v { ($($f:ident),*) => { $( for (k, a) in [v1, v2, v3].iter().enumerate() { out.push((concat!(stringify!($f)), format!("{}:{}", k, $f(a)))); } )* } }
    macro_rules! n { ($($f:ident),*) => { $( for a in [0usize, 1, 3, 6] { out.push((concat!(stringify!($f)), format!("{}:{}", a, $f(a)))); } )* } }
    s!(p001, p002, p003, p004, p005, p006, p007, p008, p009, p010, p011, p012, p013, p014, p015, p016, p017, p018, p019, p020);
    v!(p021, p022, p023, p024, p025, p026, p027, p028, p029, p030, p031, p032, p033, p034, p035, p036, p037, p038, p039, p040, p041, p042, p043, p044);
    n!(p045, p046, p047, p048, p049, p050, p051, p052, p053, p054, p055, p056, p057, p058, p059, p060, p061, p062, p063, p064, p065, p066);
    s!(p067, p068, p069, p070, p071, p072, p073, p074, p075, p076, p077, p078);
    v!(p079, p080, p081, p082, p083, p084, p085);
    n!(p086, p087, p088, p089, p090, p091, p092);
    s!(p093, p094, p095, p096, p097, p098, p099, p100);
    out
}

#[cfg(test)]
mod tests {
    #[test]
    fn dump() {
        for (k, v) in super::all() {
            println!("PROBE {} {:?}", k, v);
        }
    }
}
