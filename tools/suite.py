#!/usr/bin/env python3
"""Run every regression suite of the checker against scratch copies of /repo, a few at a time:

  seeded/        changes written by independent sub-agents that break one property  -> must be caught by that property
  refactorings/  behaviour-preserving refactorings written by sub-agents            -> every check must stay silent
  fixtures/equivalent.py   behaviour-preserving edits                               -> silent
  fixtures/mutants.py      (with --mutants) hand-written breaking edits             -> caught with the expected rule

  tools/suite.py [--jobs 3] [--mutants] [--only seeded,refactor,equivalent]
"""
import argparse
import concurrent.futures
import json
import os
import re
import shutil
import sys

HERE = os.path.dirname(os.path.dirname(os.path.abspath(__file__)))
sys.path.insert(0, os.path.join(HERE, 'tools'))
import seeded as S  # noqa: E402

os.environ['T2N_NO_TABLE_CACHE'] = '1'


TARGET_ONLY = False      # --target-only: a seeded change is checked with the check of its own property only (18 x cheaper)


def with_patch(pdir, prop=None):
    d = S.scratch_copy()
    try:
        ok, out = S.apply_patch(d, os.path.join(pdir, 'patch.diff'))
        if not ok:
            return None
        return S.run_one_check(d, prop) if prop else S.run_all_checks(d)
    finally:
        shutil.rmtree(d, ignore_errors=True)


def job_seeded(sid):
    pdir = os.path.join(S.SEEDED, sid)
    meta = json.load(open(os.path.join(pdir, 'meta.json')))
    target = meta.get('property')
    fired = with_patch(pdir, target if TARGET_ONLY else None)
    if fired is None:
        return ('seeded', sid, 'does-not-apply', {}, meta.get('property'))
    status = 'CAUGHT' if target in fired else ('caught-by-other' if fired else 'MISSED')
    json.dump({'property': target, 'status': status, 'fired': fired, 'target_only': TARGET_ONLY}, open(os.path.join(pdir, 'result.json'), 'w'), indent=1, ensure_ascii=False)
    return ('seeded', sid, status, fired, target)


def job_refactor(rid):
    pdir = os.path.join(S.REFAC, rid)
    fired = with_patch(pdir)
    if fired is None:
        return ('refactor', rid, 'does-not-apply', {}, None)
    json.dump({'fired': fired}, open(os.path.join(pdir, 'result.json'), 'w'), indent=1, ensure_ascii=False)
    return ('refactor', rid, 'FALSE ALARM' if fired else 'silent', fired, None)


def apply_pairs(eq, d):
    p = os.path.join(d, eq['file'])
    s = open(p).read()
    for old, new, count in eq['pairs']:
        c = s.count(old)
        if c == 0 or (count is not None and c != count):
            return False
        s = s.replace(old, new)
    open(p, 'w').write(s)
    return True


def job_equivalent(eq):
    d = S.scratch_copy()
    try:
        if not apply_pairs(eq, d):
            return ('equivalent', eq['id'], 'does-not-apply', {}, None)
        fired = S.run_all_checks(d)
        return ('equivalent', eq['id'], 'FALSE ALARM' if fired else 'silent', fired, None)
    finally:
        shutil.rmtree(d, ignore_errors=True)


def main():
    ap = argparse.ArgumentParser()
    ap.add_argument('--jobs', type=int, default=3)
    ap.add_argument('--only', default='seeded,refactor,equivalent')
    ap.add_argument('--ids', default='')
    ap.add_argument('--target-only', action='store_true')
    ap.add_argument('--newest-first', action='store_true')
    a = ap.parse_args()
    global TARGET_ONLY
    TARGET_ONLY = a.target_only
    which = a.only.split(',')
    ids = [x for x in a.ids.split(',') if x]
    jobs = []
    if 'seeded' in which:
        jobs += [(job_seeded, s) for s in sorted(os.listdir(S.SEEDED)) if os.path.exists(os.path.join(S.SEEDED, s, 'patch.diff')) and (not ids or s in ids)]
    if 'refactor' in which:
        jobs += [(job_refactor, r) for r in sorted(os.listdir(S.REFAC)) if os.path.exists(os.path.join(S.REFAC, r, 'patch.diff')) and (not ids or r in ids)]
    if a.newest_first:
        jobs.reverse()
    if 'equivalent' in which:
        # fixtures/mutants.py and tools/mutants.py share a module name: load the fixture list by path
        import importlib.util
        spec = importlib.util.spec_from_file_location('equivalent_fixture', os.path.join(HERE, 'fixtures', 'equivalent.py'))
        m = importlib.util.module_from_spec(spec)
        spec.loader.exec_module(m)
        jobs += [(job_equivalent, e) for e in m.E if not ids or e['id'] in ids]
    bad = 0
    with concurrent.futures.ThreadPoolExecutor(max_workers=a.jobs) as ex:
        futs = [ex.submit(fn, arg) for fn, arg in jobs]
        for fut in concurrent.futures.as_completed(futs):
            kind, ident, status, fired, target = fut.result()
            ok = status in ('CAUGHT', 'silent')
            bad += not ok
            print('%-10s %-28s %-16s %s%s' % (kind, ident, status, ('target=%s ' % target) if target else '', sorted(fired)), flush=True)
            if not ok or kind == 'seeded':
                for p, ks in sorted(fired.items()):
                    if kind == 'seeded' and p != target:
                        continue
                    for k in ks[:2]:
                        print('        %s: %s' % (p, k[:230]), flush=True)
    print('%d jobs, %d not as expected' % (len(jobs), bad))
    return 1 if bad else 0


if __name__ == '__main__':
    sys.exit(main())
