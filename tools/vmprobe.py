#!/usr/bin/env python3
"""Conformance self-test of the MIR abstract machine (analysis/t2n/vm.py) against compiled Rust.

Not a property check (nothing in MANIFEST.json runs it): it tests the *checker*.  Three probe modules (tools/vmprobe/*.rs,
~160 small functions over str / slice / Vec / VecDeque / Option / Result / iterator adaptors / integer and float arithmetic /
format! / control flow, each on several inputs) are added to a scratch copy of /repo outside /repo and /verif; `cargo test`
prints what the compiled functions return; the same functions are then interpreted by the machine from the MIR the fact
extractor dumps for that copy, and every result must be identical.  A mismatch is a bug in the machine's model of std (it would
show up as a false alarm or a missed violation on a refactored tree), an `Unsupported` is a construct to add.

  tools/vmprobe.py [probe names...]      exit 0 iff every case agrees
"""
import collections
import os
import re
import shutil
import subprocess
import sys
import tempfile

HERE = os.path.dirname(os.path.dirname(os.path.abspath(__file__)))
sys.path.insert(0, os.path.join(HERE, 'analysis'))

S1 = ["vingt-et-unième", "one hundred and one", "", "42", "été"]
S2 = ["vingt-et-unième", "one hundred and one", "", "42 7 x", "été"]
S3 = ["2.7", "one hundred and one", "", "1.x", "été b"]
VS = [b"120300", b"", b"7"]
NS = [0, 1, 3, 6]


def unescape(raw):
    out, i = [], 0
    while i < len(raw):
        c = raw[i]
        if c != '\\':
            out.append(c)
            i += 1
            continue
        n = raw[i + 1]
        if n == 'u':
            k = raw.index('}', i)
            out.append(chr(int(raw[i + 3:k], 16)))
            i = k + 1
            continue
        out.append({'n': '\n', 't': '\t', 'r': '\r', '0': '\0', '\\': '\\', '"': '"', "'": "'"}[n])
        i += 2
    return ''.join(out)


def main():
    from t2n import facts
    from t2n.vm import VM, Unsupported, Panic, Seq
    repo = os.environ.get('T2N_REPO', '/repo')
    d = tempfile.mkdtemp(prefix='t2n-vmprobe-')
    try:
        for n in ('Cargo.toml', 'Cargo.lock'):
            shutil.copy(os.path.join(repo, n), d)
        shutil.copytree(os.path.join(repo, 'src'), os.path.join(d, 'src'))
        for n in ('vmprobe.rs', 'vmprobe2.rs', 'vmprobe3.rs'):
            shutil.copy(os.path.join(HERE, 'tools', 'vmprobe', n), os.path.join(d, 'src', n))
        with open(os.path.join(d, 'src', 'lib.rs'), 'a') as fh:
            fh.write('\n#[doc(hidden)]\npub mod vmprobe;\n#[doc(hidden)]\npub mod vmprobe2;\n#[doc(hidden)]\npub mod vmprobe3;\n')
        env = dict(os.environ, CARGO_NET_OFFLINE='true', CARGO_TARGET_DIR=os.path.join(d, 'target'))
        r = subprocess.run(['cargo', 'test', '--offline', '--lib', 'vmprobe', '--', '--nocapture', '--test-threads=1'], cwd=d, env=env, capture_output=True, text=True)
        exp = collections.defaultdict(dict)
        for line in r.stdout.splitlines():
            m = re.search(r'PROBE (\w+) "(.*)"$', line.strip())
            if m:
                key, val = unescape(m.group(2)).split(':', 1)
                exp[m.group(1)][key] = val
        if not exp:
            print('the probe crate did not build / run:\n' + r.stderr[-3000:])
            return 2
        shutil.rmtree(os.path.join(d, 'target'), ignore_errors=True)
        f = facts.load(d, 'dbg')

        def args_for(name):
            n = int(name[1:])
            if name[0] == 't':
                return [(str(k), a) for k, a in enumerate(S3)] if n in (3, 11, 12, 13, 14, 23, 24, 25) else [(str(a), a) for a in NS]
            if name[0] == 'q':
                return [(str(k), a) for k, a in enumerate(S2)] if 16 <= n <= 21 else [(str(a), a) for a in NS]
            if 1 <= n <= 20 or 67 <= n <= 78 or 93 <= n <= 100:
                return [(str(k), a) for k, a in enumerate(S1)]
            if 21 <= n <= 44 or 79 <= n <= 85:
                return [(str(k), Seq(list(a))) for k, a in enumerate(VS)]
            return [(str(a), a) for a in NS]
        only = sys.argv[1:]
        bad, ok = collections.Counter(), 0
        for name in sorted(exp):
            if only and name not in only:
                continue
            for key, a in args_for(name):
                vm = VM(f, None, local_prefixes=('vmprobe', 'word_to_digit', 'lang', 'digit_string', 'tokenizer', 'error', '<'))
                try:
                    got = vm.deref(vm.run({'q': 'vmprobe2::', 't': 'vmprobe3::'}.get(name[0], 'vmprobe::') + name, [a]))
                except Unsupported as e:
                    bad[name] += 1
                    print(name, key, 'UNSUPPORTED', str(e)[:200])
                    break
                except Panic as e:
                    bad[name] += 1
                    print(name, key, 'PANIC', str(e)[:200])
                    break
                if key not in exp[name]:
                    print(name, key, 'no compiled result', sorted(exp[name]))
                    bad[name] += 1
                    break
                if got != exp[name][key]:
                    bad[name] += 1
                    print(name, key, 'MISMATCH machine %r, compiled %r' % (got, exp[name][key]))
                    break
                ok += 1
        print('%d cases agree, %d probes fail (of %d)' % (ok, len(bad), len(exp)))
        return 1 if bad else 0
    finally:
        shutil.rmtree(d, ignore_errors=True)


if __name__ == '__main__':
    sys.exit(main())
