#!/usr/bin/env python3
"""Self-test of the checker against the mutant battery (fixtures/mutants.py).

  tools/mutants.py --verify            every mutant compiles and passes the 136 tests (slow; results recorded)
  tools/mutants.py --run [--prop C07]  every mutant is caught by the check(s) of its property with the expected rule
  tools/mutants.py --matrix            which checks fire on which mutant (all 18 checks per mutant)

Scratch copies of /repo live under $VERIF_SCRATCH or the system temp dir (never under /repo or /verif) and are
removed, with their build output, as soon as each mutant is done.
"""
import argparse
import concurrent.futures
import json
import os
import re
import shutil
import subprocess
import sys
import tempfile

HERE = os.path.dirname(os.path.dirname(os.path.abspath(__file__)))
sys.path.insert(0, os.path.join(HERE, 'fixtures'))
from mutants import M  # noqa: E402

REPO = '/repo'
VERIFIED = os.path.join(HERE, 'fixtures', 'mutants_verified.json')


def scratch_copy(repo=REPO):
    base = os.environ.get('VERIF_SCRATCH') or tempfile.gettempdir()
    d = tempfile.mkdtemp(prefix='t2n-mutant-', dir=base)
    for name in ('Cargo.toml', 'Cargo.lock'):
        shutil.copy(os.path.join(repo, name), os.path.join(d, name))
    shutil.copytree(os.path.join(repo, 'src'), os.path.join(d, 'src'))
    return d


def apply(mut, d):
    p = os.path.join(d, mut['file'])
    s = open(p).read()
    if s.count(mut['old']) != 1:
        return False
    open(p, 'w').write(s.replace(mut['old'], mut['new']))
    return True


def verify_one(mut, target):
    d = scratch_copy()
    try:
        if not apply(mut, d):
            return {'id': mut['id'], 'status': 'does-not-apply'}
        env = dict(os.environ, CARGO_TARGET_DIR=target, CARGO_NET_OFFLINE='true')
        try:
            r = subprocess.run(['cargo', 'test', '--offline', '--lib', '--quiet'], cwd=d, env=env, capture_output=True, text=True, timeout=240)
        except subprocess.TimeoutExpired:
            subprocess.run(['pkill', '-f', os.path.join(target, 'debug', 'deps')])
            return {'id': mut['id'], 'status': 'tests-hang'}
        out = r.stdout + r.stderr
        m = re.search(r'test result: (\w+)\. (\d+) passed; (\d+) failed', out)
        if r.returncode != 0 and not m:
            return {'id': mut['id'], 'status': 'compile-error', 'detail': out[-600:]}
        return {'id': mut['id'], 'status': 'pass' if (m and m.group(1) == 'ok' and m.group(2) == '136') else 'tests-fail',
                'passed': int(m.group(2)) if m else None, 'failed': int(m.group(3)) if m else None,
                'detail': '' if (m and m.group(1) == 'ok') else out[-800:]}
    finally:
        shutil.rmtree(d, ignore_errors=True)


def run_checks(mut, props):
    d = scratch_copy()
    out = {}
    try:
        if not apply(mut, d):
            return mut['id'], None
        for p in props:
            r = subprocess.run([os.path.join(HERE, 'check'), p, '--repo', d, '--no-evidence'], capture_output=True, text=True)
            keys = []
            for line in r.stdout.splitlines():
                mm = re.match(r'^\s+(FAIL|ANCHOR) (.*?) @ ', line)
                if mm:
                    keys.append(mm.group(2))
            out[p] = {'rc': r.returncode, 'keys': keys}
        return mut['id'], out
    finally:
        shutil.rmtree(d, ignore_errors=True)


def apply_pairs(eq, d):
    p = os.path.join(d, eq['file'])
    s = open(p).read()
    for old, new, count in eq['pairs']:
        c = s.count(old)
        if c == 0 or (count is not None and c != count):
            return False
        s = s.replace(old, new)
    open(p, 'w').write(s)
    return True


def run_equivalent_one(eq):
    d = scratch_copy()
    try:
        if not apply_pairs(eq, d):
            return eq['id'], None
        sys.path.insert(0, os.path.join(HERE, 'tools'))
        from seeded import run_all_checks
        return eq['id'], run_all_checks(d)
    finally:
        shutil.rmtree(d, ignore_errors=True)


def run_equivalent(a):
    from equivalent import E
    eqs = [e for e in E if not a.only or any(x in e['id'] for x in a.only.split(','))]
    bad = []
    with concurrent.futures.ThreadPoolExecutor(max_workers=a.jobs) as ex:
        for eid, alarms in ex.map(run_equivalent_one, eqs):
            if alarms is None:
                print('%-28s SKIPPED (does not apply)' % eid)
            elif alarms:
                bad.append(eid)
                print('%-28s FALSE ALARM %s' % (eid, json.dumps(alarms, ensure_ascii=False)[:900]))
            else:
                print('%-28s silent' % eid)
    print('%d behaviour-preserving edits, %d false alarms: %s' % (len(eqs), len(bad), bad))
    return 1 if bad else 0


def main():
    ap = argparse.ArgumentParser()
    ap.add_argument('--verify', action='store_true')
    ap.add_argument('--run', action='store_true')
    ap.add_argument('--matrix', action='store_true')
    ap.add_argument('--equivalent', action='store_true', help='behaviour-preserving edits: every check must stay silent')
    ap.add_argument('--prop')
    ap.add_argument('--only')
    ap.add_argument('--jobs', type=int, default=8)
    a = ap.parse_args()
    muts = [m for m in M if (not a.prop or a.prop in m['props']) and (not a.only or any(x in m['id'] for x in a.only.split(',')))]
    if a.equivalent:
        sys.exit(run_equivalent(a))
    if a.verify:
        target = tempfile.mkdtemp(prefix='t2n-mutant-target-')
        res = {}
        try:
            done = json.load(open(VERIFIED)) if os.path.exists(VERIFIED) else {}
            for mut in muts:
                if mut['id'] in done and done[mut['id']].get('old') == mut['old'] and done[mut['id']].get('new') == mut['new']:
                    res[mut['id']] = done[mut['id']]
                    continue
                r = verify_one(mut, target)
                r['old'], r['new'] = mut['old'], mut['new']
                json.dump(dict(done, **res, **{mut['id']: r}), open(VERIFIED, 'w'), indent=1, sort_keys=True)
                res[mut['id']] = r
                print('%-34s %s %s' % (mut['id'], r['status'], (r.get('detail') or '')[-300:].replace('\n', ' | ') if r['status'] != 'pass' else ''))
        finally:
            shutil.rmtree(target, ignore_errors=True)
        old = {}
        if os.path.exists(VERIFIED):
            old = json.load(open(VERIFIED))
        old.update(res)
        json.dump(old, open(VERIFIED, 'w'), indent=1, sort_keys=True)
        bad = [k for k, v in res.items() if v['status'] != 'pass']
        print('%d/%d mutants compile and pass the suite; not ok: %s' % (len(res) - len(bad), len(res), bad))
        sys.exit(1 if bad else 0)
    all_props = ['C%02d' % i for i in range(1, 19)]
    missed = []
    with concurrent.futures.ThreadPoolExecutor(max_workers=a.jobs) as ex:
        futs = {ex.submit(run_checks, mut, all_props if a.matrix else mut['props']): mut for mut in muts}
        for fut in concurrent.futures.as_completed(futs):
            mut = futs[fut]
            mid, out = fut.result()
            if out is None:
                print('%-34s SKIPPED (does not apply to the current tree)' % mid)
                continue
            caught_by = sorted(p for p, r in out.items() if r['rc'] == 1)
            ok = all(out[p]['rc'] == 1 and any(re.match(mut['rule'], k) for k in out[p]['keys']) for p in mut['props'])
            if not ok:
                missed.append(mid)
            print('%-34s %-7s caught by %s %s' % (mid, 'ok' if ok else 'MISSED', caught_by,
                                                 '' if ok else {p: out[p]['keys'][:3] for p in mut['props']}))
    print('%d mutants, %d missed: %s' % (len(muts), len(missed), missed))
    sys.exit(1 if missed else 0)


if __name__ == '__main__':
    main()
