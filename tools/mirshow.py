#!/usr/bin/env python3
"""Pretty-print the serialised MIR of one body (debug aid)."""
import json, sys, os, glob
sys.path.insert(0, os.path.join(os.path.dirname(os.path.dirname(os.path.abspath(__file__))), 'analysis'))
from t2n import facts
from t2n.mir import Body
f = facts.load(sys.argv[2] if len(sys.argv) > 2 else '/repo')
def op(o):
    if o is None: return '_'
    if o['k'] == 'const': return 'const ' + o['s'].replace('const ', '')
    return ('move ' if o['k']=='move' else '') + o['pl']['s']
def rv(r):
    k = r['k']
    if k == 'use': return op(r['op'])
    if k == 'ref': return '&' + ('mut ' if r['bk']=='mut' else '') + r['pl']['s']
    if k == 'bin': return '%s(%s, %s)' % (r['op'], op(r['a']), op(r['b']))
    if k == 'un': return '%s(%s)' % (r['op'], op(r['a']))
    if k == 'cast': return '%s as %s [%s]' % (op(r['op']), r['ty'], r['ck'])
    if k == 'discr': return 'discriminant(%s)' % r['pl']['s']
    if k == 'agg': return '%s%s(%s)' % (r.get('adt', r.get('ak')), '::'+r['variant'] if 'variant' in r else '', ', '.join(op(o) for o in r['ops']))
    if k == 'copyforderef': return 'deref_copy ' + r['pl']['s']
    return json.dumps(r)[:100]
for path, m in f.mir.items():
    if sys.argv[1] not in path: continue
    print('fn', path, m['sp'], 'args=%d' % m['arg_count'])
    for d in m['debug']:
        print('   debug', d['name'], '=>', d['val'].get('s'))
    for i, b in enumerate(m['blocks']):
        print(' bb%d%s:' % (i, ' (cleanup)' if b.get('cleanup') else ''))
        for s in b['stmts']:
            if s['k'] == 'assign': print('    %s = %s' % (s['pl']['s'], rv(s['rv'])))
            else: print('    ', s)
        t = b['term']
        k = t['k']
        if k == 'call': print('    %s = %s(%s) -> %s   [%s]' % (t['dest']['s'], t.get('resolved') or t.get('callee'), ', '.join(op(a) for a in t['args']), t.get('t'), t['sp'].split(':',1)[1]))
        elif k == 'switch': print('    switch %s %s else %s' % (op(t['op']), t['targets'], t['otherwise']))
        elif k == 'assert': print('    assert(%s == %s, %s %s) -> %s' % (op(t['cond']), t['expected'], t['msg'], [op(o) for o in t['ops']], t['t']))
        elif k == 'drop': print('    drop(%s) -> %s' % (t['pl']['s'], t['t']))
        elif k == 'goto': print('    goto %s' % t['t'])
        else: print('    ' + k)
