#!/usr/bin/env python3
"""List undischarged panic sites with alpha-normalised keys and facts (aid for tables/panic_sites.json)."""
import sys, os, json
sys.path.insert(0, os.path.join(os.path.dirname(os.path.dirname(os.path.abspath(__file__))), 'analysis'))
from t2n import facts, engine
from t2n.rules import panics
from t2n.mirx import alpha, pretty, untag
sys.path.insert(0, os.path.dirname(os.path.dirname(os.path.abspath(__file__))))
class Ctx:
    def __init__(s, f): s.facts=f; s._c={}; s.tier='quick'; s.repo='/repo'
    def memo(s,k,fn):
        if k not in s._c: s._c[k]=fn()
        return s._c[k]
ctx=Ctx(facts.load('/repo'))
for s in panics.enumerate_sites(ctx):
    if panics.discharge_local(ctx, s) is not None: continue
    xp,xe=panics.xs(ctx,s.fn)
    fs=[untag(alpha([s.desc_p,f])[1]) for f in xp.facts_at(s.bi)]
    print(json.dumps({'fn':s.fn,'site':s.key_desc,'facts':fs,'expanded':untag(pretty(s.desc_e))[:300]},ensure_ascii=False))
