#!/usr/bin/env python3
"""Writes /verif/lexicon/<lang>.json — the frozen reference lexicons (oracle of rule family A).

The content is written from the numeral systems of the languages (standard grammar), NOT read from the
repository.  tier: core = occurs in the standard spelling of some number in the property's range;
variant = accepted variant (enforced only while the tree supports it, see rules/lexical.py).
"""
import json
import os

OUT = os.path.join(os.path.dirname(os.path.dirname(os.path.abspath(__file__))), 'lexicon')


def card(w, v, cls, tier='core', **kw):
    d = {'w': w, 'v': v, 'class': cls, 'tier': tier}
    d.update(kw)
    return d


def ordn(w, v, marker, cls, tier='core', **kw):
    d = {'w': w, 'v': v, 'marker': marker, 'class': cls, 'tier': tier}
    d.update(kw)
    return d


def cls_of(v):
    if v < 10:
        return 'unit'
    if v < 20:
        return 'teen'
    if v < 100 and v % 10 == 0:
        return 'ten'
    if v < 100:
        return 'ten_unit'
    if v < 1000 and v % 100 == 0:
        return 'hundred_lex'
    raise ValueError(v)


LEX = {}

# ------------------------------------------------------------------------------------------ en
en_units = 'one two three four five six seven eight nine'.split()
en_teens = 'ten eleven twelve thirteen fourteen fifteen sixteen seventeen eighteen nineteen'.split()
en_tens = 'twenty thirty forty fifty sixty seventy eighty ninety'.split()
c = [card(w, i + 1, 'unit') for i, w in enumerate(en_units)]
c += [card(w, i + 10, 'teen') for i, w in enumerate(en_teens)]
c += [card(w, (i + 2) * 10, 'ten') for i, w in enumerate(en_tens)]
c += [card('fourty', 40, 'ten', 'variant')]
c += [card('hundred', 100, 'hundred'), card('thousand', 1000, 'thousand'), card('million', 10 ** 6, 'million'),
      card('billion', 10 ** 9, 'milliard')]
c += [card('hundreds', 100, 'hundred', 'variant'), card('thousands', 1000, 'thousand', 'variant'),
      card('millions', 10 ** 6, 'million', 'variant'), card('billions', 10 ** 9, 'milliard', 'variant')]
o = [ordn('first', 1, 'st', 'unit'), ordn('second', 2, 'nd', 'unit'), ordn('third', 3, 'rd', 'unit')]
o += [ordn(w, i + 4, 'th', 'unit') for i, w in enumerate('fourth fifth sixth seventh eighth ninth'.split())]
o += [ordn(w, i + 10, 'th', 'teen') for i, w in enumerate(
    'tenth eleventh twelfth thirteenth fourteenth fifteenth sixteenth seventeenth eighteenth nineteenth'.split())]
o += [ordn(w, (i + 2) * 10, 'th', 'ten') for i, w in enumerate(
    'twentieth thirtieth fortieth fiftieth sixtieth seventieth eightieth ninetieth'.split())]
o += [ordn('fourtieth', 40, 'th', 'ten', 'variant')]
o += [ordn('hundredth', 100, 'th', 'hundred'), ordn('thousandth', 1000, 'th', 'thousand'), ordn('millionth', 10 ** 6, 'th', 'million'),
      ordn('billionth', 10 ** 9, 'th', 'milliard', 'variant')]
o += [ordn('thirds', 3, 'rds', 'unit', 'variant'), ordn('fourths', 4, 'ths', 'unit', 'variant'), ordn('tenths', 10, 'ths', 'teen', 'variant'),
      ordn('hundredths', 100, 'ths', 'hundred', 'variant')]
LEX['en'] = {
    'zero': ['zero', 'o', 'nought'], 'cardinals': c, 'ordinals': o, 'freezes_ordinals': True,
    'conjunction': 'and', 'conjunction_guard': 'len>=2', 'decimal_sep': 'point', 'decimal_mark': '.',
    'decimal_digits': dict([('zero', 0), ('o', 0), ('nought', 0)] + [(w, i + 1) for i, w in enumerate(en_units)]),
    'group_syntax': '-',
    'excluded': [{'w': 'seconds', 'why': 'time unit; test "Twenty seconds"'}],
    'tree_only': [{'w': 'oneth', 'why': 'artificial form for "forty-oneths"'}, {'w': 'sixteeth', 'why': 'misspelling of sixtieth kept for compatibility'}],
}

# ------------------------------------------------------------------------------------------ fr
fr_units = 'un deux trois quatre cinq six sept huit neuf'.split()
fr_teens = 'dix onze douze treize quatorze quinze seize'.split()
c = [card(w, i + 1, 'unit') for i, w in enumerate(fr_units)]
c += [card(w, i + 10, 'vig_teen') for i, w in enumerate(fr_teens)]
c += [card('vingt', 20, 'vig_vingt'), card('vingts', 20, 'vig_vingt')]
c += [card(w, (i + 3) * 10, 'ten') for i, w in enumerate('trente quarante cinquante soixante'.split())]
c += [card('septante', 70, 'ten'), card('huitante', 80, 'ten'), card('octante', 80, 'ten'), card('nonante', 90, 'ten')]
c += [card('cent', 100, 'hundred'), card('cents', 100, 'hundred'), card('mille', 1000, 'thousand'), card('mil', 1000, 'thousand', 'variant'),
      card('million', 10 ** 6, 'million'), card('millions', 10 ** 6, 'million'), card('milliard', 10 ** 9, 'milliard'),
      card('milliards', 10 ** 9, 'milliard')]
o = [ordn('premier', 1, 'er', 'unit'), ordn('première', 1, 'ère', 'unit'), ordn('premiers', 1, 'ers', 'unit'), ordn('premières', 1, 'ères', 'unit')]
fr_ord_units = 'unième deuxième troisième quatrième cinquième sixième septième huitième neuvième'.split()
o += [ordn(w, i + 1, 'ème', 'unit') for i, w in enumerate(fr_ord_units)]
o += [ordn(w, i + 10, 'ème', 'vig_teen') for i, w in enumerate('dixième onzième douzième treizième quatorzième quinzième seizième'.split())]
o += [ordn('vingtième', 20, 'ème', 'vig_vingt')]
o += [ordn(w, (i + 3) * 10, 'ème', 'ten') for i, w in enumerate('trentième quarantième cinquantième soixantième'.split())]
o += [ordn('septantième', 70, 'ème', 'ten'), ordn('huitantième', 80, 'ème', 'ten'), ordn('octantième', 80, 'ème', 'ten'),
      ordn('nonantième', 90, 'ème', 'ten')]
o += [ordn('centième', 100, 'ème', 'hundred'), ordn('millième', 1000, 'ème', 'thousand'), ordn('millionième', 10 ** 6, 'ème', 'million'),
      ordn('milliardième', 10 ** 9, 'ème', 'milliard', 'variant')]
o += [ordn('deuxièmes', 2, 'èmes', 'unit', 'variant'), ordn('dixièmes', 10, 'èmes', 'vig_teen', 'variant'), ordn('centièmes', 100, 'èmes', 'hundred', 'variant')]
LEX['fr'] = {
    'zero': ['zéro'], 'cardinals': c, 'ordinals': o, 'freezes_ordinals': True,
    'conjunction': 'et', 'conjunction_guard': 'len>=2', 'decimal_sep': 'virgule', 'decimal_mark': ',',
    'group_syntax': '-',
    'excluded': [{'w': 'une', 'why': 'article; test "une seconde"'}, {'w': 'second', 'why': 'left as a word; test "premier second"'},
                 {'w': 'seconde', 'why': 'time unit'}],
    'tree_only': [{'w': 'huitantiène', 'why': 'misspelling of huitantième kept for compatibility'}],
}

# ------------------------------------------------------------------------------------------ es
c = [card('un', 1, 'unit'), card('uno', 1, 'unit'), card('una', 1, 'unit')]
c += [card(w, i + 2, 'unit') for i, w in enumerate('dos tres cuatro cinco seis siete ocho nueve'.split())]
es_teens = 'diez once doce trece catorce quince dieciséis diecisiete dieciocho diecinueve'.split()
c += [card(w, i + 10, 'teen') for i, w in enumerate(es_teens)]
c += [card('veinte', 20, 'ten')]
es_veinti = 'veintiuno veintidós veintitrés veinticuatro veinticinco veintiséis veintisiete veintiocho veintinueve'.split()
c += [card(w, i + 21, 'ten_unit') for i, w in enumerate(es_veinti)]
c += [card('veintiuna', 21, 'ten_unit'), card('veintiún', 21, 'ten_unit')]
c += [card('dieciseis', 16, 'teen', 'variant'), card('veintiun', 21, 'ten_unit', 'variant'), card('veintidos', 22, 'ten_unit', 'variant'),
      card('veintitres', 23, 'ten_unit', 'variant'), card('veintiseis', 26, 'ten_unit', 'variant')]
c += [card(w, (i + 3) * 10, 'ten') for i, w in enumerate('treinta cuarenta cincuenta sesenta setenta ochenta noventa'.split())]
c += [card('cien', 100, 'hundred_lex'), card('ciento', 100, 'hundred_lex')]
es_h = 'doscient trescient cuatrocient quinient seiscient setecient ochocient novecient'.split()
for i, stem in enumerate(es_h):
    c += [card(stem + 'os', (i + 2) * 100, 'hundred_lex'), card(stem + 'as', (i + 2) * 100, 'hundred_lex')]
c += [card('mil', 1000, 'thousand'), card('millón', 10 ** 6, 'million'), card('millones', 10 ** 6, 'million'),
      card('millon', 10 ** 6, 'million', 'variant')]
o = []
es_ord = [('primer', 1), ('segund', 2), ('tercer', 3), ('cuart', 4), ('quint', 5), ('sext', 6), ('séptim', 7), ('octav', 8), ('noven', 9),
          ('décim', 10), ('undécim', 11), ('duodécim', 12), ('decimotercer', 13), ('decimocuart', 14), ('decimoquint', 15),
          ('decimosext', 16), ('decimoséptim', 17), ('decimoctav', 18), ('decimonoven', 19), ('vigésim', 20), ('trigésim', 30),
          ('cuadragésim', 40), ('quincuagésim', 50), ('sexagésim', 60), ('septuagésim', 70), ('octogésim', 80), ('nonagésim', 90),
          ('centésim', 100), ('ducentésim', 200), ('tricentésim', 300), ('cuadringentésim', 400), ('quingentésim', 500),
          ('sexcentésim', 600), ('septingentésim', 700), ('octingentésim', 800), ('noningentésim', 900), ('milésim', 1000)]
for stem, v in es_ord:
    klass = 'thousand' if v == 1000 else cls_of(v)
    for suf, mk in (('o', 'º'), ('a', 'ª'), ('os', 'ᵒˢ'), ('as', 'ᵃˢ')):
        kw = {}
        if stem == 'segund' and suf in ('o', 'os'):
            # bare "segundo" is the time unit; as an ordinal it follows another ordinal (vigésimo segundo)
            kw['after'] = {'digits': '20', 'marker': mk if suf == 'o' else 'ᵒˢ'}
        o.append(ordn(stem + suf, v, mk, klass, **kw))
o += [ordn('decimoprimero', 11, 'º', 'teen', 'variant'), ordn('decimoprimera', 11, 'ª', 'teen', 'variant'),
      ordn('decimosegundo', 12, 'º', 'teen', 'variant'), ordn('decimosegunda', 12, 'ª', 'teen', 'variant'),
      ordn('primer', 1, '.ᵉʳ', 'unit', 'variant')]
LEX['es'] = {
    'zero': ['cero'], 'cardinals': c, 'ordinals': o, 'freezes_ordinals': False,
    'conjunction': 'y', 'conjunction_guard': 'len>=2', 'decimal_sep': 'coma', 'decimal_mark': ',',
    'excluded': [{'w': 'segundo', 'why': 'bare form is the time unit; accepted only after an ordinal; tests "Un segundo por favor"'}],
    'tree_only': [{'w': 'quadringentésimo', 'why': 'misspelling of cuadringentésimo kept for compatibility'},
                  {'w': 'quadringentésima', 'why': 'idem'}, {'w': 'cienta', 'why': 'non-standard feminine'}],
    'note': 'tercer (apocope) carries no marker in the tree: information only. Fractions (-avo) are outside C04.',
}

# ------------------------------------------------------------------------------------------ pt
c = [card('um', 1, 'unit'), card('uma', 1, 'unit'), card('dois', 2, 'unit'), card('duas', 2, 'unit'), card('três', 3, 'unit'),
     card('tres', 3, 'unit', 'variant')]
c += [card(w, i + 4, 'unit') for i, w in enumerate('quatro cinco seis sete oito nove'.split())]
pt_teens = 'dez onze doze treze catorze quinze dezasseis dezassete dezoito dezanove'.split()
c += [card(w, i + 10, 'teen') for i, w in enumerate(pt_teens)]
c += [card('quatorze', 14, 'teen', 'variant'), card('dezesseis', 16, 'teen'), card('dezessete', 17, 'teen'), card('dezenove', 19, 'teen')]
c += [card(w, (i + 2) * 10, 'ten') for i, w in enumerate('vinte trinta quarenta cinquenta sessenta setenta oitenta noventa'.split())]
c += [card('cinqüenta', 50, 'ten', 'variant')]
c += [card('cem', 100, 'hundred_lex'), card('cento', 100, 'hundred_lex')]
for i, stem in enumerate('duzent trezent quatrocent quinhent seiscent setecent oitocent novecent'.split()):
    c += [card(stem + 'os', (i + 2) * 100, 'hundred_lex'), card(stem + 'as', (i + 2) * 100, 'hundred_lex')]
c += [card('mil', 1000, 'thousand'), card('milhão', 10 ** 6, 'million'), card('milhões', 10 ** 6, 'million'),
      card('bilhão', 10 ** 9, 'milliard', 'variant'), card('bilhões', 10 ** 9, 'milliard', 'variant'),
      card('bilião', 10 ** 9, 'milliard', 'variant'), card('biliões', 10 ** 9, 'milliard', 'variant')]
o = []
pt_ord = [('primeir', 1), ('segund', 2), ('terceir', 3), ('quart', 4), ('quint', 5), ('sext', 6), ('sétim', 7), ('oitav', 8), ('non', 9),
          ('décim', 10), ('vigésim', 20), ('trigésim', 30), ('quadragésim', 40), ('quinquagésim', 50), ('sexagésim', 60),
          ('septuagésim', 70), ('octogésim', 80), ('nonagésim', 90), ('centésim', 100), ('ducentésim', 200), ('trecentésim', 300),
          ('quadringentésim', 400), ('quingentésim', 500), ('sexcentésim', 600), ('septingentésim', 700), ('octingentésim', 800),
          ('nongentésim', 900), ('milésim', 1000)]
for stem, v in pt_ord:
    klass = 'thousand' if v == 1000 else cls_of(v)
    for suf, mk in (('o', 'º'), ('a', 'ª'), ('os', 'ᵒˢ'), ('as', 'ᵃˢ')):
        o.append(ordn(stem + suf, v, mk, klass))
for stem, v in [('setuagésim', 70), ('tricentésim', 300), ('seiscentésim', 600), ('setingentésim', 700), ('noningentésim', 900),
                ('qüinquagésim', 50), ('qüingentésim', 500)]:
    o.append(ordn(stem + 'o', v, 'º', cls_of(v), 'variant'))
LEX['pt'] = {
    'zero': ['zero'], 'cardinals': c, 'ordinals': o, 'freezes_ordinals': False,
    'conjunction': 'e', 'conjunction_guard': 'pt', 'decimal_sep': 'vírgula', 'decimal_mark': ',',
    'excluded': [], 'tree_only': [],
}

# ------------------------------------------------------------------------------------------ it
c = [card('un', 1, 'unit'), card('uno', 1, 'unit'), card('una', 1, 'unit')]
c += [card(w, i + 2, 'unit') for i, w in enumerate('due tre quattro cinque sei sette otto nove'.split())]
c += [card('tré', 3, 'unit', 'variant')]
it_teens = 'dieci undici dodici tredici quattordici quindici sedici diciassette diciotto diciannove'.split()
c += [card(w, i + 10, 'teen') for i, w in enumerate(it_teens)]
it_tens = 'venti trenta quaranta cinquanta sessanta settanta ottanta novanta'.split()
c += [card(w, (i + 2) * 10, 'ten') for i, w in enumerate(it_tens)]
for i, w in enumerate(it_tens):
    stem = w[:-1]
    c += [card(stem + 'uno', (i + 2) * 10 + 1, 'ten_unit'), card(stem + 'un', (i + 2) * 10 + 1, 'ten_unit'),
          card(stem + 'otto', (i + 2) * 10 + 8, 'ten_unit')]
c += [card('cento', 100, 'hundred'), card('mille', 1000, 'thousand_lex'), card('mila', 1000, 'thousand'),
      card('milione', 10 ** 6, 'million'), card('milioni', 10 ** 6, 'million'), card('miliardo', 10 ** 9, 'milliard'),
      card('miliardi', 10 ** 9, 'milliard'), card('bilione', 10 ** 12, 'billion12', 'variant'), card('bilioni', 10 ** 12, 'billion12', 'variant'),
      card('centuno', 101, 'hundred_unit', 'variant'), card('centun', 101, 'hundred_unit', 'variant')]
o = []
it_ord = [('prim', 1), ('second', 2), ('terz', 3), ('quart', 4), ('quint', 5), ('sest', 6), ('settim', 7), ('ottav', 8), ('non', 9),
          ('decim', 10), ('undicesim', 11), ('dodicesim', 12), ('tredicesim', 13), ('quattordicesim', 14), ('quindicesim', 15),
          ('sedicesim', 16), ('diciassettesim', 17), ('diciottesim', 18), ('diciannovesim', 19)]
it_ord += [(w[:-1] + 'esim', (i + 2) * 10) for i, w in enumerate(it_tens)]
for i, w in enumerate(it_tens):
    it_ord += [(w[:-1] + 'unesim', (i + 2) * 10 + 1), (w[:-1] + 'ottesim', (i + 2) * 10 + 8)]
# compound tails (pieces of ventitreesimo, centoduesimo ...)
it_ord += [('unesim', 1), ('duesim', 2), ('treesim', 3), ('quattresim', 4), ('cinquesim', 5), ('seiesim', 6), ('settesim', 7),
           ('ottesim', 8), ('novesim', 9)]
it_ord += [('centesim', 100), ('millesim', 1000), ('milionesim', 10 ** 6)]
for stem, v in it_ord:
    klass = {100: 'hundred', 1000: 'thousand', 10 ** 6: 'million'}.get(v) or cls_of(v)
    for suf, mk in (('o', 'º'), ('a', 'ª'), ('i', 'º'), ('e', 'ª')):
        if stem == 'second' and suf == 'i':
            continue  # "secondi": time unit, excluded
        o.append(ordn(stem + suf, v, mk, klass))
o += [ordn('miliardesimo', 10 ** 9, 'º', 'milliard', 'variant'), ordn('bilionesimo', 10 ** 12, 'º', 'billion12', 'variant'),
      ordn('centunesimo', 101, 'º', 'hundred_unit', 'variant')]
LEX['it'] = {
    'zero': ['zero'], 'cardinals': c, 'ordinals': o, 'freezes_ordinals': True,
    'conjunction': 'e', 'conjunction_guard': 'len>=2', 'decimal_sep': 'virgola', 'decimal_mark': ',',
    'compounding': ['venti', 'trenta', 'quaranta', 'cinquanta', 'sessanta', 'settanta', 'ottanta', 'novanta', 'cento', 'mille', 'mila',
                    'milione', 'milioni', 'miliardo', 'miliardi', 'centesim', 'millesim', 'milionesim'],
    'excluded': [{'w': 'secondi', 'why': 'time unit; test "due secondi"'}, {'w': 'non', 'why': 'negation'}],
    'tree_only': [{'w': x, 'why': 'artefact of elision after cento'} for x in ['tto', 'ttesim', 'ttanta', 'ttantesim', 'ttav']] +
                 [{'w': 'dedicesim', 'why': 'misspelling of sedicesim kept'}, {'w': 'settanunesim', 'why': 'misspelling of settantunesim kept'}],
}

# ------------------------------------------------------------------------------------------ de
c = [card('ein', 1, 'unit'), card('eins', 1, 'unit'), card('zwei', 2, 'unit'), card('zwo', 2, 'unit', 'variant')]
c += [card(w, i + 3, 'unit') for i, w in enumerate('drei vier fünf sechs sieben acht neun'.split())]
de_teens = 'zehn elf zwölf dreizehn vierzehn fünfzehn sechzehn siebzehn achtzehn neunzehn'.split()
c += [card(w, i + 10, 'teen') for i, w in enumerate(de_teens)]
de_tens = 'zwanzig dreißig vierzig fünfzig sechzig siebzig achtzig neunzig'.split()
c += [card(w, (i + 2) * 10, 'ten') for i, w in enumerate(de_tens)]
c += [card('dreissig', 30, 'ten', 'variant')]
c += [card('hundert', 100, 'hundred'), card('tausend', 1000, 'thousand'), card('million', 10 ** 6, 'million'), card('millionen', 10 ** 6, 'million'),
      card('milliarde', 10 ** 9, 'milliard'), card('milliarden', 10 ** 9, 'milliard'), card('billion', 10 ** 12, 'billion12', 'variant')]
de_ord = [('erste', 1), ('zweite', 2), ('dritte', 3), ('vierte', 4), ('fünfte', 5), ('sechste', 6), ('siebte', 7), ('achte', 8), ('neunte', 9),
          ('zehnte', 10), ('elfte', 11), ('zwölfte', 12)] + [(w + 'te', i + 13) for i, w in enumerate(de_teens[3:])]
de_ord += [(w + 'ste', (i + 2) * 10) for i, w in enumerate(de_tens)]
de_ord += [('hundertste', 100), ('tausendste', 1000), ('millionste', 10 ** 6)]
o = []
for w, v in de_ord:
    klass = {100: 'hundred', 1000: 'thousand', 10 ** 6: 'million'}.get(v) or cls_of(v)
    for suf in ('', 'r', 's', 'n', 'm'):
        o.append(ordn(w + suf, v, '.', klass))
o += [ordn('siebente', 7, '.', 'unit', 'variant'), ordn('dreissigste', 30, '.', 'ten', 'variant'),
      ordn('milliardste', 10 ** 9, '.', 'milliard', 'variant'), ordn('billionste', 10 ** 12, '.', 'billion12', 'variant')]
LEX['de'] = {
    'zero': ['null'], 'cardinals': c, 'ordinals': o, 'freezes_ordinals': True,
    'conjunction': 'und', 'conjunction_guard': 'none', 'decimal_sep': 'komma', 'decimal_mark': ',',
    'decimal_digits': dict([('null', 0), ('eins', 1)] + [(w, i + 2) for i, w in enumerate('zwei drei vier fünf sechs sieben acht neun'.split())]),
    'compounding': ['hundert', 'tausend', 'million', 'millionen', 'milliarde', 'milliarden', 'hundertste', 'tausendste', 'millionste', 'und'],
    'excluded': [{'w': 'eine', 'why': 'article; test "eine und zwanzig" invalid'}], 'tree_only': [],
}

# ------------------------------------------------------------------------------------------ nl
c = [card('een', 1, 'unit'), card('één', 1, 'unit')]
c += [card(w, i + 2, 'unit') for i, w in enumerate('twee drie vier vijf zes zeven acht negen'.split())]
nl_teens = 'tien elf twaalf dertien veertien vijftien zestien zeventien achttien negentien'.split()
c += [card(w, i + 10, 'teen') for i, w in enumerate(nl_teens)]
nl_tens = 'twintig dertig veertig vijftig zestig zeventig tachtig negentig'.split()
c += [card(w, (i + 2) * 10, 'ten') for i, w in enumerate(nl_tens)]
c += [card('honderd', 100, 'hundred'), card('duizend', 1000, 'thousand'), card('miljoen', 10 ** 6, 'million'), card('miljard', 10 ** 9, 'milliard'),
      card('biljoen', 10 ** 12, 'billion12', 'variant')]
nl_ord = [('eerste', 1), ('tweede', 2), ('derde', 3), ('vierde', 4), ('vijfde', 5), ('zesde', 6), ('zevende', 7), ('achtste', 8), ('negende', 9),
          ('tiende', 10), ('elfde', 11), ('twaalfde', 12)] + [(w + 'de', i + 13) for i, w in enumerate(nl_teens[3:])]
nl_ord += [(w + 'ste', (i + 2) * 10) for i, w in enumerate(nl_tens)]
nl_ord += [('honderdste', 100), ('duizendste', 1000), ('miljoenste', 10 ** 6)]
o = []
for w, v in nl_ord:
    klass = {100: 'hundred', 1000: 'thousand', 10 ** 6: 'million'}.get(v) or cls_of(v)
    o.append(ordn(w, v, 'e', klass))
o += [ordn('miljardste', 10 ** 9, 'e', 'milliard', 'variant'), ordn('biljoenste', 10 ** 12, 'e', 'billion12', 'variant')]
LEX['nl'] = {
    'zero': ['nul'], 'cardinals': c, 'ordinals': o, 'freezes_ordinals': True,
    'conjunction': 'en', 'conjunction_guard': 'none', 'decimal_sep': 'komma', 'decimal_mark': ',',
    'compounding': ['honderd', 'duizend', 'miljoen', 'miljard', 'honderdste', 'duizendste', 'miljoenste', 'en', 'ën',
                    'een', 'drie', 'zeven', 'negen', 'tien', 'dertien', 'veertien', 'vijftien', 'zestien', 'zeventien', 'achttien',
                    'negentien', 'zeventig', 'negentig'],
    'excluded': [], 'tree_only': [],
}

os.makedirs(OUT, exist_ok=True)
for lang, d in LEX.items():
    d = dict(d, lang=lang)
    with open(os.path.join(OUT, lang + '.json'), 'w') as fh:
        json.dump(d, fh, indent=1, ensure_ascii=False)
    print(lang, len(d['cardinals']), 'cardinals', len(d['ordinals']), 'ordinals')
