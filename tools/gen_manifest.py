#!/usr/bin/env python3
"""Regenerate /verif/MANIFEST.json from the property registry (analysis/t2n/props.py)."""
import json, os, subprocess, sys
HERE = os.path.dirname(os.path.dirname(os.path.abspath(__file__)))
sys.path.insert(0, os.path.join(HERE, 'analysis'))
from t2n.props import PROPS, MANIFEST_TEXT, NOT_APPLICABLE

props = [json.loads(l) for l in open(os.path.join(HERE, 'properties.jsonl'))]
ids = [p['id'] for p in props]
fix_commits = subprocess.run(['git', '-C', '/repo', 'log', '--format=%h %s', '6402fe4..HEAD'], capture_output=True, text=True).stdout.strip().splitlines()
checks = []
for pid in ids:
    if pid not in PROPS:
        continue
    p = PROPS[pid]
    t = MANIFEST_TEXT[pid]
    checks.append({
        'property_id': pid,
        'quick_cmd': './check %s --tier quick' % pid,
        'thorough_cmd': './check %s --tier thorough' % pid,
        'evidence_file': '/verif/evidence/%s.json' % pid,
        'replay_cmd_template': './check %s --replay {path}' % pid,
        'engine': 't2n-static',
        'level_claimed': {'category': p.level, 'text': t['text'], 'design_ref': t['design_ref']},
        'level_note': t['note'],
        'technique': t['technique'],
    })
na = [{'property_id': pid, 'reason': NOT_APPLICABLE.get(pid, 'check not yet implemented (work in progress, see DESIGN.md §8)')}
      for pid in ids if pid not in PROPS]
m = {
    'version': 1,
    'setup_cmd': './setup.sh',
    'hooks': {
        'guard': 'text2num_verif',
        'enable': 'none: static analysis of the unmodified source needs no hooks; no cfg-guarded code was added to /repo',
        'baseline_off_cmd': 'cd /repo && cargo test --workspace --no-fail-fast --offline',
        'source_commits': [c.split()[0] for c in fix_commits if ' fix:' in ' ' + c],
        'add_only': True,
    },
    'engines': [{
        'name': 't2n-static', 'path': '/verif/check',
        'serves_properties': [c['property_id'] for c in checks],
        'kind_free_text': 'static analysis: rustc_private fact extractor (HIR/MIR/items of the current working tree, '
                          '/verif/driver) + Python rule engine (/verif/analysis): partial evaluation of the lexical functions (HIR), abstract interpretation of MIR against finite environment models (complete bounded case tables), '
                          'MIR dominance / path / taint / typestate rules, type-level and inventory rules',
    }],
    'checks': checks,
    'not_applicable': na,
    'notes': 'All verdicts are computed from /repo\'s current source without executing the crate: rustc\'s HIR/MIR of the working tree is '
             'evaluated by the checker\'s own evaluators against abstract environments (no compiled code runs). Each check decides named '
             'clauses of its property; what it cannot decide is listed in level_note and DESIGN.md §10. hooks.source_commits lists the unguarded fix: commits (genuine defects repaired); there are no hook commits.',
}
json.dump(m, open(os.path.join(HERE, 'MANIFEST.json'), 'w'), indent=1, ensure_ascii=False)
print('MANIFEST.json: %d checks, %d not_applicable' % (len(checks), len(na)))
