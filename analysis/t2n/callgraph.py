"""Whole-crate call graph over local MIR bodies (pre-monomorphisation; trait calls fan out to
every local impl; closures are reached from the body that creates them)."""
from .mir import Body


class CallGraph:
    def __init__(self, facts):
        self.f = facts
        self.local = set(facts.mir.keys())
        # trait method path -> [impl method paths]
        self.fanout = {}
        for imp in facts.items['impls']:
            tr = imp.get('trait')
            if not tr:
                continue
            for it in imp['items']:
                self.fanout.setdefault('%s::%s' % (tr, it['name']), []).append(it['path'])
        self.local_traits = {t['path'] for t in facts.items['traits']}
        self.edges = {}
        self.sites = {}  # (caller, callee) -> [terminator]
        for path, m in facts.mir.items():
            out = set()
            for b in m['blocks']:
                if b.get('cleanup'):
                    continue
                for s in b['stmts']:
                    if s['k'] == 'assign' and s['rv']['k'] == 'agg' and s['rv'].get('ak') == 'closure':
                        d = s['rv'].get('def')
                        if d in self.local:
                            out.add(d)
                t = b.get('term') or {}
                if t.get('k') != 'call':
                    continue
                for tgt in self.targets(t):
                    out.add(tgt)
                    self.sites.setdefault((path, tgt), []).append(t)
            self.edges[path] = out

    def targets(self, term):
        """Local bodies a call terminator may enter."""
        res = term.get('resolved')
        cal = term.get('callee')
        out = []
        if res in self.local:
            out.append(res)
            # a resolved provided method (trait default) is exact
            return out
        if res is not None and res != cal:
            # rustc resolved the call to a concrete non-local instance: no local target
            return out
        if cal in self.local and not self.fanout.get(cal):
            out.append(cal)
            return out
        tr = term.get('trait')
        if tr is not None and tr not in self.local_traits:
            # unresolved call of a std trait on a generic parameter (I: Iterator, ..): the value was built
            # by the caller; its body is reached from where it was constructed, not from here
            return out
        if cal in self.fanout or cal in self.local:
            # unresolved local-trait method: all impls + the provided body
            out.extend(p for p in self.fanout.get(cal, []) if p in self.local)
            if cal in self.local:
                out.append(cal)
        return out

    def reachable(self, entries):
        seen = set()
        stack = [e for e in entries if e in self.local]
        parent = {}
        while stack:
            x = stack.pop()
            if x in seen:
                continue
            seen.add(x)
            for y in self.edges.get(x, ()):
                if y not in seen:
                    parent.setdefault(y, x)
                    stack.append(y)
        return seen, parent

    def path_to(self, parent, node):
        out = [node]
        while node in parent:
            node = parent[node]
            out.append(node)
        return list(reversed(out))

    def callers_of(self, target):
        return sorted({c for (c, t) in self.sites if t == target})

    def sccs(self):
        """Tarjan; returns list of SCCs (lists) with more than one node or a self loop."""
        index = {}
        low = {}
        onstack = set()
        stack = []
        out = []
        counter = [0]

        def strong(v):
            work = [(v, iter(sorted(self.edges.get(v, ()))))]
            index[v] = low[v] = counter[0]
            counter[0] += 1
            stack.append(v)
            onstack.add(v)
            while work:
                node, it = work[-1]
                adv = False
                for w in it:
                    if w not in index:
                        index[w] = low[w] = counter[0]
                        counter[0] += 1
                        stack.append(w)
                        onstack.add(w)
                        work.append((w, iter(sorted(self.edges.get(w, ())))))
                        adv = True
                        break
                    elif w in onstack:
                        low[node] = min(low[node], index[w])
                if adv:
                    continue
                work.pop()
                if work:
                    low[work[-1][0]] = min(low[work[-1][0]], low[node])
                if low[node] == index[node]:
                    comp = []
                    while True:
                        w = stack.pop()
                        onstack.discard(w)
                        comp.append(w)
                        if w == node:
                            break
                    if len(comp) > 1 or node in self.edges.get(node, ()):
                        out.append(sorted(comp))

        for v in sorted(self.local):
            if v not in index:
                strong(v)
        return out
