"""Thorough-tier extras: positive fixture, mutant battery, compile-time witnesses, release-shaped MIR."""
import os
import re
import shutil
import subprocess
import sys
import tempfile

from . import facts as F
from .engine import Report

VERIF = F.VERIF


class _Ctx:
    def __init__(self, f, tier='thorough'):
        self.facts = f
        self.tier = tier
        self.repo = f.repo
        self._cache = {}
        self.inventory_only = True

    def memo(self, key, fn):
        if key not in self._cache:
            self._cache[key] = fn()
        return self._cache[key]


def positive_fixture(rep, which):
    """The zero-count rules must fire on fixtures/positive (a rule matching nothing passes vacuously forever)."""
    R = 'SELFTEST/positive-fixture'
    rep.rule(R, 'each zero-count rule reports its instance in the positive fixture crate')
    from .rules import stateless, textflow, progress, panics
    try:
        f = F.load(os.path.join(VERIF, 'fixtures', 'positive'), 'dbg', crate='positive')
    except F.ExtractionError as e:
        rep.anchor(R, 'extract', str(e)[-800:])
        return
    ctx = _Ctx(f)
    sub = Report('fixture')
    expect = []
    if 'ws' in which:
        textflow.rule_ws_api(ctx, sub)
        expect += [('B10-WS-API', r'ascii_only.*is_ascii_whitespace'), ('B10-WS-API', r'ascii_split\|split_ascii_whitespace'),
                   ('B10-WS-API', r'ascii_split\|split\(ws-char\)'), ('B10-WS-API', r'ascii_fn_item')]
    if 'effects' in which:
        stateless.rule_effects(ctx, sub)
        stateless.rule_statics(ctx, sub)
        expect += [('C-STATELESS/effects', r'noisy\|std::io::stdio::_eprint'), ('C-STATELESS/effects', r'noisy\|std::io::stdio::_print'),
                   ('C-STATELESS/effects', r'environment\|std::env::'), ('C-STATELESS/effects', r'environment\|std::time::'),
                   ('C-STATELESS/statics', r'^COUNTER$'), ('C-STATELESS/statics', r'^CALLS$'), ('C-STATELESS/statics', r'unsafe\|stateful')]
    if 'progress' in which:
        progress.rule_loops(ctx, sub)
        expect += [('B2-PROGRESS/loops', r'^spin\|loop')]
    if 'panics' in which:
        sites = panics.enumerate_sites(ctx)
        names = {(s.fn, s.kind) for s in sites}
        ok = any(s.fn == 'partial' and 'unwrap' in s.desc_p for s in sites) and any(s.fn == 'partial' and s.kind == 'assert' for s in sites)
        rep.check(ok, R, 'panic-inventory', 'unwrap and bounds/overflow sites of the fixture are enumerated',
                  'the panic-site inventory misses the fixture\'s unwrap / assert sites: %s' % sorted(names))
    bad = sub.bad()
    for rule, pat in expect:
        hit = [i for i in bad if i.rule == rule and re.search(pat, i.entity)]
        rep.check(bool(hit), R, '%s~%s' % (rule, pat), 'fires on the fixture', 'rule %s no longer reports the fixture instance /%s/ (got %s)' % (
            rule, pat, [i.entity for i in bad if i.rule == rule][:6]))


def mutant_battery(rep, pid, jobs=8):
    R = 'SELFTEST/mutants'
    rep.rule(R, 'every seeded one-hunk breakage of this property (fixtures/mutants.py, applied to a scratch copy of the current '
                'tree) is reported by this check with the expected rule')
    sys.path.insert(0, os.path.join(VERIF, 'tools'))
    sys.path.insert(0, os.path.join(VERIF, 'fixtures'))
    import importlib
    mutants = importlib.import_module('mutants')
    muts = [m for m in mutants.M if pid in m['props']]
    import concurrent.futures
    tool = os.path.join(VERIF, 'tools', 'mutants.py')
    r = subprocess.run([sys.executable, tool, '--run', '--prop', pid, '--jobs', str(jobs)], capture_output=True, text=True)
    seen = 0
    for line in r.stdout.splitlines():
        m = re.match(r'^(\S+)\s+(ok|MISSED|SKIPPED)\b(.*)$', line)
        if not m:
            continue
        mid, st, rest = m.groups()
        if st == 'SKIPPED':
            rep.info(R, mid, 'mutant does not apply to the current tree (skipped)')
            continue
        seen += 1
        if st == 'ok':
            rep.ok(R, mid, 'caught' + rest.strip()[:80])
        else:
            rep.anchor(R, mid, 'the check does not report this seeded breakage: %s' % rest.strip()[:300])
    if r.returncode not in (0, 1) or (seen == 0 and muts):
        rep.anchor(R, 'battery', 'mutant battery did not run: %s' % (r.stderr[-500:] or r.stdout[-500:]))


def witness(rep, repo):
    R = 'SELFTEST/witness'
    rep.rule(R, 'compile-time witnesses (Send + Sync for the interpreters and Language; privacy of the builder fields) with '
                'compile_fail twins, built against the current tree')
    d = tempfile.mkdtemp(prefix='t2n-witness-')
    try:
        shutil.copytree(os.path.join(VERIF, 'witness', 'src'), os.path.join(d, 'src'))
        with open(os.path.join(VERIF, 'witness', 'Cargo.toml')) as fh:
            toml = fh.read().replace('path = "/repo"', 'path = "%s"' % repo)
        with open(os.path.join(d, 'Cargo.toml'), 'w') as fh:
            fh.write(toml)
        shutil.copy(os.path.join(repo, 'Cargo.lock'), os.path.join(d, 'Cargo.lock'))
        env = dict(os.environ, CARGO_NET_OFFLINE='true', CARGO_TARGET_DIR=os.path.join(d, 'target'))
        r = subprocess.run(['cargo', '+nightly', 'test', '--doc', '--offline'], cwd=d, env=env, capture_output=True, text=True)
        out = r.stdout + r.stderr
        results = re.findall(r'^test (src/lib\.rs - \S+ \(line \d+\)(?: - compile fail| - compile)?) \.\.\. (\w+)', out, re.M)
        if not results:
            rep.anchor(R, 'build', 'witness crate did not build: %s' % out[-1200:])
            return
        for name, st in results:
            rep.check(st == 'ok', R, re.sub(r' \(line \d+\)', '', name), 'witness holds', 'witness failed: %s' % name)
        rep.floor(R, len(results), 7, 'witness doc tests')
    finally:
        shutil.rmtree(d, ignore_errors=True)


def release_config(ctx, rep, scope):
    """B1 on the release-shaped MIR (debug assertions and overflow checks off)."""
    from .rules import panics
    try:
        f = F.load(ctx.repo, 'rel')
    except F.ExtractionError as e:
        rep.anchor('B1-PANIC-SITES@release', 'extract', str(e)[-800:])
        return
    c2 = _Ctx(f)
    c2.inventory_only = False
    sub = Report('rel')
    panics.rule_panic_sites(c2, sub, scope)
    n = 0
    for i in sub.instances:
        # same keys as in the debug configuration (a site is the same site in both); the detail says which MIR
        i.detail = '[release-shaped MIR] ' + (i.detail or '')
        if i.rule == 'B1-PANIC-SITES' and i.entity != 'FLOOR':
            rep.instances.append(i)
            n += 1
    floor = 15 if scope == 'C12' else 30
    rep.floors['B1-PANIC-SITES@release'] = {'measured': n, 'floor': floor, 'what': 'panic sites in release-shaped MIR'}
    if n < floor:
        rep.anchor('B1-PANIC-SITES', 'FLOOR@release', 'only %d sites enumerated in the release-shaped MIR' % n)


EXTRAS = {
    'C03': ['positive:panics,progress', 'release:C03', 'mutants'],
    'C12': ['witness', 'release:C12', 'mutants'],
    'C14': ['positive:effects', 'witness', 'mutants'],
    'C17': ['positive:ws', 'mutants'],
}


def run_extras(ctx, rep, pid):
    for x in EXTRAS.get(pid, ['mutants']):
        if x.startswith('positive:'):
            positive_fixture(rep, x.split(':')[1].split(','))
        elif x == 'witness':
            witness(rep, ctx.repo)
        elif x.startswith('release:'):
            release_config(ctx, rep, x.split(':')[1])
        elif x == 'mutants':
            if os.environ.get('T2N_NO_MUTANTS'):
                rep.info('SELFTEST/mutants', 'skipped', 'T2N_NO_MUTANTS set')
            else:
                mutant_battery(rep, pid)
