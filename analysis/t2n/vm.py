"""Abstract machine for rustc MIR (generic, pre-monomorphisation bodies).

The crate's own functions are interpreted from their MIR; everything behind a *boundary* (trait methods of the
generic parameters, the digit builder, the language interpreter, token methods, the input iterator) is answered
by an environment model supplied by the rule, which also records the effects.  A rule enumerates every answer
the abstraction allows (finite), so the result is a complete case table of the analysed function(s) over that
abstraction — not a run of the library on inputs.  No compiled code is executed.

Anything outside the supported fragment raises Unsupported: rules fail closed (anchor), never pass.
"""
import copy
import re

from .mirx import short_callee


class Unsupported(Exception):
    pass


class Panic(Exception):
    """The interpreted code reaches a panic (assert failure, unwrap of None/Err, index out of bounds)."""


class Ref:
    __slots__ = ('kind', 'key', 'path')

    def __init__(self, kind, key, path=()):
        self.kind = kind      # 'local' (key = (frame, local)) | 'heap' (key = name)
        self.key = key
        self.path = tuple(path)

    def __repr__(self):
        return 'Ref(%s,%s)' % (self.kind, self.path)


class Enum:
    __slots__ = ('adt', 'variant', 'payload')

    def __init__(self, adt, variant, payload=()):
        self.adt = adt
        self.variant = variant
        self.payload = list(payload)

    def __eq__(self, o):
        return isinstance(o, Enum) and self.variant == o.variant and self.payload == o.payload

    def __hash__(self):
        return hash((self.variant, tuple(map(repr, self.payload))))

    def __repr__(self):
        return '%s%s' % (self.variant, ('(%s)' % ', '.join(map(repr, self.payload))) if self.payload else '')


def Some(v):
    return Enum('core::option::Option', 'Some', [v])


NONE = Enum('core::option::Option', 'None')


def is_none(v):
    return isinstance(v, Enum) and v.variant == 'None'


class Struct:
    __slots__ = ('name', 'fields')

    def __init__(self, name, fields):
        self.name = name
        self.fields = dict(fields)

    def __eq__(self, o):
        return isinstance(o, Struct) and self.name == o.name and self.fields == o.fields

    def __repr__(self):
        return '%s%r' % (self.name, self.fields)


class Seq:
    """Vec / VecDeque / String-less sequences."""
    __slots__ = ('items',)

    def __init__(self, items=()):
        self.items = list(items)

    def __eq__(self, o):
        return isinstance(o, (Seq, Slice)) and list(self.items) == list(o.items)

    def __repr__(self):
        return 'Seq%r' % (self.items,)


class Slice:
    """A view seq[lo:hi] (result of indexing by a range); writes go to the underlying sequence."""
    __slots__ = ('seq', 'lo', 'hi')

    def __init__(self, seq, lo, hi):
        self.seq = seq
        self.lo = lo
        self.hi = hi

    @property
    def items(self):
        return self.seq.items[self.lo:self.hi]

    def __eq__(self, o):
        return isinstance(o, (Slice, Seq)) and list(self.items) == list(o.items)

    def __repr__(self):
        return 'Slice%r' % (self.items,)


class Iter:
    """An iterator value.  `items[pos:]` are the elements already produced and not yet consumed; `src` (a Python generator, or None)
    yields the following ones on demand, so adaptors (`map`, `filter`, `take_while` ...) run their closures only when a consumer asks
    for the next element, in the order the compiled code would."""
    __slots__ = ('items', 'pos', 'src')

    def __init__(self, items=(), src=None):
        self.items = list(items)
        self.pos = 0
        self.src = src

    def _pull(self):
        if self.src is None:
            return False
        try:
            x = next(self.src)
        except StopIteration:
            self.src = None
            return False
        self.items.append(x)
        return True

    def has_next(self):
        return self.pos < len(self.items) or self._pull()

    def next(self):
        if self.pos >= len(self.items) and not self._pull():
            return NONE
        self.pos += 1
        return Some(self.items[self.pos - 1])

    def force(self):
        while self._pull():
            pass

    def rest(self):
        self.force()
        return self.items[self.pos:]

    def drain(self):
        r = self.rest()
        self.pos = len(self.items)
        return r

    def __deepcopy__(self, memo):
        self.force()
        c = Iter(copy.deepcopy(self.items, memo))
        c.pos = self.pos
        return c

    def __repr__(self):
        return 'Iter%r@%d%s' % (self.items, self.pos, '+lazy' if self.src is not None else '')


class Map:
    """HashMap / HashSet / BTreeMap / BTreeSet: insertion-ordered association list keyed by the normalised key.  `sorted` says
    whether iteration is defined (B-tree: ascending keys) or not (hash: the order is random per process — iterating is refused)."""
    __slots__ = ('d', 'sorted', 'is_set')

    def __init__(self, sorted_, is_set):
        self.d = {}          # normalised key -> (key, value)
        self.sorted = sorted_
        self.is_set = is_set

    def __repr__(self):
        return '%s%s{%d}' % ('BTree' if self.sorted else 'Hash', 'Set' if self.is_set else 'Map', len(self.d))


class _Rev:
    """Sort key of core::cmp::Reverse(x)."""
    __slots__ = ('k',)

    def __init__(self, k):
        self.k = k

    def __lt__(self, o):
        return o.k < self.k

    def __gt__(self, o):
        return o.k > self.k

    def __le__(self, o):
        return o.k <= self.k

    def __ge__(self, o):
        return o.k >= self.k

    def __eq__(self, o):
        return isinstance(o, _Rev) and o.k == self.k

    def __hash__(self):
        return hash(self.k)


class Repeat:
    """iter::repeat(v) / repeat_n: unbounded until `take`n."""
    __slots__ = ('v', 'n')

    def __init__(self, v, n=None):
        self.v = v
        self.n = n


class Closure:
    __slots__ = ('path', 'caps')

    def __init__(self, path, caps):
        self.path = path
        self.caps = list(caps)

    def __repr__(self):
        return 'Closure(%s)' % self.path.split('::')[-1]


class Fn:
    __slots__ = ('path',)

    def __init__(self, path):
        self.path = path

    def __repr__(self):
        return 'Fn(%s)' % self.path


class _Val:
    """A by-value pseudo reference (reference to an immutable value we hold directly)."""
    __slots__ = ('v',)

    def __init__(self, v):
        self.v = v


_RUST_STR_CACHE = {}


def rust_str(s):
    """Decode the debug form of a string literal ("..." with Rust escapes)."""
    r = _RUST_STR_CACHE.get(s)
    if r is None:
        r = _RUST_STR_CACHE[s] = _rust_str(s)
    return r


def _rust_str(s):
    s = s.strip()
    if s.startswith('const '):
        s = s[6:]
    if not (s.startswith('"') and s.endswith('"')):
        raise Unsupported('string constant %r' % s)
    body = s[1:-1]
    out = []
    i = 0
    while i < len(body):
        c = body[i]
        if c != '\\':
            out.append(c)
            i += 1
            continue
        n = body[i + 1]
        if n == 'n':
            out.append('\n')
        elif n == 't':
            out.append('\t')
        elif n == 'r':
            out.append('\r')
        elif n == '0':
            out.append('\0')
        elif n in '\\"\'':
            out.append(n)
        elif n == 'u':
            j = body.index('}', i)
            out.append(chr(int(body[i + 3:j], 16)))
            i = j + 1
            continue
        elif n == 'x':
            out.append(chr(int(body[i + 2:i + 4], 16)))
            i += 4
            continue
        else:
            raise Unsupported('escape \\%s' % n)
        i += 2
    return ''.join(out)


INT_TY = re.compile(r'^([ui])(8|16|32|64|128|size)$')


def int_range(ty):
    """(lo, hi) of a Rust integer type name, or None."""
    m = INT_TY.match((ty or '').strip())
    if not m:
        return None
    bits = 64 if m.group(2) == 'size' else int(m.group(2))
    return (-(1 << (bits - 1)), (1 << (bits - 1)) - 1) if m.group(1) == 'i' else (0, (1 << bits) - 1)


def wrap_int(v, ty):
    r = int_range(ty)
    if r is None:
        return v
    lo, hi = r
    span = hi - lo + 1
    return (v - lo) % span + lo


def ascii_lower(x):
    return ''.join(c.lower() if 'A' <= c <= 'Z' else c for c in x)


def fmt_float(v, debug=False):
    """Display / Debug of an f64 the way Rust prints it (shortest digits that round-trip, never an exponent in Display)."""
    if v != v:
        return 'NaN'
    if v in (float('inf'), float('-inf')):
        return 'inf' if v > 0 else '-inf'
    from decimal import Decimal
    txt = format(Decimal(repr(v)), 'f')
    if '.' in txt:
        txt = txt.rstrip('0').rstrip('.')
    if txt in ('-0', ''):
        txt = '-0' if repr(v).startswith('-') else '0'
    if debug and '.' not in txt and 'e' not in txt:
        # Debug keeps ".0"; very large / small magnitudes switch to exponent form in Debug, which the crate never prints
        if abs(v) >= 1e16 or (v != 0 and abs(v) < 1e-4):
            raise Unsupported('Debug of the float %r' % v)
        txt += '.0'
    return txt


def rust_debug_str(x):
    out = ['"']
    for c in x:
        if c == '"':
            out.append('\\"')
        elif c == '\\':
            out.append('\\\\')
        elif c == '\n':
            out.append('\\n')
        elif c == '\t':
            out.append('\\t')
        elif c == '\r':
            out.append('\\r')
        elif c == '\0':
            out.append('\\0')
        elif ord(c) < 32 or ord(c) == 127 or not c.isprintable():
            out.append('\\u{%x}' % ord(c))
        else:
            out.append(c)
    out.append('"')
    return ''.join(out)


_OPS = {'Add::add': 'Add', 'Sub::sub': 'Sub', 'Mul::mul': 'Mul', 'Div::div': 'Div', 'Rem::rem': 'Rem', 'BitAnd::bitand': 'BitAnd',
        'BitOr::bitor': 'BitOr', 'BitXor::bitxor': 'BitXor', 'Shl::shl': 'Shl', 'Shr::shr': 'Shr'}
_ASSIGN = {'AddAssign::add_assign': 'Add', 'SubAssign::sub_assign': 'Sub', 'MulAssign::mul_assign': 'Mul', 'DivAssign::div_assign': 'Div',
           'RemAssign::rem_assign': 'Rem', 'BitOrAssign::bitor_assign': 'BitOr', 'BitAndAssign::bitand_assign': 'BitAnd', 'BitXorAssign::bitxor_assign': 'BitXor'}

CHAR_PRED = {
    'is_whitespace': lambda c: c.isspace() or c in '\u0085',
    'is_alphabetic': lambda c: c.isalpha(),
    'is_alphanumeric': lambda c: c.isalnum(),
    'is_numeric': lambda c: c.isnumeric(),
    'is_ascii_whitespace': lambda c: c in ' \t\n\r\x0c',
    'is_ascii_digit': lambda c: c in '0123456789',
    'is_ascii_alphabetic': lambda c: c.isascii() and c.isalpha(),
    'is_ascii_alphanumeric': lambda c: c.isascii() and c.isalnum(),
    'is_ascii_punctuation': lambda c: c.isascii() and not c.isalnum() and not c.isspace() and c.isprintable(),
    'is_uppercase': lambda c: c.isupper(),
    'is_lowercase': lambda c: c.islower(),
    'is_control': lambda c: (ord(c) < 32 or 127 <= ord(c) < 160),
}
RUST_WS = ' \t\n\x0b\x0c\r\x85\xa0\u1680\u2000\u2001\u2002\u2003\u2004\u2005\u2006\u2007\u2008\u2009\u200a\u2028\u2029\u202f\u205f\u3000'
CHAR_PRED['is_whitespace'] = lambda c: c in RUST_WS

IDENTITY = {'Deref::deref', 'DerefMut::deref_mut', 'String::as_str', 'Into::into', 'From::from', 'Clone::clone', 'ToString::to_string',
            'ToOwned::to_owned', 'AsRef::as_ref', 'Borrow::borrow', 'str::to_string', 'str::to_owned', 'String::from', 'String::clone',
            'String::as_mut_str', 'IntoIterator::into_iter', 'Iterator::by_ref', 'Iterator::fuse', 'hint::must_use', 'String::into_boxed_str',
            'str::as_ref', 'Option::as_ref', 'Option::as_mut', 'Option::as_deref', 'Result::as_ref', 'mem::drop', 'Iterator::peekable'}


class VM:
    limit_hits = 0      # per process: how many top-level runs exhausted their step budget
    _extra_names = None

    def __init__(self, facts, env=None, max_steps=400000, local_prefixes=('word_to_digit', 'lang', 'digit_string', 'tokenizer', 'error', '<')):
        self.facts = facts
        self.env = env
        self.heap = {}
        self.max_steps = max_steps
        self.steps = 0
        self.depth = 0
        self.local_prefixes = local_prefixes
        self.trace_calls = None

    # -- snapshots -----------------------------------------------------------------------
    def snapshot(self):
        return copy.deepcopy(self.heap)

    def restore(self, snap):
        self.heap = copy.deepcopy(snap)

    # -- references ------------------------------------------------------------------------
    def load(self, ref):
        if isinstance(ref, _Val):
            return ref.v
        if ref.kind == 'local':
            fr, l = ref.key
            if l not in fr:
                raise Unsupported('read of uninitialised local _%d' % l)
            base = fr[l]
        elif ref.kind == 'elem':
            base = ref.key[0].items[ref.key[1]]
        elif ref.kind == 'obj':
            base = ref.key
        else:
            base = self.heap[ref.key]
        for p in ref.path:
            base = self.field(base, p)
        return base

    def store(self, ref, val):
        if isinstance(ref, _Val):
            raise Unsupported('write through a by-value reference')
        if ref.kind == 'obj':
            if not ref.path:
                raise Unsupported('overwrite of a by-value object')
            self._upd(ref.key, ref.path, val)
            return
        if ref.kind == 'elem':
            ref.key[0].items[ref.key[1]] = self._upd(ref.key[0].items[ref.key[1]], ref.path, val)
            return
        if ref.kind == 'local':
            fr, l = ref.key
            if not ref.path:
                fr[l] = val
                return
            fr[l] = self._upd(fr[l], ref.path, val)
            return
        if not ref.path:
            self.heap[ref.key] = val
            return
        self.heap[ref.key] = self._upd(self.heap[ref.key], ref.path, val)

    def _upd(self, base, path, val):
        """Write `val` at `path` below `base`; tuples (immutable here) are rebuilt, everything else is updated in place."""
        if not path:
            return val
        head = path[0]
        if len(path) == 1:
            if isinstance(base, tuple):
                lst = list(base)
                lst[int(head)] = val
                return tuple(lst)
            self._set(base, head, val)
            return base
        child = self.field(base, head)
        new = self._upd(child, path[1:], val)
        if new is not child:
            if isinstance(base, tuple):
                lst = list(base)
                lst[int(head)] = new
                return tuple(lst)
            self._set(base, head, new)
        return base

    def _set(self, base, last, val):
        if isinstance(base, Struct):
            base.fields[last] = val
        elif isinstance(base, Enum):
            base.payload[int(last)] = val
        elif isinstance(base, list):
            base[int(last)] = val
        elif isinstance(base, Seq):
            base.items[int(last)] = val
        elif isinstance(base, Closure):
            base.caps[int(last)] = val
        elif isinstance(base, Slice):
            i = int(last)
            if i >= base.hi - base.lo:
                raise Panic('index %d out of bounds (len %d)' % (i, base.hi - base.lo))
            base.seq.items[base.lo + i] = val
        else:
            raise Unsupported('write into %r' % (base,))

    def field(self, v, p):
        if isinstance(v, Struct):
            if p in v.fields:
                return v.fields[p]
            raise Unsupported('no field %r in %s' % (p, v.name))
        if isinstance(v, Enum):
            return v.payload[int(p)]
        if isinstance(v, (tuple, list)):
            return v[int(p)]
        if isinstance(v, Seq):
            i = int(p)
            if i >= len(v.items):
                raise Panic('index %d out of bounds (len %d)' % (i, len(v.items)))
            return v.items[i]
        if isinstance(v, Closure):
            return v.caps[int(p)]
        if isinstance(v, Slice):
            i = int(p)
            if i >= v.hi - v.lo:
                raise Panic('index %d out of bounds (len %d)' % (i, v.hi - v.lo))
            return v.seq.items[v.lo + i]
        raise Unsupported('field %r of %r' % (p, v))

    def deref(self, v):
        """Follow references down to the referenced value."""
        n = 0
        while isinstance(v, (Ref, _Val)):
            v = self.load(v)
            n += 1
            if n > 20:
                raise Unsupported('reference cycle')
        return v

    def place_ref(self, fr, pl):
        cur = Ref('local', (fr, pl['l']))
        for p in pl['p']:
            if p == 'deref':
                v = self.load(cur)
                if isinstance(v, Ref):
                    cur = Ref(v.kind, v.key, v.path)
                elif isinstance(v, _Val):
                    cur = v
                elif isinstance(v, (Slice, Seq, Struct, Enum)):
                    cur = Ref('obj', v)          # containers have identity: writes through them reach the object
                else:
                    cur = _Val(v)
            elif isinstance(p, dict) and 'f' in p:
                base = self.load(cur) if isinstance(cur, _Val) else None
                key = self._fkey(cur, p)
                if isinstance(cur, _Val):
                    cur = _Val(self.field(base, key))
                else:
                    cur = Ref(cur.kind, cur.key, cur.path + (key,))
            elif isinstance(p, dict) and 'dc' in p:
                continue
            elif isinstance(p, dict) and 'idx' in p:
                i = fr[p['idx']]
                if isinstance(cur, _Val):
                    cur = _Val(self.field(cur.v, i))
                else:
                    cur = Ref(cur.kind, cur.key, cur.path + (i,))
            elif isinstance(p, dict) and 'cidx' in p:
                idx = p['cidx']
                if p.get('from_end'):
                    base_v = self.load(cur) if not isinstance(cur, _Val) else cur.v
                    idx = len(base_v.items) - idx
                if isinstance(cur, _Val):
                    cur = _Val(self.field(cur.v, idx))
                else:
                    cur = Ref(cur.kind, cur.key, cur.path + (idx,))
            elif isinstance(p, dict) and 'sub_from' in p:
                base_v = self.load(cur) if not isinstance(cur, _Val) else cur.v
                n_ = len(base_v.items)
                lo = p['sub_from']
                hi = (n_ - p['sub_to']) if p.get('from_end') else p['sub_to']
                seq, off = (base_v, 0) if isinstance(base_v, Seq) else (base_v.seq, base_v.lo)
                cur = _Val(Slice(seq, off + lo, off + hi))
            else:
                raise Unsupported('projection %r' % (p,))
        return cur

    def _fkey(self, cur, p):
        v = self.load(cur)
        if isinstance(v, Struct):
            if p.get('name') is not None and p['name'] in v.fields:
                return p['name']
            if str(p['f']) in v.fields:
                return str(p['f'])
            raise Unsupported('no field %s/%s in %s' % (p.get('name'), p['f'], v.name))
        return p['f']

    def read_place(self, fr, pl):
        if not pl['p']:
            if pl['l'] not in fr:
                raise Unsupported('read of uninitialised local _%d' % pl['l'])
            return fr[pl['l']]
        return self.load(self.place_ref(fr, pl))

    def write_place(self, fr, pl, val):
        if not pl['p']:
            fr[pl['l']] = val
            return
        self.store(self.place_ref(fr, pl), val)

    # -- operands / rvalues ----------------------------------------------------------------------
    def const(self, o):
        try:
            return self._const(o)
        except Unsupported:
            # a promoted constant the fact extractor could not print as a literal: run its (argument-less) body
            pp = o.get('promoted')
            body = self.facts.mir_body(pp) if pp else None
            if body is None:
                raise
            cache = self.__dict__.setdefault('_promoted_cache', {})
            if pp not in cache:
                cache[pp] = self.run(body, [])
            return cache[pp]

    def _const(self, o):
        if o.get('static'):
            return self._named_const(o['static'])
        ty = o.get('ty', '')
        if 'fn' in o:
            return Fn(o['fn'])
        if 'int' in o:
            if ty == 'bool':
                return bool(o['int'])
            if ty == 'char':
                return chr(o['int'])
            return o['int']
        s = o.get('s', '')
        if s.startswith('const '):
            s = s[6:]
        if 'SizedTypeProperties>::' in s:
            # layout constants of a generic type, only read by the pointer checks of debug builds
            return {'ALIGN': 1, 'SIZE': 1, 'IS_ZST': False}.get(s.rsplit('::', 1)[-1], 1)
        if s == '()':
            return ()
        core_ty = ty.lstrip('&').strip()
        if s.startswith('b"'):
            return Seq([ord(c) for c in rust_str(s[1:])])
        if s.startswith('"') or (core_ty in ('str', "'static str") and s.startswith('"')):
            return rust_str(s)
        if core_ty in ('f64', 'f32'):
            t = s.replace('_f64', '').replace('f64', '').replace('_f32', '').replace('f32', '')
            named_ = {'NEG_INFINITY': float('-inf'), 'INFINITY': float('inf'), 'NAN': float('nan'), 'MAX': 1.7976931348623157e308, 'MIN': -1.7976931348623157e308,
                      'EPSILON': 2.220446049250313e-16, 'MIN_POSITIVE': 2.2250738585072014e-308}
            if s.rsplit('::', 1)[-1] in named_ and '::' in s:
                return named_[s.rsplit('::', 1)[-1]]
            try:
                return float(t)
            except ValueError:
                raise Unsupported('float constant %r' % s)
        tail = s.lstrip('&').split('::')[-1]
        a = self.facts.adts.get(core_ty)
        if a and any(v['name'] == tail for v in a['variants']):
            return Enum(core_ty, tail)
        if s.endswith('::None') or s == 'None' or s.endswith('Option::<T>::None'):
            return NONE
        # a named constant / static of the crate: evaluate its initialiser
        name = s.lstrip('&').strip()
        body = self.facts.mir_body(name)
        if body is not None and body.get('arg_count', 0) == 0:
            cache = self.__dict__.setdefault('_consts_cache', {})
            if name not in cache:
                cache[name] = self.run(body, [])
            return cache[name]
        return self._named_const(name, s, ty)

    def _named_const(self, name, s='', ty=''):
        body = self.facts.mir_body(name)
        if body is not None and body.get('arg_count', 0) == 0:
            cache = self.__dict__.setdefault('_consts_cache', {})
            if name not in cache:
                cache[name] = self.run(body, [])
            return cache[name]
        if self.facts.body(name) is not None:
            # no MIR for plain consts / statics in the facts: evaluate the (typed) HIR of the initialiser
            from .peval import Evaluator, Unanalysable
            try:
                v = Evaluator(self.facts).const_value(name)
            except Unanalysable as e:
                raise Unsupported('constant %s: %s' % (name, e.what))

            def conv(x):
                if isinstance(x, (bytes, bytearray)):
                    return Seq(list(x))
                if isinstance(x, list):
                    return Seq([conv(y) for y in x])
                if isinstance(x, tuple) and len(x) == 2 and x[0] == 'fn' and isinstance(x[1], str):
                    return Fn(x[1])
                if isinstance(x, tuple):
                    return tuple(conv(y) for y in x)
                if isinstance(x, (str, int, float, bool)):
                    return x
                if hasattr(x, 'bits') and hasattr(x, 'ty'):
                    return Struct(x.ty.split('::')[-1], {'bits': x.bits})
                if isinstance(x, dict):
                    return Struct('?', {k: conv(v_) for k, v_ in x.items()})
                raise Unsupported('constant %s has the value %r' % (name, x))
            return conv(v)
        raise Unsupported('constant %s : %s' % (s, ty))

    def operand(self, fr, o):
        if o.get('k') == 'const':
            return self.const(o)
        if 'pl' not in o:
            raise Unsupported('operand %r' % (o,))
        return self.read_place(fr, o['pl'])

    def binop(self, op, a, b, ty=None):
        if isinstance(a, Ref) and isinstance(b, int) and not isinstance(b, bool):
            # the address of a live allocation (debug builds check raw pointers before use): aligned and non-null
            if op == 'BitAnd':
                return 0
            if op == 'Eq' and b == 0:
                return False
            if op == 'Ne' and b == 0:
                return True
        if isinstance(a, (Ref, _Val)) or isinstance(b, (Ref, _Val)):
            raise Unsupported('binary %s on references' % op)
        if op == 'Eq':
            return a == b
        if op == 'Ne':
            return a != b
        if op in ('Lt', 'Le', 'Gt', 'Ge') and isinstance(a, (Seq, Slice)) and isinstance(b, (Seq, Slice)):
            a, b = list(a.items), list(b.items)
            return {'Lt': a < b, 'Le': a <= b, 'Gt': a > b, 'Ge': a >= b}[op]
        if op in ('Lt', 'Le', 'Gt', 'Ge') and isinstance(a, (Enum, tuple, Struct)) and type(a) is type(b):
            a, b = self._sort_key(a), self._sort_key(b)
            return {'Lt': a < b, 'Le': a <= b, 'Gt': a > b, 'Ge': a >= b}[op]
        num = (int, float, str, bool)
        if op in ('Lt', 'Le', 'Gt', 'Ge') and isinstance(a, num) and isinstance(b, num):
            return {'Lt': a < b, 'Le': a <= b, 'Gt': a > b, 'Ge': a >= b}[op]
        if isinstance(a, bool) and isinstance(b, bool) and op in ('BitAnd', 'BitOr', 'BitXor'):
            return {'BitAnd': a and b, 'BitOr': a or b, 'BitXor': a != b}[op]
        if isinstance(a, (int, float)) and isinstance(b, (int, float)) and not isinstance(a, bool) and not isinstance(b, bool):
            base = op.replace('WithOverflow', '').replace('Unchecked', '')
            if base == 'Add':
                r = a + b
            elif base == 'Sub':
                r = a - b
            elif base == 'Mul':
                r = a * b
            elif base == 'Div':
                if b == 0:
                    raise Panic('division by zero')
                if isinstance(a, int) and isinstance(b, int):
                    r = abs(a) // abs(b) * (1 if (a < 0) == (b < 0) else -1)      # truncating, as Rust divides
                else:
                    r = a / b
            elif base == 'Rem':
                if b == 0:
                    raise Panic('remainder by zero')
                if isinstance(a, int) and isinstance(b, int):
                    r = abs(a) % abs(b) * (1 if a >= 0 else -1)
                else:
                    import math
                    r = math.fmod(a, b)
            elif base == 'BitAnd':
                r = a & b
            elif base == 'BitOr':
                r = a | b
            elif base == 'BitXor':
                r = a ^ b
            elif base == 'Shl':
                r = a << b
            elif base == 'Shr':
                r = a >> b
            else:
                raise Unsupported('binary ' + op)
            ety = (ty or '').strip('() ').split(',')[0].strip() if ty else None
            rg = int_range(ety)
            if op.endswith('WithOverflow'):
                if rg and isinstance(r, int):
                    return (wrap_int(r, ety), not (rg[0] <= r <= rg[1]))
                return (r, isinstance(r, int) and (r < 0 or r >= 1 << 64))
            if rg and isinstance(r, int) and base in ('Add', 'Sub', 'Mul', 'Shl') and not (rg[0] <= r <= rg[1]):
                return wrap_int(r, ety)          # plain (unchecked / wrapping) arithmetic wraps
            return r
        raise Unsupported('binary %s on %r, %r' % (op, a, b))

    def rvalue(self, fr, rv):
        k = rv['k']
        if k == 'use':
            return self.operand(fr, rv['op'])
        if k in ('ref', 'rawptr'):
            r = self.place_ref(fr, rv['pl'])
            return r.v if isinstance(r, _Val) else r
        if k == 'copyforderef':
            return self.read_place(fr, rv['pl'])
        if k == 'discr':
            v = self.deref(self.read_place(fr, rv['pl']))
            if isinstance(v, Enum):
                names = rv.get('variants')
                if not names:
                    a = self.facts.adts.get(rv.get('adt') or '')
                    names = [x['name'] for x in a['variants']] if a else None
                if names and v.variant in names:
                    return names.index(v.variant)
            if isinstance(v, bool):
                return int(v)
            raise Unsupported('discriminant of %r' % (v,))
        if k == 'agg':
            ops = [self.operand(fr, o) for o in rv['ops']]
            ak = rv.get('ak')
            if ak == 'tuple':
                return tuple(ops)
            if ak == 'array':
                return Seq(ops)
            if ak == 'adt':
                a = self.facts.adts.get(rv['adt'])
                if (a and a['kind'] == 'Enum') or rv.get('is_enum') or rv['adt'].startswith(('core::option::Option', 'core::result::Result', 'core::ops::control_flow::ControlFlow')):
                    return Enum(rv['adt'], rv['variant'], ops)
                return Struct(rv['adt'].split('::')[-1], zip(rv.get('fields', []), ops))
            if ak == 'closure':
                return Closure(rv.get('def'), ops)
            raise Unsupported('aggregate %s' % ak)
        if k == 'bin':
            ty_ = getattr(self, '_dest_ty', None)
            self._dest_ty = None
            return self.binop(rv['op'], self.operand(fr, rv['a']), self.operand(fr, rv['b']), ty_)
        if k == 'un':
            a = self.operand(fr, rv['a'])
            if rv['op'] == 'Not':
                if isinstance(a, bool):
                    return not a
                if isinstance(a, int):
                    return ~a & 0xFFFFFFFFFFFFFFFF
            if rv['op'] == 'Neg' and isinstance(a, (int, float)):
                return -a
            if rv['op'] == 'PtrMetadata':
                v = self.deref(a)
                if isinstance(v, str):
                    return len(v.encode('utf-8'))
                if isinstance(v, (Seq, Slice)):
                    return len(v.items)
                if isinstance(v, (list, bytes)):
                    return len(v)
            raise Unsupported('unary %s on %r' % (rv['op'], a))
        if k == 'cast':
            v = self.operand(fr, rv['op'])
            ck = rv.get('ck', '')
            ty = (rv.get('ty') or '').strip()
            if ck.startswith('IntToFloat'):
                return float(v)
            if ck.startswith('FloatToInt'):
                rg = int_range(ty) or (0, (1 << 64) - 1)
                if v != v:
                    return 0
                if v in (float('inf'), float('-inf')):
                    return rg[1] if v > 0 else rg[0]
                return min(max(int(v), rg[0]), rg[1])         # saturating, as `as` is
            if ck.startswith('IntToInt'):
                if isinstance(v, str) and len(v) == 1:
                    v = ord(v)
                if isinstance(v, bool):
                    v = int(v)
                if isinstance(v, Enum) and not v.payload:
                    a = self.facts.adts.get(v.adt)
                    if a:
                        v = [x['name'] for x in a['variants']].index(v.variant)
                if isinstance(v, int):
                    if ty == 'char':
                        return chr(v)
                    if int_range(ty):
                        return wrap_int(v, ty)
                return v
            if ck.startswith('Transmute') and isinstance(v, Struct) and v.name == 'NonNull':
                return v.fields['0']
            return v
        if k == 'repeat':
            n_ = rv.get('n')
            if n_ is None or n_ > 1 << 16:
                raise Unsupported('array repeat of unknown / huge length')
            x = self.operand(fr, rv['op'])
            return Seq([copy.deepcopy(x) if isinstance(x, (Struct, Enum, Seq)) else x for _ in range(n_)])
        raise Unsupported('rvalue ' + k)

    # -- calls --------------------------------------------------------------------------------------
    def call_value(self, f, args):
        """Call a closure / fn item value."""
        f = self.deref(f)
        if isinstance(f, Closure):
            m = self.facts.mir_body(f.path)
            if m is None:
                raise Unsupported('no MIR for closure ' + f.path)
            return self.run(m, [f] + list(args))
        if isinstance(f, Fn):
            return self.dispatch(f.path, f.path, list(args), None)
        if isinstance(f, Struct) and f.name == 'Box':
            return self.call_value(f.fields['0'].fields['0'].fields['0'], args)
        raise Unsupported('call of %r' % (f,))

    def _pred(self, f):
        return lambda x: bool(self.call_value(f, [x]))

    def builtin(self, name, callee, args, t):
        d = self.deref
        a0 = d(args[0]) if args else None
        last = name.split('::')[-1]
        # _std_extra only ever acts on the method names it mentions: skip it (it is the hottest path) for every other call
        toks_ = VM._extra_names
        if toks_ is None:
            import inspect
            src_ = inspect.getsource(VM._std_extra)
            toks_ = set()
            for q_ in re.findall(r"'([A-Za-z_][A-Za-z0-9_:<> ]*)'", src_):
                segs_ = q_.split('::')
                toks_.update((q_, segs_[-1], '::'.join(segs_[-2:])))
            VM._extra_names = toks_
        if last in toks_ or name in toks_ or (callee or '').startswith('core::num::<impl') or name.startswith(('Formatter::', 'Ordering::')):
            r_ = self._std_extra(name, callee, args, t, a0, last)
            if r_ is not NotImplemented:
                return r_
        if name in IDENTITY:
            if name == 'IntoIterator::into_iter' or name == 'Iterator::peekable':
                if isinstance(a0, (Seq, Slice)):
                    return Iter(a0.items)
                if isinstance(a0, Struct) and a0.name in ('Range', 'RangeInclusive'):
                    return Iter(range(a0.fields['start'], a0.fields['end'] + (1 if a0.name == 'RangeInclusive' else 0)))
                return a0 if isinstance(a0, Iter) else args[0]
            if name in ('Clone::clone', 'String::clone', 'ToOwned::to_owned'):
                return copy.deepcopy(a0) if isinstance(a0, (Struct, Enum, Seq)) else a0
            if name in ('Option::as_ref', 'Option::as_mut', 'Option::as_deref'):
                if is_none(a0):
                    return NONE
                r = args[0]
                if isinstance(r, Ref):
                    return Some(Ref(r.kind, r.key, r.path + (0,)))
                return Some(a0.payload[0])
            if name in ('Deref::deref', 'DerefMut::deref_mut', 'AsRef::as_ref', 'Borrow::borrow') and isinstance(a0, (Struct, Seq, Enum)):
                return args[0]
            if name in ('DerefMut::deref_mut', 'String::as_mut_str') and isinstance(args[0], Ref):
                r_ = args[0]              # a `&mut str` / `&mut T` handed on: writes must reach the owner
                for _ in range(8):
                    inner = self.load(r_)
                    if not isinstance(inner, Ref):
                        break
                    r_ = inner
                return r_
            return a0
        # --- equality / ordering
        if name in ('PartialEq::eq', 'PartialEq::ne'):
            a, b = d(args[0]), d(args[1])
            prim = (str, int, float, bool, tuple, Enum, Seq, Struct, Slice)
            if isinstance(a, prim) and isinstance(b, prim):
                return (a == b) == (last == 'eq')
            raise Unsupported('equality of %r and %r' % (a, b))
        if name in ('PartialOrd::lt', 'PartialOrd::le', 'PartialOrd::gt', 'PartialOrd::ge'):
            return self.binop({'lt': 'Lt', 'le': 'Le', 'gt': 'Gt', 'ge': 'Ge'}[last], d(args[0]), d(args[1]))
        if name in ('Ord::min', 'Ord::max', 'cmp::min', 'cmp::max'):
            a, b = d(args[0]), d(args[1])
            ka, kb = self._sort_key(a), self._sort_key(b)
            if last == 'min':
                return a if ka <= kb else b
            return b if kb >= ka else a
        if isinstance(a0, Struct) and a0.name in ('Range', 'RangeInclusive') and name.split('::')[0] in ('Iterator', 'DoubleEndedIterator') and last != 'next':
            lo, hi = a0.fields['start'], a0.fields['end'] + (1 if a0.name == 'RangeInclusive' else 0)
            return self.builtin(name, callee, [Iter(list(range(lo, max(lo, hi))))] + list(args[1:]), t)
        if isinstance(a0, Struct) and name.split('::')[0] in ('Iterator', 'IntoIterator') and last != 'next' and \
                self.find_impl(a0.name, 'core::iter::traits::iterator::Iterator', 'next'):
            if last == 'into_iter':
                return args[0]
            return self.builtin(name, callee, [Iter(src=self._materialise_gen(a0))] + list(args[1:]), t)
        if name in ('Index::index',) and isinstance(a0, Map):
            e = a0.d.get(self._norm(args[1]))
            if e is None:
                raise Panic('key not found in map')
            return e[1]
        if name in ('Index::index', 'IndexMut::index_mut') and isinstance(a0, str):
            r = d(args[1])
            b = a0.encode('utf-8')
            if isinstance(r, Struct) and r.name in ('Range', 'RangeFrom', 'RangeTo', 'RangeInclusive', 'RangeFull'):
                lo = r.fields.get('start', 0)
                hi = r.fields.get('end', len(b))
                if r.name == 'RangeInclusive':
                    hi += 1
                if lo > hi or hi > len(b):
                    raise Panic('str slice %d..%d out of range (len %d)' % (lo, hi, len(b)))
                try:
                    b[:lo].decode('utf-8')
                    return b[lo:hi].decode('utf-8')
                except UnicodeDecodeError:
                    raise Panic('str slice %d..%d is not on a char boundary' % (lo, hi))
            raise Unsupported('str index by %r' % (r,))
        if name in ('Index::index', 'IndexMut::index_mut') and isinstance(a0, (Seq, Slice)):
            i = d(args[1])
            n_ = len(a0.items)
            base, off = (a0, 0) if isinstance(a0, Seq) else (a0.seq, a0.lo)
            if isinstance(i, int) and not isinstance(i, bool):
                if i >= n_:
                    raise Panic('index %d out of bounds (len %d)' % (i, n_))
                return Ref('elem', (base, off + i))
            if isinstance(i, Struct) and i.name in ('Range', 'RangeFrom', 'RangeTo', 'RangeInclusive', 'RangeFull', 'RangeToInclusive'):
                lo = i.fields.get('start', 0)
                hi = i.fields.get('end', n_)
                if i.name in ('RangeInclusive', 'RangeToInclusive'):
                    hi += 1
                if lo > hi:
                    raise Panic('slice index starts at %d but ends at %d' % (lo, hi))
                if hi > n_:
                    raise Panic('range end index %d out of range for slice of length %d' % (hi, n_))
                return Slice(base, off + lo, off + hi)
            raise Unsupported('index by %r' % (i,))
        # --- chars
        if isinstance(a0, str) and len(a0) == 1 and ('char' in callee):
            if last in CHAR_PRED:
                return CHAR_PRED[last](a0)
            if last == 'len_utf8':
                return len(a0.encode('utf-8'))
            if last in ('to_lowercase', 'to_uppercase'):
                return Iter(list(a0.lower() if last == 'to_lowercase' else a0.upper()))
            if last in ('to_ascii_lowercase', 'to_ascii_uppercase'):
                return (a0.lower() if last.endswith('lowercase') else a0.upper()) if a0.isascii() else a0
            if last == 'is_ascii':
                return a0.isascii()
            if last == 'is_digit':
                return a0.isdigit() if d(args[1]) == 10 else a0.lower() in '0123456789abcdefghijklmnopqrstuvwxyz'[:d(args[1])]
            if last == 'to_digit':
                return Some(int(a0)) if a0 in '0123456789' else NONE
            if last == 'eq_ignore_ascii_case':
                return a0.lower() == d(args[1]).lower()
        # --- str / String
        if isinstance(a0, str) and name.split('::')[0] in ('str', 'String'):
            s = a0
            if last == 'chars':
                return Iter(list(s))
            if last == 'char_indices':
                out, off = [], 0
                for c in s:
                    out.append((off, c))
                    off += len(c.encode('utf-8'))
                return Iter(out)
            if last == 'bytes':
                return Iter(list(s.encode('utf-8')))
            if last == 'len':
                return len(s.encode('utf-8'))
            if last == 'is_empty':
                return s == ''
            if last == 'trim':
                return s.strip(RUST_WS)
            if last == 'trim_start':
                return s.lstrip(RUST_WS)
            if last == 'trim_end':
                return s.rstrip(RUST_WS)
            if last == 'to_lowercase':
                return s.lower()
            if last == 'to_uppercase':
                return s.upper()
            if last == 'split_whitespace':
                return Iter([w for w in _split_ws(s)])
            if last in ('starts_with', 'ends_with', 'contains'):
                p = d(args[1])
                if isinstance(p, (Seq, Slice)) and all(isinstance(d(c), str) and len(d(c)) == 1 for c in p.items):
                    cs = [d(c) for c in p.items]       # a set of chars: any of them
                    if last == 'contains':
                        return any(c in s for c in cs)
                    return bool(s) and (s[0] if last == 'starts_with' else s[-1]) in cs
                if isinstance(p, str):
                    return {'starts_with': s.startswith(p), 'ends_with': s.endswith(p), 'contains': p in s}[last]
                if isinstance(p, (Fn, Closure)):
                    pr = self._pred(p)
                    if last == 'contains':
                        return any(pr(c) for c in s)
                    return bool(s) and pr(s[0] if last == 'starts_with' else s[-1])
            if last == 'eq_ignore_ascii_case':
                return s.lower() == d(args[1]).lower()
            if last in ('trim_matches', 'trim_start_matches', 'trim_end_matches', 'strip_prefix', 'strip_suffix', 'find', 'rfind', 'split', 'replace',
                        'matches', 'split_once', 'rsplit', 'splitn', 'split_terminator'):
                p = d(args[1])
                if isinstance(p, Seq):
                    pats = list(p.items)
                elif isinstance(p, (Fn, Closure)):
                    pats = None
                else:
                    pats = [p]
                if pats is not None and not all(isinstance(x, str) and x for x in pats):
                    raise Unsupported('pattern %r' % (p,))

                def match_at(i, rev=False):
                    # length (in chars) of a match of the pattern starting (ending) at char index i, or 0
                    if pats is None:
                        j = i - 1 if rev else i
                        return 1 if 0 <= j < len(s) and self.call_value(p, [s[j]]) else 0
                    for x in sorted(pats, key=len, reverse=True):
                        if (s.endswith(x, 0, i) if rev else s.startswith(x, i)):
                            return len(x)
                    return 0
                if last in ('trim_start_matches', 'trim_matches', 'trim_end_matches'):
                    lo, hi = 0, len(s)
                    if last != 'trim_end_matches':
                        while lo < hi and match_at(lo):
                            lo += match_at(lo)
                    if last != 'trim_start_matches':
                        while hi > lo and match_at(hi, True):
                            hi -= match_at(hi, True)
                    return s[lo:hi]
                if last == 'strip_prefix':
                    k = match_at(0)
                    return Some(s[k:]) if k else NONE
                if last == 'strip_suffix':
                    k = match_at(len(s), True)
                    return Some(s[:len(s) - k]) if k else NONE
                if last in ('find', 'rfind'):
                    rng = range(len(s)) if last == 'find' else range(len(s) - 1, -1, -1)
                    for i in rng:
                        if match_at(i):
                            return Some(len(s[:i].encode('utf-8')))
                    return NONE
                if last in ('split', 'split_terminator', 'matches', 'replace'):
                    parts, cur, i, found = [], '', 0, []
                    while i < len(s):
                        k = match_at(i)
                        if k:
                            parts.append(cur)
                            found.append(s[i:i + k])
                            cur = ''
                            i += k
                        else:
                            cur += s[i]
                            i += 1
                    parts.append(cur)
                    if last == 'matches':
                        return Iter(found)
                    if last == 'replace':
                        return d(args[2]).join(parts)
                    if last == 'split_terminator' and parts and parts[-1] == '':
                        parts.pop()
                    return Iter(parts)
                raise Unsupported('str method ' + name)
            if last in ('split_at', 'split_at_checked'):
                i = d(args[1])
                b = s.encode('utf-8')
                try:
                    if i > len(b):
                        raise UnicodeDecodeError('utf-8', b, 0, 0, '')
                    pair = (b[:i].decode('utf-8'), b[i:].decode('utf-8'))
                except UnicodeDecodeError:
                    if last == 'split_at_checked':
                        return NONE
                    raise Panic('str::split_at(%d) is not on a char boundary / out of range' % i)
                return pair if last == 'split_at' else Some(pair)
            if last in ('rsplit_once', 'split_once') and isinstance(d(args[1]), str):
                p_ = d(args[1])
                i = s.rfind(p_) if last == 'rsplit_once' else s.find(p_)
                return Some((s[:i], s[i + len(p_):])) if i >= 0 else NONE
            if last == 'split_inclusive':
                raise Unsupported('str::split_inclusive')
            if last == 'is_char_boundary':
                i = d(args[1])
                b = s.encode('utf-8')
                if i > len(b):
                    return False
                try:
                    b[:i].decode('utf-8')
                    return True
                except UnicodeDecodeError:
                    return False
            if last in ('to_ascii_lowercase', 'to_ascii_uppercase'):
                return ''.join((c.lower() if last.endswith('lowercase') else c.upper()) if c.isascii() else c for c in s)
            if last == 'lines':
                return Iter(s.splitlines())
            if last == 'repeat':
                if d(args[1]) > 1 << 20:
                    raise Unsupported('repeat count')
                return s * d(args[1])
            if last in ('push_str', 'push'):
                self.store(args[0], s + d(args[1]))
                return ()
            if last == 'get':
                try:
                    return Some(self.builtin('Index::index', 'Index::index', [s, args[1]], t))
                except Panic:
                    return NONE
            if last == 'as_bytes':
                return Seq(list(s.encode('utf-8')))
            if last == 'is_ascii':
                return s.isascii()
            if last == 'clear':
                self.store(args[0], '')
                return ()
            if last == 'with_capacity':
                return ''
            if last in ('insert_str', 'insert'):
                i = d(args[1])
                b = s.encode('utf-8')
                self.store(args[0], (b[:i] + d(args[2]).encode('utf-8') + b[i:]).decode('utf-8'))
                return ()
            if last == 'replace_range':
                r = d(args[1])
                b = s.encode('utf-8')
                lo, hi = r.fields.get('start', 0), r.fields.get('end', len(b))
                if r.name in ('RangeInclusive', 'RangeToInclusive'):
                    hi += 1
                if lo > hi or hi > len(b):
                    raise Panic('replace_range out of bounds')
                self.store(args[0], (b[:lo] + d(args[2]).encode('utf-8') + b[hi:]).decode('utf-8'))
                return ()
            if last == 'truncate':
                self.store(args[0], s.encode('utf-8')[:d(args[1])].decode('utf-8'))
                return ()
            if last == 'pop':
                if not s:
                    return NONE
                self.store(args[0], s[:-1])
                return Some(s[-1])
            if last == 'capacity':
                return len(s)
            if last in ('reserve', 'shrink_to_fit'):
                return ()
            if last == 'char_indices':
                pass
            if last == 'parse':
                ga = ((t or {}).get('gargs', '') if isinstance(t, dict) else '').strip('[] ')
                err = Enum('core::result::Result', 'Err', ['ParseError'])
                if ga in ('f64', 'f32'):
                    # the grammar of <f64 as FromStr>: no surrounding white space, no `_`, optional sign, inf / infinity / nan
                    if re.fullmatch(r'[+-]?(?:inf|infinity|nan|(?:\d+\.?\d*|\.\d+)(?:[eE][+-]?\d+)?)', s, re.I | re.A):
                        return Enum('core::result::Result', 'Ok', [float(s)])
                    return err
                m_ = re.fullmatch(r'([ui])(8|16|32|64|128|size)', ga)
                if m_:
                    bits = 64 if m_.group(2) == 'size' else int(m_.group(2))
                    signed = m_.group(1) == 'i'
                    if not re.fullmatch(r'[+-]?\d+' if signed else r'\+?\d+', s, re.A):
                        return err
                    v_ = int(s)
                    lo, hi = (-(1 << (bits - 1)), (1 << (bits - 1)) - 1) if signed else (0, (1 << bits) - 1)
                    return Enum('core::result::Result', 'Ok', [v_]) if lo <= v_ <= hi else err
                cands_ = [p_ for p_ in self.facts.mir if p_.startswith('<%s as ' % ga) and p_.endswith('FromStr>::from_str')]
                if len(cands_) == 1:
                    return self.run(self.facts.mir_body(cands_[0]), [s])
                raise Unsupported('str::parse::<%s>' % ga)
            raise Unsupported('str method ' + name)
        if name in ('converts::from_utf8', 'str::from_utf8') and isinstance(a0, (Seq, Slice)):
            try:
                return Enum('core::result::Result', 'Ok', [bytes(a0.items).decode('utf-8')])
            except (UnicodeDecodeError, ValueError):
                return Enum('core::result::Result', 'Err', ['Utf8Error'])
        if name in ('Write::write_fmt', 'Write::write_str', 'Write::write_char', 'Formatter::write_fmt', 'Formatter::write_str', 'Formatter::write_char') and isinstance(a0, str):
            x = d(args[1])
            if last == 'write_fmt':
                x = self.builtin('fmt::format', 'alloc::fmt::format', [x], t)
            self.store(args[0], a0 + x)
            return Enum('core::result::Result', 'Ok', [()])
        if name in ('Ord::cmp', 'PartialOrd::partial_cmp'):
            a, b = d(args[0]), d(args[1])
            if isinstance(a, (Seq, Slice)):
                a, b = list(a.items), list(b.items)
            if isinstance(a, (int, float, str, list, tuple)) and type(a) == type(b):
                o = Enum('core::cmp::Ordering', 'Less' if a < b else ('Greater' if a > b else 'Equal'))
                return o if name == 'Ord::cmp' else Some(o)
        if name in ('AddAssign::add_assign', 'Extend::extend', 'String::extend') and isinstance(a0, str):
            o = d(args[1])
            if isinstance(o, Iter):
                o = ''.join(d(x) for x in o.rest())
            if isinstance(o, (Seq, Slice)):
                o = ''.join(d(x) for x in o.items)
            self.store(args[0], a0 + o)
            return ()
        if name == 'Add::add' and isinstance(a0, str) and isinstance(d(args[1]), str):
            return a0 + d(args[1])
        if last == 'new_uninit' and name.startswith('Box') and not args:
            # `vec![a, b]` lowers to Box::new_uninit + a write of the array through the raw pointer + box_assume_init_into_vec_unsafe
            cell = Struct('MaybeUninit', {'1': Struct('ManuallyDrop', {'0': Struct('MaybeDangling', {'0': None})})})
            return Struct('Box', {'0': Struct('Unique', {'0': Struct('NonNull', {'0': Ref('obj', cell)})})})
        if last == 'box_assume_init_into_vec_unsafe':
            cell = d(a0.fields['0'].fields['0'].fields['0'])
            arr = cell.fields['1'].fields['0'].fields['0']
            if not isinstance(arr, Seq):
                raise Unsupported('box_assume_init_into_vec_unsafe of an unwritten box')
            return arr
        if name == 'Default::default' and not args:
            import re as _re
            m_ = _re.match(r'^<(.+) as core::default::Default>::default$', callee or '')
            ty_ = m_.group(1) if m_ else ''
            if ty_ == 'bool':
                return False
            if ty_ in ('usize', 'u8', 'u16', 'u32', 'u64', 'u128', 'isize', 'i8', 'i16', 'i32', 'i64', 'i128'):
                return 0
            if ty_ in ('f64', 'f32'):
                return 0.0
            if ty_ in ('alloc::string::String', '&str', 'str'):
                return ''
            if ty_.startswith(('alloc::vec::Vec', 'alloc::collections::vec_deque::VecDeque')):
                return Seq()
            if ty_.startswith('core::option::Option'):
                return NONE
            if ty_ == '()':
                return ()
        if name in ('String::new', 'String::with_capacity'):
            return ''
        # --- iterators
        if isinstance(a0, Iter) and name.split('::')[0] in ('Iterator', 'DoubleEndedIterator', 'Peekable', 'Rev', 'Enumerate', 'Chars', 'CharIndices', 'Map', 'Filter', 'IntoIterator', 'Skip', 'Take', 'Zip', 'Chain', 'Cloned', 'Copied',
                                                               'ExactSizeIterator', 'Drain', 'IntoIter', 'Iter', 'SplitWhitespace', 'Fuse', 'FilterMap', 'TakeWhile', 'SkipWhile', 'MapWhile', 'StepBy', 'FlatMap', 'Flatten',
                                                               'Inspect', 'Scan', 'Split', 'Bytes', 'IterMut', 'FusedIterator', 'Successors', 'FromFn', 'Once', 'Windows', 'Chunks'):
            return self._iter_method(a0, last, name, args, t)
        if isinstance(a0, (Slice, Seq)) and name.split('::')[0] in ('slice', '[T]', 'Vec') and last in (
                'len', 'is_empty', 'iter', 'copy_from_slice', 'swap_with_slice', 'split_at_mut', 'split_at', 'to_vec', 'first', 'last', 'fill', 'as_slice',
                'as_mut_slice', 'iter_mut', 'contains', 'starts_with', 'ends_with', 'clone_from_slice', 'reverse', 'get', 'get_mut', 'first_mut',
                'last_mut', 'split_first', 'split_last', 'concat', 'swap', 'rotate_left', 'rotate_right', 'copy_within', 'windows', 'chunks',
                'chunks_exact', 'binary_search', 'binary_search_by', 'binary_search_by_key', 'is_sorted', 'rposition', 'position') and not (isinstance(a0, Seq) and last in ('len', 'is_empty', 'iter', 'first', 'last', 'contains')):
            items = list(a0.items)
            base, off = (a0, 0) if isinstance(a0, Seq) else (a0.seq, a0.lo)
            if last == 'len':
                return len(items)
            if last == 'is_empty':
                return not items
            if last in ('iter', 'to_vec'):
                return Iter(items) if last == 'iter' else Seq(items)
            if last == 'iter_mut':
                return Iter([Ref('elem', (base, off + i)) for i in range(len(items))])
            if last in ('as_slice', 'as_mut_slice'):
                return a0
            if last in ('copy_from_slice', 'clone_from_slice'):
                src = list(d(args[1]).items)
                if len(src) != len(items):
                    raise Panic('copy_from_slice: source slice length (%d) does not match destination slice length (%d)' % (len(src), len(items)))
                base.items[off:off + len(items)] = src
                return ()
            if last == 'swap_with_slice':
                o = d(args[1])
                src = list(o.items)
                if len(src) != len(items):
                    raise Panic('swap_with_slice: destination and source slices have different lengths')
                obase, ooff = (o, 0) if isinstance(o, Seq) else (o.seq, o.lo)
                base.items[off:off + len(items)] = src
                obase.items[ooff:ooff + len(src)] = items
                return ()
            if last in ('split_at_mut', 'split_at'):
                mid = d(args[1])
                if mid > len(items):
                    raise Panic('split_at: mid > len')
                return (Slice(base, off, off + mid), Slice(base, off + mid, off + len(items)))
            if last in ('first', 'last'):
                return Some(items[0 if last == 'first' else -1]) if items else NONE
            if last == 'fill':
                base.items[off:off + len(items)] = [args[1]] * len(items)
                return ()
            if last == 'contains':
                return d(args[1]) in items
            if last in ('starts_with', 'ends_with'):
                o = list(d(args[1]).items)
                return items[:len(o)] == o if last == 'starts_with' else (items[len(items) - len(o):] == o if len(o) <= len(items) else False)
            if last == 'reverse':
                base.items[off:off + len(items)] = items[::-1]
                return ()
            if last in ('get', 'get_mut'):
                i = d(args[1])
                if isinstance(i, int) and not isinstance(i, bool):
                    if i >= len(items):
                        return NONE
                    return Some(Ref('elem', (base, off + i)) if last == 'get_mut' else items[i])
                try:
                    return Some(self.builtin('Index::index', 'Index::index', [a0, args[1]], t))
                except Panic:
                    return NONE
            if last in ('first_mut', 'last_mut'):
                if not items:
                    return NONE
                return Some(Ref('elem', (base, off + (0 if last == 'first_mut' else len(items) - 1))))
            if last in ('split_first', 'split_last'):
                if not items:
                    return NONE
                if last == 'split_first':
                    return Some((items[0], Slice(base, off + 1, off + len(items))))
                return Some((items[-1], Slice(base, off, off + len(items) - 1)))
            if last in ('windows', 'chunks', 'chunks_exact'):
                k = d(args[1])
                if k == 0:
                    raise Panic('%s size is zero' % last)
                if last == 'windows':
                    return Iter([Slice(base, off + i, off + i + k) for i in range(0, len(items) - k + 1)])
                return Iter([Slice(base, off + i, off + min(i + k, len(items))) for i in range(0, len(items), k) if last == 'chunks' or i + k <= len(items)])
            if last in ('binary_search_by_key', 'binary_search_by', 'binary_search'):
                if last == 'binary_search':
                    keys = [d(x) for x in items]
                    target = d(args[1])
                elif last == 'binary_search_by_key':
                    keys = [d(self.call_value(args[2], [x])) for x in items]
                    target = d(args[1])
                else:
                    # the closure returns an Ordering for each element
                    lo_, hi_ = 0, len(items)
                    while lo_ < hi_:
                        mid = (lo_ + hi_) // 2
                        o = self.call_value(args[1], [items[mid]])
                        ov = o.variant if isinstance(o, Enum) else o
                        if ov in ('Less', -1):
                            lo_ = mid + 1
                        elif ov in ('Greater', 1):
                            hi_ = mid
                        else:
                            return Enum('core::result::Result', 'Ok', [mid])
                    return Enum('core::result::Result', 'Err', [lo_])
                lo_, hi_ = 0, len(keys)
                while lo_ < hi_:
                    mid = (lo_ + hi_) // 2
                    if keys[mid] < target:
                        lo_ = mid + 1
                    elif keys[mid] > target:
                        hi_ = mid
                    else:
                        return Enum('core::result::Result', 'Ok', [mid])
                return Enum('core::result::Result', 'Err', [lo_])
            if last == 'is_sorted':
                ks = [d(x) for x in items]
                return all(ks[i] <= ks[i + 1] for i in range(len(ks) - 1))
            if last == 'concat':
                if all(isinstance(d(x), str) or isinstance(d(x), Struct) for x in items):
                    return ''.join(self.as_text(x) for x in items)
                out = []
                for x in items:
                    out.extend(list(d(x).items))
                return Seq(out)
            if last == 'swap':
                i, j = d(args[1]), d(args[2])
                if max(i, j) >= len(items):
                    raise Panic('swap index out of bounds')
                base.items[off + i], base.items[off + j] = base.items[off + j], base.items[off + i]
                return ()
            if last == 'rotate_left' or last == 'rotate_right':
                k = d(args[1])
                if k > len(items):
                    raise Panic('rotate out of bounds')
                k = k if last == 'rotate_left' else (len(items) - k)
                base.items[off:off + len(items)] = items[k:] + items[:k]
                return ()
            if last in ('copy_within',):
                r = d(args[1])
                lo, hi = r.fields.get('start', 0), r.fields.get('end', len(items))
                dst = d(args[2])
                if lo > hi or hi > len(items) or dst + (hi - lo) > len(items):
                    raise Panic('copy_within out of bounds')
                base.items[off + dst:off + dst + hi - lo] = items[lo:hi]
                return ()
        # --- sequences
        if isinstance(a0, Seq) and name.split('::')[0] in ('Vec', 'VecDeque', 'slice', '[T]', 'Extend', 'Index', 'IndexMut', 'array'):
            q = a0
            if last in ('push_back', 'push'):
                q.items.append(args[1])
                return ()
            if last == 'push_front':
                q.items.insert(0, args[1])
                return ()
            if last == 'pop_front':
                return Some(q.items.pop(0)) if q.items else NONE
            if last in ('pop_back', 'pop'):
                return Some(q.items.pop()) if q.items else NONE
            if last == 'is_empty':
                return not q.items
            if last == 'len':
                return len(q.items)
            if last == 'iter':
                return Iter(q.items)
            if last == 'insert':
                i = d(args[1])
                if i > len(q.items):
                    raise Panic('insert index %d > len %d' % (i, len(q.items)))
                q.items.insert(i, args[2])
                return ()
            if last == 'splice':
                r = d(args[1])
                s_ = r.fields.get('start', 0)
                e_ = r.fields.get('end', len(q.items)) + (1 if r.name in ('RangeInclusive', 'RangeToInclusive') else 0)
                if s_ > e_ or e_ > len(q.items):
                    raise Panic('splice range %d..%d out of bounds (len %d)' % (s_, e_, len(q.items)))
                removed = q.items[s_:e_]
                q.items[s_:e_] = self._as_iter(args[2]).drain()
                return Iter(removed)
            if last == 'drain':
                r = d(args[1])
                s_ = r.fields.get('start', 0)
                e_ = r.fields.get('end', len(q.items)) + (1 if r.name in ('RangeInclusive', 'RangeToInclusive') else 0)
                if s_ > e_ or e_ > len(q.items):
                    raise Panic('drain range %d..%d out of bounds (len %d)' % (s_, e_, len(q.items)))
                out = q.items[s_:e_]
                del q.items[s_:e_]
                return Iter(out)
            if last in ('front', 'first', 'back', 'last'):
                if not q.items:
                    return NONE
                return Some(q.items[0 if last in ('front', 'first') else -1])
            if last == 'clear':
                q.items.clear()
                return ()
            if last == 'extend_from_slice':
                q.items.extend(list(d(args[1]).items))
                return ()
            if last == 'resize':
                n_ = d(args[1])
                if n_ > 1 << 20:
                    raise Unsupported('resize to %d' % n_)
                if n_ < len(q.items):
                    del q.items[n_:]
                else:
                    q.items.extend([args[2]] * (n_ - len(q.items)))
                return ()
            if last == 'extend':
                src = d(args[1])
                if isinstance(src, Enum):
                    if src.variant == 'Some':
                        q.items.append(src.payload[0])
                    return ()
                if isinstance(src, (Iter,)):
                    q.items.extend(src.rest())
                    return ()
                if isinstance(src, Seq):
                    q.items.extend(src.items)
                    return ()
            if last == 'join':
                return d(args[1]).join(self.as_text(x) for x in q.items)
            if last == 'truncate':
                del q.items[d(args[1]):]
                return ()
            if last == 'retain':
                q.items[:] = [x for x in q.items if self.call_value(args[1], [x])]
                return ()
            if last == 'dedup':
                out = []
                for x in q.items:
                    if not out or out[-1] != x:
                        out.append(x)
                q.items[:] = out
                return ()
            if last == 'append':
                o = d(args[1])
                q.items.extend(o.items)
                o.items.clear()
                return ()
            if last == 'split_off':
                k = d(args[1])
                if k > len(q.items):
                    raise Panic('split_off out of bounds')
                tail = q.items[k:]
                del q.items[k:]
                return Seq(tail)
            if last == 'swap_remove':
                k = d(args[1])
                if k >= len(q.items):
                    raise Panic('swap_remove out of bounds')
                v = q.items[k]
                q.items[k] = q.items[-1]
                q.items.pop()
                return v
            if last in ('reserve', 'shrink_to_fit', 'reserve_exact'):
                return ()
            if last == 'capacity':
                return len(q.items)
            if last in ('into_iter', 'into_boxed_slice', 'into_vec'):
                return Iter(q.items) if last == 'into_iter' else q
            if last == 'remove':
                i = d(args[1])
                if i >= len(q.items):
                    raise Panic('remove index out of bounds')
                return q.items.pop(i)
            if last == 'contains':
                return d(args[1]) in q.items
            raise Unsupported('sequence method ' + name)
        if name in ('VecDeque::new', 'Vec::new', 'VecDeque::with_capacity', 'Vec::with_capacity'):
            return Seq()
        # --- Option / Result
        if isinstance(a0, Enum) and a0.variant in ('Some', 'None') and name.startswith('Option::'):
            if last == 'take':
                self.store(args[0], NONE)
                return a0
            if last == 'replace':
                self.store(args[0], Some(args[1]))
                return a0
            if last == 'insert' or (last == 'get_or_insert' and a0.variant == 'None'):
                self.store(args[0], Some(args[1]))
            if last in ('insert', 'get_or_insert'):
                r0 = args[0]
                return Ref(r0.kind, r0.key, r0.path + (0,)) if isinstance(r0, Ref) else self.load(r0).payload[0]
            if last == 'is_some':
                return a0.variant == 'Some'
            if last == 'is_none':
                return a0.variant == 'None'
            if last in ('unwrap', 'expect'):
                if a0.variant == 'None':
                    raise Panic('unwrap on None')
                return a0.payload[0]
            if last == 'unwrap_or':
                return a0.payload[0] if a0.variant == 'Some' else args[1]
            if last == 'unwrap_or_default':
                if a0.variant == 'Some':
                    return a0.payload[0]
                raise Unsupported('unwrap_or_default on None')
            if last == 'map':
                return Some(self.call_value(args[1], [a0.payload[0]])) if a0.variant == 'Some' else NONE
            if last == 'and_then':
                return self.call_value(args[1], [a0.payload[0]]) if a0.variant == 'Some' else NONE
            if last in ('is_some_and', 'map_or'):
                if last == 'is_some_and':
                    return a0.variant == 'Some' and bool(self.call_value(args[1], [a0.payload[0]]))
                return self.call_value(args[2], [a0.payload[0]]) if a0.variant == 'Some' else args[1]
            if last == 'or':
                return a0 if a0.variant == 'Some' else d(args[1])
            if last == 'filter':
                return a0 if a0.variant == 'Some' and self.call_value(args[1], [a0.payload[0]]) else NONE
            if last == 'iter':
                return Iter(a0.payload[:1] if a0.variant == 'Some' else [])
            some = a0.variant == 'Some'
            if last == 'or_else':
                return a0 if some else self.call_value(args[1], [])
            if last == 'unwrap_or_else':
                return a0.payload[0] if some else self.call_value(args[1], [])
            if last == 'map_or_else':
                return self.call_value(args[2], [a0.payload[0]]) if some else self.call_value(args[1], [])
            if last == 'ok_or':
                return Enum('core::result::Result', 'Ok', [a0.payload[0]]) if some else Enum('core::result::Result', 'Err', [args[1]])
            if last == 'ok_or_else':
                return Enum('core::result::Result', 'Ok', [a0.payload[0]]) if some else Enum('core::result::Result', 'Err', [self.call_value(args[1], [])])
            if last == 'and':
                return d(args[1]) if some else NONE
            if last == 'xor':
                o = d(args[1])
                return a0 if some and is_none(o) else (o if not some and not is_none(o) else NONE)
            if last == 'zip':
                o = d(args[1])
                return Some((a0.payload[0], o.payload[0])) if some and not is_none(o) else NONE
            if last in ('copied', 'cloned', 'flatten'):
                if last == 'flatten':
                    return d(a0.payload[0]) if some else NONE
                return Some(d(a0.payload[0])) if some else NONE
            if last == 'is_none_or':
                return (not some) or bool(self.call_value(args[1], [a0.payload[0]]))
            if last == 'inspect':
                if some:
                    self.call_value(args[1], [a0.payload[0]])
                return a0
            if last == 'get_or_insert_with':
                if not some:
                    self.store(args[0], Some(self.call_value(args[1], [])))
                r0 = args[0]
                return Ref(r0.kind, r0.key, r0.path + (0,)) if isinstance(r0, Ref) else self.load(r0).payload[0]
            if last == 'take_if':
                if some and self.call_value(args[1], [a0.payload[0]]):
                    self.store(args[0], NONE)
                    return a0
                return NONE
            raise Unsupported('Option method ' + name)
        if isinstance(a0, Enum) and a0.variant in ('Ok', 'Err') and name.startswith('Result::'):
            if last == 'is_ok':
                return a0.variant == 'Ok'
            if last == 'is_err':
                return a0.variant == 'Err'
            if last in ('unwrap', 'expect'):
                if a0.variant == 'Err':
                    raise Panic('unwrap on Err')
                return a0.payload[0]
            if last == 'ok':
                return Some(a0.payload[0]) if a0.variant == 'Ok' else NONE
            if last == 'err':
                return Some(a0.payload[0]) if a0.variant == 'Err' else NONE
            if last == 'is_ok_and':
                return a0.variant == 'Ok' and bool(self.call_value(args[1], [a0.payload[0]]))
            if last == 'is_err_and':
                return a0.variant == 'Err' and bool(self.call_value(args[1], [a0.payload[0]]))
            if last == 'map':
                return Enum(a0.adt, 'Ok', [self.call_value(args[1], [a0.payload[0]])]) if a0.variant == 'Ok' else a0
            okv = a0.variant == 'Ok'
            if last == 'map_err':
                return a0 if okv else Enum(a0.adt, 'Err', [self.call_value(args[1], [a0.payload[0]])])
            if last == 'and_then':
                return self.call_value(args[1], [a0.payload[0]]) if okv else a0
            if last == 'or_else':
                return a0 if okv else self.call_value(args[1], [a0.payload[0]])
            if last == 'and':
                return d(args[1]) if okv else a0
            if last == 'or':
                return a0 if okv else d(args[1])
            if last == 'unwrap_or':
                return a0.payload[0] if okv else args[1]
            if last == 'unwrap_or_else':
                return a0.payload[0] if okv else self.call_value(args[1], [a0.payload[0]])
            if last == 'map_or':
                return self.call_value(args[2], [a0.payload[0]]) if okv else args[1]
            if last == 'map_or_else':
                return self.call_value(args[2], [a0.payload[0]]) if okv else self.call_value(args[1], [a0.payload[0]])
            if last in ('unwrap_err', 'expect_err'):
                if okv:
                    raise Panic('unwrap_err on Ok')
                return a0.payload[0]
            if last == 'iter':
                return Iter(a0.payload[:1] if okv else [])
            if last in ('copied', 'cloned'):
                return a0
            if last == 'inspect':
                if okv:
                    self.call_value(args[1], [a0.payload[0]])
                return a0
            raise Unsupported('Result method ' + name)
        if name == 'Try::branch' and isinstance(a0, Enum):
            cf = 'core::ops::control_flow::ControlFlow'
            if a0.variant in ('Ok', 'Some'):
                return Enum(cf, 'Continue', [a0.payload[0]])
            return Enum(cf, 'Break', [a0 if a0.variant == 'None' else Enum(a0.adt, 'Err', list(a0.payload))])
        if name == 'FromResidual::from_residual':
            return a0
        # --- format!: the template comes from the pre-lowering AST (facts.format_args, keyed by the macro call-site span)
        if name in ('Argument::new_display', 'Argument::new_debug'):
            return ('$fmtarg', args[0])
        if name.startswith('Argument::new_'):
            raise Unsupported('format argument with %s' % name)
        if name in ('Arguments::new', 'Arguments::new_v1', 'Arguments::new_const', 'Arguments::from_str', 'Arguments::new_v1_formatted'):
            vals = []
            for a in args:
                v = d(a)
                if isinstance(v, (Seq, Slice)) and all(isinstance(d(x), tuple) and d(x) and d(x)[0] == '$fmtarg' for x in v.items):
                    vals = [d(x)[1] for x in v.items]
            return ('$fmtargs', vals, t.get('sp') if t else None)
        if name in ('fmt::format', 'format::format_inner') and isinstance(a0, tuple) and a0 and a0[0] == '$fmtargs':
            idx = self.__dict__.setdefault('_fmt_index', None)
            if idx is None:
                idx = self._fmt_index = {fa['macro_sp']: fa for fa in self.facts.format_args}
            fa = idx.get(a0[2]) or idx.get(t.get('sp') if t else None)
            if fa is None:
                raise Unsupported('format! template not found for %s' % (a0[2],))
            return self.render_format(fa, a0[1])
        if name in ('repeat::repeat', 'sources::repeat', 'iter::repeat'):
            return Repeat(args[0])
        if name in ('repeat_n::repeat_n', 'iter::repeat_n', 'sources::repeat_n'):
            return Iter([args[0]] * d(args[1]))
        if isinstance(a0, Repeat):
            if last == 'take':
                k = d(args[1])
                if k > 1 << 20:
                    raise Unsupported('repeat().take(%d)' % k)
                return Iter([a0.v] * k)
            if last == 'next':
                return Some(a0.v)
            raise Unsupported('unbounded iterator method ' + name)
        if name in ('iter::once', 'once::once', 'sources::once'):
            return Iter([args[0]])
        if name in ('iter::empty', 'empty::empty', 'sources::empty'):
            return Iter([])
        if (callee or '').startswith('phf::') and last in ('contains', 'contains_key', 'get', 'get_key', 'len', 'is_empty') and isinstance(a0, Struct):
            m_ = a0.fields.get('map', a0)
            m_ = d(m_)
            ents = d(m_.fields['entries']) if isinstance(m_, Struct) and 'entries' in m_.fields else None
            if isinstance(ents, Enum) and ents.payload:
                ents = d(ents.payload[0])          # phf::Slice::Static(&[..])
            if isinstance(ents, Struct) and list(ents.fields) == ['0']:
                ents = d(ents.fields['0'])
            if not isinstance(ents, (Seq, Slice)):
                ents = None
            if ents is None:
                raise Unsupported('phf container without literal entries')
            pairs = [d(x) for x in ents.items]
            keys = [d(p_[0]) for p_ in pairs]
            if last in ('contains', 'contains_key'):
                return d(args[1]) in keys
            if last == 'len':
                return len(keys)
            if last == 'is_empty':
                return not keys
            k_ = d(args[1])
            if k_ in keys:
                return Some(pairs[keys.index(k_)][1] if last == 'get' else k_)
            return NONE
        if name in ('RangeInclusive::new',):
            return Struct('RangeInclusive', {'start': d(args[0]), 'end': d(args[1])})
        if isinstance(a0, Struct) and a0.name in ('Range', 'RangeInclusive', 'RangeFrom', 'RangeTo', 'RangeToInclusive') and last in ('contains', 'start', 'end', 'is_empty', 'len', 'rev', 'next'):
            lo, hi = a0.fields.get('start'), a0.fields.get('end')
            if last == 'contains':
                x = d(args[1])
                ok_lo = lo is None or x >= lo
                ok_hi = hi is None or (x <= hi if a0.name in ('RangeInclusive', 'RangeToInclusive') else x < hi)
                return ok_lo and ok_hi
            if last in ('start', 'end'):
                return a0.fields[last]
            n_ = (hi - lo + (1 if a0.name == 'RangeInclusive' else 0)) if lo is not None and hi is not None else None
            if last == 'is_empty':
                return n_ is not None and n_ <= 0
            if last == 'len':
                return max(0, n_)
            if last == 'rev':
                return Iter(list(range(lo, lo + max(0, n_)))[::-1])
            if last == 'next':
                if n_ is not None and n_ > 0:
                    a0.fields['start'] = lo + 1
                    return Some(lo)
                return NONE
        if name in ('mem::take', 'mem::replace', 'mem::swap'):
            cur = self.load(args[0])
            if name == 'mem::replace':
                self.store(args[0], args[1])
                return cur
            if name == 'mem::swap':
                other = self.load(args[1])
                self.store(args[0], other)
                self.store(args[1], cur)
                return ()
            if isinstance(cur, bool):
                self.store(args[0], False)
            elif isinstance(cur, Enum) and cur.variant in ('Some', 'None'):
                self.store(args[0], NONE)
            elif isinstance(cur, Seq):
                self.store(args[0], Seq())
            elif isinstance(cur, str):
                self.store(args[0], '')
            elif isinstance(cur, int):
                self.store(args[0], 0)
            else:
                raise Unsupported('mem::take of %r' % (cur,))
            return cur
        if isinstance(a0, bool) and name in ('bool::then', 'bool::then_some'):
            if not a0:
                return NONE
            return Some(self.call_value(args[1], [])) if last == 'then' else Some(args[1])
        if isinstance(a0, float) and re.match(r'^(std|core)::f(64|32)::<impl f(64|32)>::', callee or '') and last in (
                'round', 'floor', 'ceil', 'trunc', 'fract', 'sqrt', 'powi', 'powf', 'min', 'max', 'is_finite', 'is_infinite', 'is_sign_negative', 'is_sign_positive',
                'signum', 'mul_add', 'to_bits', 'clamp', 'round_ties_even', 'log10', 'exp', 'ln'):
            import math
            b = d(args[1]) if len(args) > 1 else None
            if a0 != a0 or a0 in (float('inf'), float('-inf')):
                if last in ('is_finite', 'is_infinite'):
                    return (last == 'is_infinite') == (a0 == a0)
                if last in ('round', 'floor', 'ceil', 'trunc'):
                    return a0
                if last in ('min', 'max') and b is not None:
                    if a0 != a0:
                        return b
                    if b != b:
                        return a0
                    return min(a0, b) if last == 'min' else max(a0, b)
                raise Unsupported('f64::%s of %r' % (last, a0))
            if last == 'round':
                return float(math.floor(abs(a0) + 0.5)) * (1.0 if a0 >= 0 else -1.0)      # half away from zero
            if last in ('floor', 'ceil', 'trunc'):
                return float(getattr(math, last)(a0))
            if last == 'fract':
                return a0 - float(math.trunc(a0))
            if last == 'sqrt':
                return math.sqrt(a0) if a0 >= 0 else float('nan')
            if last in ('powi', 'powf'):
                return float(a0 ** b)
            if last in ('min', 'max'):
                return min(a0, b) if last == 'min' else max(a0, b)
            if last in ('is_finite', 'is_infinite'):
                return last == 'is_finite'
            if last in ('is_sign_negative', 'is_sign_positive'):
                return (math.copysign(1.0, a0) < 0) == (last == 'is_sign_negative')
            if last == 'signum':
                return math.copysign(1.0, a0)
            if last == 'clamp':
                return min(max(a0, b), d(args[2]))
            raise Unsupported('f64::' + last)
        if isinstance(a0, float) and last in ('is_nan', 'recip', 'abs'):
            return {'is_nan': a0 != a0, 'recip': (1.0 / a0) if a0 else float('inf'), 'abs': abs(a0)}[last]
        if isinstance(a0, int) and not isinstance(a0, bool) and last in ('saturating_sub', 'wrapping_sub', 'checked_sub', 'saturating_add', 'checked_add', 'min', 'max', 'pow'):
            b = d(args[1])
            if last == 'saturating_sub':
                return max(0, a0 - b)
            if last == 'checked_sub':
                return Some(a0 - b) if a0 >= b else NONE
            if last in ('saturating_add', ):
                return a0 + b
            if last == 'checked_add':
                return Some(a0 + b)
            if last == 'min':
                return min(a0, b)
            if last == 'max':
                return max(a0, b)
            if last == 'pow':
                return a0 ** b
        return NotImplemented

    # -- more of std, checked against compiled Rust by tools/vmprobe (conformance probes) --------------------------------
    def display(self, v, debug=False):
        v = self.deref(v)
        if isinstance(v, bool):
            return 'true' if v else 'false'
        if isinstance(v, str):
            if debug:
                return rust_debug_str(v) if len(v) != 1 or True else v
            return v
        if isinstance(v, int):
            return str(v)
        if isinstance(v, float):
            return fmt_float(v, debug)
        if v == () and debug:
            return '()'
        if isinstance(v, Iter) and not debug and all(isinstance(x, str) and len(x) == 1 for x in v.rest()):
            return ''.join(v.rest())          # char::to_uppercase() / to_lowercase() are Display
        if isinstance(v, Enum) and (v.adt or '').startswith('alloc::borrow::Cow'):
            return self.display(v.payload[0], debug)
        if debug and isinstance(v, Enum) and v.variant in ('Some', 'None', 'Ok', 'Err'):
            return v.variant + ('(%s)' % ', '.join(self.display(x, True) for x in v.payload) if v.payload else '')
        if debug and isinstance(v, (Seq, Slice)):
            return '[%s]' % ', '.join(self.display(x, True) for x in v.items)
        if debug and isinstance(v, tuple):
            return '(%s%s)' % (', '.join(self.display(x, True) for x in v), ',' if len(v) == 1 else '')
        if isinstance(v, Struct):
            tr = 'core::fmt::Debug' if debug else 'core::fmt::Display'
            imp = self.find_impl(v.name, tr, 'fmt')
            if imp:
                self.heap_counter = getattr(self, 'heap_counter', 0) + 1
                key = '$fmt%d' % self.heap_counter
                self.heap[key] = ''
                self.run(self.facts.mir_body(imp), [v, Ref('heap', key)])
                return self.heap.pop(key)
        if debug and isinstance(v, Enum):
            imp = self.find_impl((v.adt or '').split('::')[-1], 'core::fmt::Debug', 'fmt') if v.adt else None
            if imp:
                self.heap_counter = getattr(self, 'heap_counter', 0) + 1
                key = '$fmt%d' % self.heap_counter
                self.heap[key] = ''
                self.run(self.facts.mir_body(imp), [v, Ref('heap', key)])
                return self.heap.pop(key)
            if (v.adt or '').startswith('core::'):
                return v.variant + ('(%s)' % ', '.join(self.display(x, True) for x in v.payload) if v.payload else '')
        raise Unsupported('%s of %r' % ('Debug' if debug else 'Display', v))

    def _spec(self, txt, opts, v):
        """Apply width / fill / alignment / sign / zero padding / precision of a format placeholder."""
        g = lambda k: re.search(k + r': ([^,}]+(?:\([^)]*\))?\)?)', opts)       # noqa: E731
        def num(k):
            m_ = re.search(k + r': Some\(Literal\((\d+)\)\)', opts)
            if m_:
                return int(m_.group(1))
            if re.search(k + r': Some\(', opts):
                raise Unsupported('format %s taken from an argument' % k)
            return None
        width, prec = num('width'), num('precision')
        v = self.deref(v)
        if prec is not None:
            if isinstance(v, float):
                from decimal import Decimal, ROUND_HALF_EVEN
                txt = format(Decimal(v).quantize(Decimal(1).scaleb(-prec), rounding=ROUND_HALF_EVEN), 'f') if v == v and abs(v) != float('inf') else txt
            elif isinstance(v, str):
                txt = txt[:prec]
        if 'sign: Some(Plus)' in opts and isinstance(v, (int, float)) and not isinstance(v, bool) and not txt.startswith('-'):
            txt = '+' + txt
        if 'alternate: true' in opts or 'debug_hex: Some' in opts:
            raise Unsupported('format flag # / x?')
        if width is None or len(txt) >= width:
            return txt
        pad = width - len(txt)
        if 'zero_pad: true' in opts and isinstance(v, (int, float)) and not isinstance(v, bool):
            sign = txt[0] if txt[:1] in '+-' else ''
            return sign + '0' * pad + txt[len(sign):]
        m_ = re.search(r"fill: Some\('(.)'\)", opts)
        fill = m_.group(1) if m_ else ' '
        al = re.search(r'alignment: Some\((\w+)\)', opts)
        al = al.group(1) if al else ('Right' if isinstance(v, (int, float)) and not isinstance(v, bool) else 'Left')
        if al == 'Left':
            return txt + fill * pad
        if al == 'Right':
            return fill * pad + txt
        return fill * (pad // 2) + txt + fill * (pad - pad // 2)

    def render_format(self, fa, vals):
        """The text of a format_args! whose template is `fa` (pre-lowering AST) and whose run-time arguments are `vals`.
        rustc inlines literal arguments of plain `{}` placeholders into the template and drops them from the argument array."""
        lit_re = re.compile(r'^(?:"((?:[^"\\\\]|\\\\.)*)"|(\d[\d_]*)(?:[ui](?:8|16|32|64|128|size))?)$')
        n_args = len(fa['args'])
        inlined = {}
        for i, a in enumerate(fa['args']):
            m_ = lit_re.match(a['expr'].strip())
            uses = [pc for pc in fa['pieces'] if pc.get('arg') == i]
            if m_ and uses and all(pc.get('trait') == 'Display' and pc.get('plain') for pc in uses):
                inlined[i] = rust_str('"%s"' % m_.group(1)) if m_.group(1) is not None else str(int(m_.group(2).replace('_', '')))
        remaining = [i for i in range(n_args) if i not in inlined]
        if len(remaining) != len(vals):
            # older / newer lowering: fall back to "nothing inlined" when that fits
            if n_args == len(vals):
                inlined, remaining = {}, list(range(n_args))
            else:
                raise Unsupported('format! with %d template arguments but %d run-time arguments' % (n_args, len(vals)))
        # the run-time array: the arguments themselves when each is used exactly once and in order, else one entry per distinct
        # (argument, trait) pair in order of first use in the template
        uses = []
        for pc in fa['pieces']:
            if 'lit' not in pc and pc['arg'] not in inlined and (pc['arg'], pc.get('trait')) not in uses:
                uses.append((pc['arg'], pc.get('trait')))
        in_order = [u[0] for u in uses] == remaining
        if in_order or len(uses) != len(vals):
            slot = {(i, None): k for k, i in enumerate(remaining)}
            key_of = lambda pc: (pc['arg'], None)          # noqa: E731
        else:
            slot = {u: k for k, u in enumerate(uses)}
            key_of = lambda pc: (pc['arg'], pc.get('trait'))   # noqa: E731
        out = ''
        for pc in fa['pieces']:
            if 'lit' in pc:
                out += pc['lit']
                continue
            i = pc['arg']
            if i in inlined:
                out += inlined[i]
                continue
            if pc.get('trait') not in ('Display', 'Debug') or key_of(pc) not in slot:
                raise Unsupported('format placeholder %r' % (pc,))
            v = vals[slot[key_of(pc)]]
            txt = self.display(v, pc['trait'] == 'Debug')
            if not pc.get('plain'):
                if 'opts' not in pc:
                    raise Unsupported('format placeholder with options (facts lack them)')
                txt = self._spec(txt, pc['opts'], v)
            out += txt
        return out

    def _std_extra(self, name, callee, args, t, a0, last):
        d = self.deref
        callee = callee or ''
        if name in ('ToString::to_string', 'SpecToString::spec_to_string') and not isinstance(a0, str):
            return self.display(a0)
        if name in ('From::from', 'Into::into', 'TryFrom::try_from', 'TryInto::try_into') and len(args) == 1 and isinstance(a0, (bool, int, float, str)):
            m_ = re.match(r'^<(.+?) as core::convert::(?:Try)?(From|Into)<(.+)>>::\w+$', callee)
            ga_ = [x.strip() for x in ((t or {}).get('gargs', '') if isinstance(t, dict) else '').strip('[]').split(',')]
            if not m_ and len(ga_) == 2 and all(re.match(r'^&?[\w:]+$', x) for x in ga_):
                m_ = True
                dst, src = (ga_[0], ga_[1]) if 'From' in name else (ga_[1], ga_[0])
            elif m_:
                dst, src = (m_.group(1), m_.group(3)) if m_.group(2) == 'From' else (m_.group(3), m_.group(1))
            if m_:
                dst, src = dst.strip().lstrip('&'), src.strip().lstrip('&')
                v_ = a0
                if isinstance(v_, str) and len(v_) == 1 and src == 'char' and (int_range(dst) or dst in ('f64', 'f32')):
                    v_ = ord(v_)
                if isinstance(v_, bool) and (int_range(dst) or dst in ('f64', 'f32')):
                    v_ = int(v_)
                conv = NotImplemented
                if isinstance(v_, int) and not isinstance(v_, bool) and dst == 'char':
                    conv = chr(v_) if (0 <= v_ < 0xD800 or 0xE000 <= v_ <= 0x10FFFF) else None
                elif isinstance(v_, int) and not isinstance(v_, bool) and int_range(dst):
                    lo_, hi_ = int_range(dst)
                    conv = v_ if lo_ <= v_ <= hi_ else None
                elif isinstance(v_, (int, float)) and not isinstance(v_, bool) and dst in ('f64', 'f32'):
                    conv = float(v_)
                if conv is not NotImplemented:
                    if name.startswith('Try'):
                        return Enum('core::result::Result', 'Ok', [conv]) if conv is not None else Enum('core::result::Result', 'Err', ['TryFromIntError'])
                    if conv is None:
                        raise Unsupported('lossy From conversion %s -> %s' % (src, dst))
                    return conv
        if callee in ('core::char::methods::<impl char>::from_u32', 'core::char::from_u32', 'core::char::convert::from_u32') and isinstance(a0, int):
            return Some(chr(a0)) if (0 <= a0 < 0xD800 or 0xE000 <= a0 <= 0x10FFFF) else NONE
        if callee in ('core::char::methods::<impl char>::from_digit', 'core::char::from_digit', 'core::char::convert::from_digit') and isinstance(a0, int):
            radix = d(args[1])
            return Some('0123456789abcdefghijklmnopqrstuvwxyz'[a0]) if a0 < radix else NONE
        if name.startswith('Formatter::debug_') and isinstance(a0, str) and name.endswith('_finish'):
            vals = [d(x) for x in args[1:]]
            nm = vals[0]
            if 'debug_tuple' in name:
                fields = vals[1:]
                if name.endswith('fields_finish'):
                    fields = list(d(vals[1]).items)
                txt = nm + ('(%s)' % ', '.join(self.display(x, True) for x in fields) if fields else '')
            else:
                if name.endswith('fields_finish'):
                    names_, values_ = [d(x) for x in d(vals[1]).items], list(d(vals[2]).items)
                else:
                    rest_ = vals[1:]
                    names_, values_ = rest_[0::2], rest_[1::2]
                txt = '%s { %s }' % (nm, ', '.join('%s: %s' % (k_, self.display(v_, True)) for k_, v_ in zip(names_, values_))) if names_ else nm
            self.store(args[0], a0 + txt)
            return Enum('core::result::Result', 'Ok', [()])
        if name in ('Display::fmt', 'Debug::fmt') and len(args) == 2 and isinstance(d(args[1]), str) and isinstance(a0, (str, int, float, bool)):
            self.store(args[1], d(args[1]) + self.display(a0, name == 'Debug::fmt'))
            return Enum('core::result::Result', 'Ok', [()])
        if name in ('PartialEq::eq', 'PartialEq::ne') and len(args) == 2 and isinstance(a0, (Struct, Enum, Seq, Slice, tuple)):
            b0 = d(args[1])
            if isinstance(b0, (Struct, Enum, Seq, Slice, tuple)):
                return (self._norm(a0) == self._norm(b0)) == (last == 'eq')
        if name == 'Clone::clone' and isinstance(a0, Iter):
            return copy.deepcopy(a0)
        if isinstance(a0, Enum) and (a0.adt or '').startswith('alloc::borrow::Cow'):
            inner = a0.payload[0]
            if name in ('Deref::deref', 'AsRef::as_ref', 'Borrow::borrow'):
                return inner
            if last in ('into_owned', 'to_string', 'into_string'):
                return d(inner)
            if last == 'to_mut':
                if a0.variant == 'Borrowed':
                    self.store(args[0], Enum(a0.adt, 'Owned', [d(inner)]))
                r0 = args[0]
                return Ref(r0.kind, r0.key, r0.path + (0,)) if isinstance(r0, Ref) else inner
            if last in ('is_borrowed', 'is_owned'):
                return (a0.variant == 'Borrowed') == (last == 'is_borrowed')
            if name in ('PartialEq::eq', 'PartialEq::ne'):
                b_ = d(args[1])
                if isinstance(b_, Enum) and (b_.adt or '').startswith('alloc::borrow::Cow'):
                    b_ = d(b_.payload[0])
                return (self._norm(d(inner)) == self._norm(b_)) == (last == 'eq')
            if name == 'Clone::clone':
                return Enum(a0.adt, a0.variant, [d(inner)])
        if name in ('From::from', 'Into::into') and len(args) == 1 and 'alloc::borrow::Cow' in (callee + ((t or {}).get('gargs', '') if isinstance(t, dict) else '')).split(' as ')[0].split(',')[0]:
            return Enum('alloc::borrow::Cow', 'Borrowed' if isinstance(args[0], (Ref, _Val)) or isinstance(a0, str) and "&" in ((t or {}).get('gargs', '') if isinstance(t, dict) else '') else 'Owned', [args[0]])
        if name in ('Rc::new', 'Arc::new') and len(args) == 1:
            cell = Seq([args[0]])
            return Struct('Rc', {'cell': Ref('obj', cell, (0,)), 'count': Seq([1])})
        if isinstance(a0, Struct) and a0.name == 'Rc':
            if name in ('Deref::deref', 'AsRef::as_ref', 'Borrow::borrow', 'Rc::as_ref', 'Arc::as_ref'):
                return a0.fields['cell']
            if name in ('Clone::clone', 'Rc::clone', 'Arc::clone'):
                a0.fields['count'].items[0] += 1
                return Struct('Rc', {'cell': a0.fields['cell'], 'count': a0.fields['count']})
            if last in ('strong_count',):
                return a0.fields['count'].items[0]
        if name in ('Box::new',) and len(args) == 1:
            cell = Seq([args[0]])
            return Struct('Box', {'0': Struct('Unique', {'0': Struct('NonNull', {'0': Ref('obj', cell, (0,))})})})
        if name in ('Deref::deref', 'DerefMut::deref_mut', 'AsRef::as_ref', 'AsMut::as_mut', 'Box::as_ref', 'Box::as_mut', 'Borrow::borrow', 'BorrowMut::borrow_mut') \
                and isinstance(a0, Struct) and a0.name == 'Box':
            return a0.fields['0'].fields['0'].fields['0']
        if name.startswith('Ordering::') and isinstance(a0, Enum) and a0.variant in ('Less', 'Equal', 'Greater'):
            v_ = {'Less': -1, 'Equal': 0, 'Greater': 1}[a0.variant]
            tbl = {'is_eq': v_ == 0, 'is_ne': v_ != 0, 'is_lt': v_ < 0, 'is_gt': v_ > 0, 'is_le': v_ <= 0, 'is_ge': v_ >= 0}
            if last in tbl:
                return tbl[last]
            if last == 'reverse':
                return Enum(a0.adt, {'Less': 'Greater', 'Equal': 'Equal', 'Greater': 'Less'}[a0.variant])
            if last == 'then':
                return a0 if v_ != 0 else d(args[1])
            if last == 'then_with':
                return a0 if v_ != 0 else d(self.call_value(args[1], []))
        if last == 'unwrap_or_default' and isinstance(a0, Enum) and a0.variant in ('Some', 'Ok'):
            return a0.payload[0]
        if isinstance(a0, Seq) and name.startswith('VecDeque::') and last in ('rotate_left', 'rotate_right', 'front_mut', 'back_mut', 'get_mut', 'get', 'iter_mut', 'swap'):
            n_ = len(a0.items)
            if last in ('rotate_left', 'rotate_right'):
                k = d(args[1])
                if k > n_:
                    raise Panic('assertion failed: n <= self.len()')
                k = k if last == 'rotate_left' else n_ - k
                a0.items[:] = a0.items[k:] + a0.items[:k]
                return ()
            if last in ('front_mut', 'back_mut'):
                return Some(Ref('elem', (a0, 0 if last == 'front_mut' else n_ - 1))) if n_ else NONE
            if last == 'get':
                i = d(args[1])
                return Some(Ref('elem', (a0, i))) if i < n_ else NONE
            if last == 'get_mut':
                i = d(args[1])
                return Some(Ref('elem', (a0, i))) if i < n_ else NONE
            if last == 'iter_mut':
                return Iter([Ref('elem', (a0, i)) for i in range(n_)])
            if last == 'swap':
                i, k = d(args[1]), d(args[2])
                if i >= n_ or k >= n_:
                    raise Panic('assertion failed: i < self.len()')
                a0.items[i], a0.items[k] = a0.items[k], a0.items[i]
                return ()
        if isinstance(a0, str) and name in ('String::drain',):
            r = d(args[1])
            b_ = a0.encode('utf-8')
            lo, hi = r.fields.get('start', 0), r.fields.get('end', len(b_))
            if r.name in ('RangeInclusive', 'RangeToInclusive'):
                hi += 1
            if lo > hi or hi > len(b_):
                raise Panic('String::drain range out of bounds')
            try:
                head, mid, tail = b_[:lo].decode('utf-8'), b_[lo:hi].decode('utf-8'), b_[hi:].decode('utf-8')
            except UnicodeDecodeError:
                raise Panic('String::drain not on a char boundary')
            self.store(args[0], head + tail)
            return Iter(list(mid))
        if callee == 'alloc::vec::from_elem' and len(args) == 2:
            n_ = d(args[1])
            if n_ > 1 << 16:
                raise Unsupported('vec![x; %d]' % n_)
            x = d(args[0])
            return Seq([copy.deepcopy(x) if isinstance(x, (Struct, Enum, Seq)) else x for _ in range(n_)])
        if name == 'array::map' and isinstance(a0, (Seq, Slice)):
            return Seq([self.call_value(args[1], [x]) for x in a0.items])
        if last in ('join', 'concat') and isinstance(a0, (Seq, Slice)) and (callee.startswith('alloc::slice::<impl [') or callee.startswith('alloc::str::')):
            parts = [d(x) for x in a0.items]
            sep = d(args[1]) if last == 'join' else None
            if all(isinstance(x, str) for x in parts) and (sep is None or isinstance(sep, str)):
                return (sep or '').join(parts)
            if all(isinstance(x, (Seq, Slice)) for x in parts):
                out = []
                for i, x in enumerate(parts):
                    if i and sep is not None:
                        out.extend(list(sep.items) if isinstance(sep, (Seq, Slice)) else [sep])
                    out.extend(x.items)
                return Seq(out)
        # --- maps and sets
        m_c = None if 'collections::' not in callee else re.match(r'^(?:std|alloc)::collections::(?:hash::(map|set)::Hash(?:Map|Set)|btree::(map|set)::BTree(?:Map|Set))(?:::<.*>|<.*>)?::(\w+)$', callee)
        if m_c and last in ('new', 'with_capacity', 'from', 'default') and not isinstance(a0, Map):
            mp = Map(sorted_=m_c.group(2) is not None, is_set=(m_c.group(1) or m_c.group(2)) == 'set')
            if last == 'from':
                self._map_extend(mp, args[0])
            return mp
        if name in ('From::from', 'FromIterator::from_iter', 'Default::default', 'Into::into') and not isinstance(a0, Map):
            ga_ = ((t or {}).get('gargs', '') if isinstance(t, dict) else '').lstrip('[')
            self_ty = callee[1:] if callee.startswith('<') else ga_
            if name == 'Into::into':
                self_ty = ga_.split(', ', 1)[1] if ', ' in ga_ else ''
            m_s = re.match(r'^(?:std|alloc)::collections::(hash|btree)::(map|set)::(?:Hash|BTree)(?:Map|Set)\b', self_ty)
            if m_s:
                mp = Map(sorted_=m_s.group(1) == 'btree', is_set=m_s.group(2) == 'set')
                if args:
                    self._map_extend(mp, args[0])
                return mp
        if isinstance(a0, Map):
            mp = a0
            nk = lambda k: self._norm(k)        # noqa: E731
            if last in ('len', 'is_empty'):
                return len(mp.d) if last == 'len' else not mp.d
            if last in ('contains_key', 'contains'):
                return nk(args[1]) in mp.d
            if last == 'get':
                e = mp.d.get(nk(args[1]))
                return NONE if e is None else Some(e[0] if mp.is_set else e[1])
            if last == 'get_key_value':
                e = mp.d.get(nk(args[1]))
                return NONE if e is None else Some((e[0], e[1]))
            if last == 'insert':
                k = nk(args[1])
                old_ = mp.d.get(k)
                if mp.is_set:
                    if old_ is None:
                        mp.d[k] = (args[1], ())
                    return old_ is None
                mp.d[k] = ((old_[0] if old_ else args[1]), args[2])
                return NONE if old_ is None else Some(old_[1])
            if last == 'remove':
                e = mp.d.pop(nk(args[1]), None)
                if mp.is_set:
                    return e is not None
                return NONE if e is None else Some(e[1])
            if last == 'clear':
                mp.d.clear()
                return ()
            if last in ('extend', 'Extend::extend'):
                self._map_extend(mp, args[1])
                return ()
            if last in ('clone',):
                c = Map(mp.sorted, mp.is_set)
                c.d = dict(mp.d)
                return c
            if last in ('iter', 'into_iter', 'keys', 'values', 'into_keys', 'into_values', 'drain', 'first', 'last', 'first_key_value', 'last_key_value', 'range',
                        'pop_first', 'pop_last'):
                if not mp.sorted and len(mp.d) > 1:
                    raise Unsupported('iteration over a hash %s: the order differs from process to process' % ('set' if mp.is_set else 'map'))
                ents = sorted(mp.d.values(), key=lambda e: self._sort_key(self.deref(e[0])))
                if last in ('first', 'last', 'first_key_value', 'last_key_value', 'pop_first', 'pop_last'):
                    if not ents:
                        return NONE
                    e = ents[0 if 'first' in last else -1]
                    if last.startswith('pop'):
                        mp.d.pop(nk(e[0]))
                    return Some(e[0] if mp.is_set else (e[0], e[1]))
                if last == 'range':
                    raise Unsupported('BTree range')
                if last == 'drain':
                    mp.d.clear()
                if mp.is_set or last in ('keys', 'into_keys'):
                    return Iter([e[0] for e in ents])
                if last in ('values', 'into_values'):
                    return Iter([e[1] for e in ents])
                return Iter([(e[0], e[1]) for e in ents])
            if last == 'entry':
                raise Unsupported('map entry API')
            if last == 'reserve' or last == 'shrink_to_fit':
                return ()
        # --- write-once globals: LazyLock::new(f) in a static, OnceLock + get_or_init(f)
        if name in ('LazyLock::new', 'LazyCell::new') and len(args) == 1:
            return Struct('LazyLock', {'init': args[0], 'value': None, 'done': False})
        if name in ('OnceLock::new', 'OnceCell::new') and not args:
            return Struct('OnceLock', {'value': None, 'done': False})
        if isinstance(a0, Struct) and a0.name == 'LazyLock' and last in ('force', 'deref'):
            if not a0.fields['done']:
                a0.fields['value'] = self.call_value(a0.fields['init'], [])
                a0.fields['done'] = True
            return Ref('obj', a0, ('value',))
        if isinstance(a0, Struct) and a0.name == 'OnceLock' and last in ('get_or_init', 'get', 'set'):
            if last == 'get':
                return Some(Ref('obj', a0, ('value',))) if a0.fields['done'] else NONE
            if last == 'set':
                if a0.fields['done']:
                    return Enum('core::result::Result', 'Err', [args[1]])
                a0.fields['value'], a0.fields['done'] = args[1], True
                return Enum('core::result::Result', 'Ok', [()])
            if not a0.fields['done']:
                a0.fields['value'] = self.call_value(args[1], [])
                a0.fields['done'] = True
            return Ref('obj', a0, ('value',))
        if name in ('RefCell::new', 'Cell::new') and len(args) == 1:
            return Struct('RefCell', {'value': args[0]})
        if isinstance(a0, Struct) and a0.name == 'RefCell' and last in ('borrow', 'borrow_mut', 'get_mut', 'into_inner', 'get', 'set', 'take', 'replace'):
            if last in ('borrow', 'borrow_mut', 'get_mut'):
                return Ref('obj', a0, ('value',))
            if last in ('into_inner', 'get'):
                return a0.fields['value']
            if last == 'set':
                a0.fields['value'] = args[1]
                return ()
            if last == 'replace':
                old_ = a0.fields['value']
                a0.fields['value'] = args[1]
                return old_
        if name in ('Extend::extend', 'Vec::extend', 'VecDeque::extend') and isinstance(a0, Seq) and len(args) == 2:
            a0.items.extend(self._as_iter(args[1]).drain())
            return ()
        # operator traits called as functions (`a + &b` on references, String + &str)
        OPS = _OPS
        if name in OPS and len(args) == 2:
            a, b = d(args[0]), d(args[1])
            if isinstance(a, str) and isinstance(b, str) and name == 'Add::add':
                return a + b
            if isinstance(a, (int, float)) and isinstance(b, (int, float)):
                m_ = re.match(r'^<&?(?:mut )?(\w+) as ', callee)
                ty = m_.group(1) if m_ else None
                r = self.binop(OPS[name], a, b)
                rg = int_range(ty)
                if rg and isinstance(r, int) and not isinstance(r, bool) and not (rg[0] <= r <= rg[1]):
                    if name in ('Shl::shl', 'Shr::shr'):
                        return wrap_int(r, ty)
                    raise Panic('attempt to %s with overflow' % last)
                return r
        ASSIGN = _ASSIGN
        if name in ASSIGN and len(args) == 2 and isinstance(a0, (int, float)) and not isinstance(a0, bool) and isinstance(d(args[1]), (int, float)):
            m_ = re.match(r'^<&?(?:mut )?(\w+) as ', callee)
            r = self.binop(ASSIGN[name], a0, d(args[1]))
            rg = int_range(m_.group(1) if m_ else None)
            if rg and isinstance(r, int) and not (rg[0] <= r <= rg[1]):
                raise Panic('attempt to %s with overflow' % last)
            self.store(args[0], r)
            return ()
        if name in ('Neg::neg', 'Not::not') and len(args) == 1 and isinstance(a0, (int, float, bool)):
            if name == 'Not::not':
                if isinstance(a0, bool):
                    return not a0
                m_ = re.match(r'^<&?(?:mut )?(\w+) as ', callee)
                rg = int_range(m_.group(1) if m_ else 'u64')
                return (rg[1] - a0) if rg and rg[0] == 0 else ~a0
            return -a0
        # integer methods, typed by the impl block named in the callee: core::num::<impl u8>::checked_add
        m_ = re.match(r'^core::num::<impl (\w+)>::(\w+)$', callee) if callee.startswith('core::num::<impl') else None
        if m_ and isinstance(a0, int) and not isinstance(a0, bool) and int_range(m_.group(1)):
            ty, meth = m_.group(1), m_.group(2)
            lo, hi = int_range(ty)
            b = d(args[1]) if len(args) > 1 else None
            fit = lambda v: lo <= v <= hi                         # noqa: E731
            base = {'add': lambda: a0 + b, 'sub': lambda: a0 - b, 'mul': lambda: a0 * b, 'pow': lambda: a0 ** b,
                    'div': lambda: None if b == 0 else (abs(a0) // abs(b)) * (1 if (a0 < 0) == (b < 0) else -1),
                    'rem': lambda: None if b == 0 else abs(a0) % abs(b) * (1 if a0 >= 0 else -1), 'neg': lambda: -a0}
            for pre in ('checked_', 'saturating_', 'wrapping_', 'overflowing_', 'strict_', 'unchecked_'):
                if meth.startswith(pre) and meth[len(pre):] in base:
                    v = base[meth[len(pre):]]()
                    if pre == 'checked_':
                        return NONE if v is None or not fit(v) else Some(v)
                    if v is None:
                        raise Panic('attempt to divide by zero')
                    if pre == 'saturating_':
                        return min(max(v, lo), hi)
                    if pre == 'wrapping_':
                        return wrap_int(v, ty)
                    if pre == 'overflowing_':
                        return (wrap_int(v, ty), not fit(v))
                    if not fit(v):
                        raise Panic('attempt to %s with overflow' % meth)
                    return v
            if meth == 'pow':
                v = a0 ** b
                if not fit(v):
                    raise Panic('attempt to multiply with overflow')
                return v
            if meth == 'unsigned_abs':
                return abs(a0)
            if meth == 'abs_diff':
                return abs(a0 - b)
            if meth == 'abs':
                return abs(a0)
            if meth == 'signum':
                return (a0 > 0) - (a0 < 0)
            if meth == 'count_ones':
                return bin(a0 & ((1 << (hi - lo).bit_length()) - 1)).count('1')
            if meth in ('leading_zeros', 'trailing_zeros'):
                bits = (hi - lo).bit_length()
                u = a0 & ((1 << bits) - 1)
                if meth == 'leading_zeros':
                    return bits - u.bit_length()
                return bits if u == 0 else (u & -u).bit_length() - 1
            if meth == 'is_power_of_two':
                return a0 > 0 and a0 & (a0 - 1) == 0
            if meth == 'next_power_of_two':
                return 1 if a0 <= 1 else 1 << (a0 - 1).bit_length()
            if meth == 'div_ceil':
                if b == 0:
                    raise Panic('attempt to divide by zero')
                return -(-a0 // b)
            if meth == 'rem_euclid':
                if b == 0:
                    raise Panic('attempt to calculate the remainder with a divisor of zero')
                return a0 % abs(b)
            if meth == 'div_euclid':
                if b == 0:
                    raise Panic('attempt to divide by zero')
                q = a0 // b if b > 0 else -(a0 // -b)
                return q
            if meth == 'isqrt':
                import math
                return math.isqrt(a0)
            if meth == 'is_multiple_of':
                return a0 == 0 if b == 0 else a0 % b == 0
            if meth in ('min_value', 'max_value'):
                return lo if meth == 'min_value' else hi
            if ty == 'u8':
                c = chr(a0)
                if meth in CHAR_PRED and meth.startswith('is_ascii'):
                    return a0 < 128 and CHAR_PRED[meth](c)
                if meth == 'is_ascii':
                    return a0 < 128
                extra_ = {'is_ascii_uppercase': 65 <= a0 <= 90, 'is_ascii_lowercase': 97 <= a0 <= 122, 'is_ascii_graphic': 33 <= a0 <= 126,
                          'is_ascii_control': a0 < 32 or a0 == 127, 'is_ascii_hexdigit': a0 < 128 and c in '0123456789abcdefABCDEF'}
                if meth in extra_:
                    return extra_[meth]
                if meth in ('to_ascii_uppercase', 'to_ascii_lowercase'):
                    return ord(c.upper() if meth.endswith('uppercase') else c.lower()) if a0 < 128 else a0
                if meth == 'eq_ignore_ascii_case':
                    return ascii_lower(c) == ascii_lower(chr(b))
        if isinstance(a0, int) and not isinstance(a0, bool) and name in ('Ord::clamp', 'cmp::clamp'):
            lo_, hi_ = d(args[1]), d(args[2])
            if lo_ > hi_:
                raise Panic('assertion failed: min <= max')
            return min(max(a0, lo_), hi_)
        if name == 'array::from_fn' or callee == 'core::array::from_fn':
            m2 = re.search(r'(\d+)_usize', (t or {}).get('gargs', '') if isinstance(t, dict) else '')
            if not m2:
                raise Unsupported('array::from_fn of unknown length')
            return Seq([self.call_value(args[0], [i]) for i in range(int(m2.group(1)))])
        if callee.endswith('successors::successors'):
            f_ = args[1]

            def g_succ():
                cur = d(args[0])
                while not is_none(cur):
                    x = cur.payload[0]
                    yield x
                    cur = d(self.call_value(f_, [_Val(x)]))
            return Iter(src=g_succ())
        if callee.endswith('from_fn::from_fn'):
            f_ = args[0]

            def g_ff():
                while True:
                    r = d(self.call_value(f_, []))
                    if is_none(r):
                        return
                    yield r.payload[0]
            return Iter(src=g_ff())
        if name in ('String::from_utf8_lossy', 'String::from_utf8') and isinstance(a0, (Seq, Slice)):
            raw = bytes(a0.items)
            if name == 'String::from_utf8':
                try:
                    return Enum('core::result::Result', 'Ok', [raw.decode('utf-8')])
                except UnicodeDecodeError:
                    return Enum('core::result::Result', 'Err', ['FromUtf8Error'])
            return raw.decode('utf-8', errors='replace')
        if last == 'unwrap_or_default' and isinstance(a0, Enum) and a0.variant in ('None', 'Err'):
            ga = ((t or {}).get('gargs', '') if isinstance(t, dict) else '').strip('[] ')
            ty = ga.split(',')[0].strip()
            return self._default_of(ty)
        if last in ('is_some_and', 'is_none_or', 'is_ok_and', 'is_err_and') and isinstance(a0, Enum):
            has = a0.variant in (('Some', 'Ok') if last != 'is_err_and' else ('Err',))
            if last == 'is_none_or':
                return (not has) or bool(self.call_value(args[1], [a0.payload[0]]))
            return has and bool(self.call_value(args[1], [a0.payload[0]]))
        if name == 'intrinsics::discriminant_value' and isinstance(a0, Enum):
            a = self.facts.adts.get(a0.adt)
            names = [x['name'] for x in a['variants']] if a else ['None', 'Some'] if a0.variant in ('None', 'Some') else ['Ok', 'Err']
            return names.index(a0.variant)
        if isinstance(a0, str) and len(a0) == 1 and 'char' in callee and last == 'is_digit':
            radix = d(args[1])
            return a0.lower() in '0123456789abcdefghijklmnopqrstuvwxyz'[:radix]
        if isinstance(a0, str) and last == 'eq_ignore_ascii_case' and isinstance(d(args[1]), str):
            return ascii_lower(a0) == ascii_lower(d(args[1]))
        if isinstance(a0, str) and len(a0) == 1 and 'char' in callee and last in ('to_string',):
            return a0
        if isinstance(a0, str) and len(a0) == 1 and 'char' in callee and last in ('is_ascii_hexdigit', 'is_ascii_uppercase', 'is_ascii_lowercase', 'is_ascii_graphic', 'is_ascii_control'):
            o_ = ord(a0)
            return {'is_ascii_hexdigit': a0 in '0123456789abcdefABCDEF', 'is_ascii_uppercase': 'A' <= a0 <= 'Z', 'is_ascii_lowercase': 'a' <= a0 <= 'z',
                    'is_ascii_graphic': 33 <= o_ <= 126, 'is_ascii_control': o_ < 32 or o_ == 127}[last]
        # --- more of str
        if isinstance(a0, str) and name.split('::')[0] in ('str', 'String') and last in ('split_once', 'rsplit_once', 'rsplit', 'splitn', 'rsplitn', 'rmatches',
                                                                                           'match_indices', 'split_inclusive', 'rsplit_terminator', 'char_indices_rev'):
            s_ = a0
            pi = 2 if last in ('splitn', 'rsplitn') else 1
            pv = d(args[pi])
            if isinstance(pv, (Seq, Slice)):
                pats = [d(x) for x in pv.items]
            elif isinstance(pv, (Fn, Closure)):
                pats = None
            else:
                pats = [pv]
            if pats is not None and not all(isinstance(x, str) and x for x in pats):
                raise Unsupported('pattern %r' % (pv,))

            def m_at(i):
                if pats is None:
                    return 1 if i < len(s_) and self.call_value(pv, [s_[i]]) else 0
                for x in sorted(pats, key=len, reverse=True):
                    if s_.startswith(x, i):
                        return len(x)
                return 0
            # all non-overlapping matches, left to right: [(start, len)]
            ms, i = [], 0
            while i < len(s_):
                k = m_at(i)
                if k:
                    ms.append((i, k))
                    i += k
                else:
                    i += 1
            if last == 'rmatches':
                return Iter([s_[a:a + k] for a, k in reversed(ms)])
            if last == 'match_indices':
                return Iter([(len(s_[:a].encode('utf-8')), s_[a:a + k]) for a, k in ms])
            if last == 'split_once':
                if not ms:
                    return NONE
                a, k = ms[0]
                return Some((s_[:a], s_[a + k:]))
            if last == 'rsplit_once':
                if not ms:
                    return NONE
                # the last match scanning from the right: for single chars / closures this is the right-most match
                if pats is not None and any(len(x) > 1 for x in pats):
                    a = max(s_.rfind(x) for x in pats)
                    k = max(len(x) for x in pats if s_.startswith(x, a))
                else:
                    a, k = ms[-1]
                return Some((s_[:a], s_[a + k:]))

            def cut(ms_):
                parts, prev = [], 0
                for a, k in ms_:
                    parts.append(s_[prev:a])
                    prev = a + k
                parts.append(s_[prev:])
                return parts
            if last == 'split_inclusive':
                parts, prev = [], 0
                for a, k in ms:
                    parts.append(s_[prev:a + k])
                    prev = a + k
                if prev < len(s_):
                    parts.append(s_[prev:])
                return Iter(parts)
            if pats is not None and any(len(x) > 1 for x in pats) and last in ('rsplit', 'rsplitn', 'rsplit_terminator'):
                raise Unsupported('reverse split with a multi-character pattern')
            if last == 'rsplit':
                return Iter(list(reversed(cut(ms))))
            if last == 'rsplit_terminator':
                parts = cut(ms)
                if parts and parts[-1] == '':
                    parts.pop()
                return Iter(list(reversed(parts)))
            if last == 'splitn':
                n_ = d(args[1])
                if n_ == 0:
                    return Iter([])
                return Iter(cut(ms[:n_ - 1]))
            if last == 'rsplitn':
                n_ = d(args[1])
                if n_ == 0:
                    return Iter([])
                keep = ms[len(ms) - (n_ - 1):] if n_ - 1 <= len(ms) and n_ > 1 else ([] if n_ == 1 else ms)
                return Iter(list(reversed(cut(keep))))
        if isinstance(a0, str) and name.split('::')[0] in ('str', 'String') and last in ('extend', 'retain', 'drain', 'remove', 'char_count', 'into_bytes', 'into_boxed_str',
                                                                                           'as_mut_str', 'capacity', 'reserve', 'shrink_to_fit', 'from_utf8_unchecked', 'trim_ascii'):
            if last == 'extend':
                self.store(args[0], a0 + ''.join(d(x) for x in self._as_iter(args[1]).drain()))
                return ()
            if last == 'retain':
                self.store(args[0], ''.join(c for c in a0 if self.call_value(args[1], [c])))
                return ()
            if last == 'remove':
                b_ = a0.encode('utf-8')
                i = d(args[1])
                try:
                    head = b_[:i].decode('utf-8')
                    tail = b_[i:].decode('utf-8')
                except UnicodeDecodeError:
                    raise Panic('String::remove not on a char boundary')
                if not tail:
                    raise Panic('cannot remove a char from the end of a string')
                self.store(args[0], head + tail[1:])
                return tail[0]
            if last == 'into_bytes':
                return Seq(list(a0.encode('utf-8')))
            if last in ('reserve', 'shrink_to_fit'):
                return ()
            if last == 'capacity':
                return len(a0.encode('utf-8'))
            if last == 'trim_ascii':
                return a0.strip(' \t\n\r\x0c')
        if name in ('Extend::extend', 'String::extend') and isinstance(a0, str):
            self.store(args[0], a0 + ''.join(d(x) for x in self._as_iter(args[1]).drain()))
            return ()
        # --- more of slices / Vec / VecDeque
        if isinstance(a0, (Seq, Slice)) and last in ('strip_prefix', 'strip_suffix', 'sort', 'sort_unstable', 'sort_by', 'sort_unstable_by', 'sort_by_key',
                                                      'sort_unstable_by_key', 'sort_by_cached_key', 'dedup', 'dedup_by_key', 'make_contiguous', 'as_slices',
                                                      'repeat', 'join', 'iter_rev', 'retain_mut', 'last_chunk', 'first_chunk', 'rchunks', 'split_off_first',
                                                      'contains_key', 'rsplit_array', 'fill_with', 'is_sorted_by_key', 'escape_ascii', 'to_ascii_lowercase',
                                                      'to_ascii_uppercase', 'eq_ignore_ascii_case', 'is_ascii', 'trim_ascii', 'rev') and \
                name.split('::')[0] in ('slice', '[T]', 'Vec', 'VecDeque', 'Join', 'array', '<impl [T]>', '<impl [u8]>', 'ascii'):
            items = [x for x in a0.items]
            base, off = (a0, 0) if isinstance(a0, Seq) else (a0.seq, a0.lo)

            def write_back(new_items):
                if isinstance(a0, Seq):
                    a0.items[:] = new_items
                else:
                    if len(new_items) != len(items):
                        raise Unsupported('length-changing operation on a sub-slice')
                    a0.seq.items[a0.lo:a0.hi] = new_items
            if last in ('strip_prefix', 'strip_suffix'):
                pv = d(args[1])
                pat = [d(x) for x in (pv.items if isinstance(pv, (Seq, Slice)) else [pv])]
                vals = [d(x) for x in items]
                n_ = len(pat)
                if last == 'strip_prefix':
                    return Some(Slice(base, off + n_, off + len(items))) if vals[:n_] == pat else NONE
                return Some(Slice(base, off, off + len(items) - n_)) if n_ <= len(vals) and vals[len(vals) - n_:] == pat else NONE
            if last in ('sort', 'sort_unstable'):
                write_back(sorted(items, key=lambda x: self._sort_key(d(x))))
                return ()
            if last in ('sort_by', 'sort_unstable_by'):
                import functools
                f_ = args[1]

                def cmp_(x, y):
                    o_ = d(self.call_value(f_, [x, y]))
                    return {'Less': -1, 'Equal': 0, 'Greater': 1}[o_.variant]
                write_back(sorted(items, key=functools.cmp_to_key(cmp_)))
                return ()
            if last in ('sort_by_key', 'sort_unstable_by_key', 'sort_by_cached_key'):
                write_back(sorted(items, key=lambda x: self._sort_key(d(self.call_value(args[1], [x])))))
                return ()
            if last == 'dedup':
                out = []
                for x in items:
                    if not out or d(out[-1]) != d(x):
                        out.append(x)
                write_back(out)
                return ()
            if last == 'dedup_by_key':
                out, keys = [], []
                for x in items:
                    k_ = d(self.call_value(args[1], [x]))
                    if not out or keys[-1] != k_:
                        out.append(x)
                        keys.append(k_)
                write_back(out)
                return ()
            if last == 'make_contiguous':
                return Slice(base, off, off + len(items))
            if last == 'as_slices':
                return (Slice(base, off, off + len(items)), Slice(base, off + len(items), off + len(items)))
            if last == 'repeat':
                return Seq(items * d(args[1]))
            if last == 'is_ascii':
                return all(d(x) < 128 for x in items)
            if last in ('to_ascii_lowercase', 'to_ascii_uppercase'):
                f2 = (lambda c: c + 32 if 65 <= c <= 90 else c) if last.endswith('lowercase') else (lambda c: c - 32 if 97 <= c <= 122 else c)
                return Seq([f2(d(x)) for x in items])
            if last == 'eq_ignore_ascii_case':
                lw = lambda v_: [c + 32 if 65 <= c <= 90 else c for c in v_]     # noqa: E731
                return lw([d(x) for x in items]) == lw([d(x) for x in d(args[1]).items])
            if last == 'fill_with':
                write_back([self.call_value(args[1], []) for _ in items])
                return ()
        return NotImplemented

    def _map_extend(self, mp, src):
        for x in self._as_iter(src).drain():
            x = self.deref(x)
            if mp.is_set:
                mp.d.setdefault(self._norm(x), (x, ()))
            else:
                k, v = x
                old_ = mp.d.get(self._norm(k))
                mp.d[self._norm(k)] = ((old_[0] if old_ else k), v)

    def _norm(self, v, depth=0):
        """A value with every reference followed, as nested plain Python data: structural equality (what derived PartialEq computes)."""
        if depth > 40:
            raise Unsupported('equality of very deep values')
        v = self.deref(v)
        if isinstance(v, Struct):
            return ('S', v.name, tuple((k, self._norm(x, depth + 1)) for k, x in v.fields.items()))
        if isinstance(v, Enum):
            return ('E', v.variant, tuple(self._norm(x, depth + 1) for x in v.payload))
        if isinstance(v, (Seq, Slice)):
            return ('L', tuple(self._norm(x, depth + 1) for x in v.items))
        if isinstance(v, tuple):
            return ('T', tuple(self._norm(x, depth + 1) for x in v))
        return v

    def _sort_key(self, v):
        if isinstance(v, Struct) and v.name == 'Reverse':
            return _Rev(self._sort_key(self.deref(list(v.fields.values())[0])))
        if isinstance(v, Enum):
            a = self.facts.adts.get(v.adt)
            names = [x['name'] for x in a['variants']] if a else ['None', 'Some', 'Ok', 'Err', 'Less', 'Equal', 'Greater']
            return (names.index(v.variant), tuple(self._sort_key(self.deref(x)) for x in v.payload))
        if isinstance(v, (Seq, Slice)):
            return tuple(self._sort_key(self.deref(x)) for x in v.items)
        if isinstance(v, tuple):
            return tuple(self._sort_key(self.deref(x)) for x in v)
        if isinstance(v, Struct):
            return tuple(self._sort_key(self.deref(x)) for x in v.fields.values())
        return v

    def _default_of(self, ty):
        ty = ty.strip()
        if ty == 'bool':
            return False
        if int_range(ty):
            return 0
        if ty in ('f64', 'f32'):
            return 0.0
        if ty in ('alloc::string::String', '&str', 'str', "&'static str") or ty.startswith("&'") and ty.endswith(' str'):
            return ''
        if ty.startswith(('alloc::vec::Vec', 'alloc::collections::vec_deque::VecDeque')):
            return Seq()
        if ty.startswith('core::option::Option'):
            return NONE
        if ty == '()':
            return ()
        if ty == 'char':
            return '\0'
        imp = [p_ for p_ in self.facts.mir if p_ == '<%s as core::default::Default>::default' % ty]
        if imp:
            return self.run(self.facts.mir_body(imp[0]), [])
        raise Unsupported('Default of ' + ty)

    def _as_iter(self, o):
        o = self.deref(o)
        if isinstance(o, Iter):
            return o
        if isinstance(o, (Seq, Slice)):
            return Iter(list(o.items))
        if isinstance(o, Enum) and o.variant in ('Some', 'None', 'Ok', 'Err'):
            return Iter(o.payload[:1] if o.variant in ('Some', 'Ok') else [])
        if isinstance(o, Struct) and o.name in ('Range', 'RangeInclusive'):
            return Iter(range(o.fields['start'], o.fields['end'] + (1 if o.name == 'RangeInclusive' else 0)))
        if isinstance(o, Repeat):
            def gen_rep():
                while True:
                    yield o.v
            return Iter(src=gen_rep())
        if isinstance(o, str):
            raise Unsupported('a string used as an iterator')
        if isinstance(o, Struct) and self.find_impl(o.name, 'core::iter::traits::iterator::Iterator', 'next'):
            return Iter(src=self._materialise_gen(o))
        raise Unsupported('not an iterator: %r' % (o,))

    def _try_ok(self, t, acc):
        """Wrap the final accumulator of try_fold / try_for_each in the closure's own return type (last generic argument)."""
        ga = ((t or {}).get('gargs', '') if isinstance(t, dict) else '').rstrip('] ')
        tail = ga.rsplit(', core::', 1)[-1] if ', core::' in ga else ga
        if 'option::Option<' in tail and 'result::Result<' not in tail.split('option::Option<')[0]:
            return Some(acc)
        if 'ControlFlow<' in tail and 'result::Result<' not in tail.split('ControlFlow<')[0] :
            return Enum('core::ops::control_flow::ControlFlow', 'Continue', [acc])
        return Enum('core::result::Result', 'Ok', [acc])

    def _iter_method(self, it, last, name, args, t):
        d = self.deref
        call = self.call_value

        def lazy(gen):
            return Iter(src=gen)
        if last == 'next':
            return it.next()
        if last in ('by_ref', 'fuse', 'peekable', 'into_iter', 'iter'):
            return args[0]
        if last in ('all', 'any'):
            pr = self._pred(args[1])
            while True:
                r = it.next()
                if is_none(r):
                    return last == 'all'
                if pr(r.payload[0]) != (last == 'all'):
                    return last == 'any'
        if last == 'enumerate':
            def g_enum():
                i = 0
                while True:
                    r = it.next()
                    if is_none(r):
                        return
                    yield (i, r.payload[0])
                    i += 1
            return lazy(g_enum())
        if last == 'rev':
            return Iter(list(reversed(it.drain())))
        if last == 'map':
            def g_map():
                while True:
                    r = it.next()
                    if is_none(r):
                        return
                    yield call(args[1], [r.payload[0]])
            return lazy(g_map())
        if last == 'filter':
            def g_filter():
                while True:
                    r = it.next()
                    if is_none(r):
                        return
                    if call(args[1], [r.payload[0]]):
                        yield r.payload[0]
            return lazy(g_filter())
        if last == 'filter_map':
            def g_fm():
                while True:
                    r = it.next()
                    if is_none(r):
                        return
                    y = call(args[1], [r.payload[0]])
                    if not is_none(y):
                        yield y.payload[0]
            return lazy(g_fm())
        if last == 'take_while':
            def g_tw():
                while True:
                    r = it.next()
                    if is_none(r) or not call(args[1], [r.payload[0]]):
                        return
                    yield r.payload[0]
            return lazy(g_tw())
        if last == 'skip_while':
            def g_sw():
                skipping = True
                while True:
                    r = it.next()
                    if is_none(r):
                        return
                    if skipping and call(args[1], [r.payload[0]]):
                        continue
                    skipping = False
                    yield r.payload[0]
            return lazy(g_sw())
        if last == 'map_while':
            def g_mw():
                while True:
                    r = it.next()
                    if is_none(r):
                        return
                    y = call(args[1], [r.payload[0]])
                    if is_none(y):
                        return
                    yield y.payload[0]
            return lazy(g_mw())
        if last == 'inspect':
            def g_insp():
                while True:
                    r = it.next()
                    if is_none(r):
                        return
                    call(args[1], [r.payload[0]])
                    yield r.payload[0]
            return lazy(g_insp())
        if last in ('flat_map', 'flatten'):
            def g_flat():
                while True:
                    r = it.next()
                    if is_none(r):
                        return
                    y = call(args[1], [r.payload[0]]) if last == 'flat_map' else r.payload[0]
                    sub = self._as_iter(y)
                    while True:
                        q = sub.next()
                        if is_none(q):
                            break
                        yield q.payload[0]
            return lazy(g_flat())
        if last == 'scan':
            self.heap_counter = getattr(self, 'heap_counter', 0) + 1
            key = '$scan%d' % self.heap_counter
            self.heap[key] = args[1]

            def g_scan():
                while True:
                    r = it.next()
                    if is_none(r):
                        return
                    y = call(args[2], [Ref('heap', key), r.payload[0]])
                    if is_none(y):
                        return
                    yield y.payload[0]
            return lazy(g_scan())
        if last == 'skip':
            k = d(args[1])

            def g_skip():
                for _ in range(k):
                    if is_none(it.next()):
                        return
                while True:
                    r = it.next()
                    if is_none(r):
                        return
                    yield r.payload[0]
            return lazy(g_skip())
        if last == 'take':
            k = d(args[1])

            def g_take():
                for _ in range(k):
                    r = it.next()
                    if is_none(r):
                        return
                    yield r.payload[0]
            return lazy(g_take())
        if last == 'step_by':
            k = d(args[1])
            if k == 0:
                raise Panic('step_by(0)')

            def g_step():
                while True:
                    r = it.next()
                    if is_none(r):
                        return
                    yield r.payload[0]
                    for _ in range(k - 1):
                        if is_none(it.next()):
                            return
            return lazy(g_step())
        if last == 'chain':
            o = self._as_iter(args[1])

            def g_chain():
                for src in (it, o):
                    while True:
                        r = src.next()
                        if is_none(r):
                            break
                        yield r.payload[0]
            return lazy(g_chain())
        if last == 'zip':
            o = self._as_iter(args[1])

            def g_zip():
                while True:
                    r = it.next()
                    if is_none(r):
                        return
                    q = o.next()
                    if is_none(q):
                        return
                    yield (r.payload[0], q.payload[0])
            return lazy(g_zip())
        if last in ('cloned', 'copied'):
            def g_cp():
                while True:
                    r = it.next()
                    if is_none(r):
                        return
                    v = d(r.payload[0])
                    yield copy.deepcopy(v) if isinstance(v, (Struct, Enum, Seq)) else v
            return lazy(g_cp())
        if last == 'count':
            return len(it.drain())
        if last == 'last':
            r = it.drain()
            return Some(r[-1]) if r else NONE
        if last == 'collect':
            ga = (t or {}).get('gargs', '') if isinstance(t, dict) else ''
            tail = ga.rstrip(']').rstrip()
            if tail.endswith(('alloc::string::String', 'alloc::boxed::Box<str, alloc::alloc::Global>')):
                # collect::<String>() of chars / &str / String items: concatenation
                parts = [d(x) for x in it.drain()]
                if all(isinstance(x, str) for x in parts):
                    return ''.join(parts)
                raise Unsupported('collect::<String>() of %r' % (parts[:3],))
            m_ = re.search(r'core::(option::Option|result::Result)<alloc::(vec::Vec|string::String)<', tail)
            if m_ and tail.rsplit(', core::', 1)[-1].startswith(m_.group(1)) or (m_ and tail.startswith('core::' + m_.group(1))):
                # collect::<Option<Vec<_>>>() / Result<Vec<_>, E>: stop at the first None / Err
                out = []
                while True:
                    r = it.next()
                    if is_none(r):
                        break
                    x = d(r.payload[0])
                    if isinstance(x, Enum) and x.variant in ('None', 'Err'):
                        return x
                    out.append(x.payload[0])
                okc = Some if 'option::Option' in m_.group(1) else (lambda v: Enum('core::result::Result', 'Ok', [v]))
                if 'string::String' in m_.group(2):
                    return okc(''.join(d(x) for x in out))
                return okc(Seq(out))
            m_ = re.search(r'(?:std|alloc)::collections::(hash|btree)::(map|set)::(?:Hash|BTree)(?:Map|Set)<[^\]]*\]?$', tail)
            if m_ and not tail.rsplit(', ', 1)[-1].startswith(('alloc::vec', 'core::option', 'core::result')):
                mp = Map(sorted_=m_.group(1) == 'btree', is_set=m_.group(2) == 'set')
                self._map_extend(mp, it)
                return mp
            return Seq(it.drain())
        if last in ('find', 'position'):
            pr = self._pred(args[1])
            i = 0
            while True:
                r = it.next()
                if is_none(r):
                    return NONE
                if pr(r.payload[0]):
                    return Some(r.payload[0] if last == 'find' else i)
                i += 1
        if last == 'peek':
            return Some(it.items[it.pos]) if it.has_next() else NONE
        if last == 'peek_mut':
            return Some(Ref('elem', (Seq.__new__(Seq), 0))) if False else (Some(it.items[it.pos]) if it.has_next() else NONE)
        if last == 'size_hint':
            n = len(it.rest())
            return (n, Some(n))
        if last == 'len':
            return len(it.rest())
        if last == 'nth':
            k = d(args[1])
            for _ in range(k):
                if is_none(it.next()):
                    return NONE
            return it.next()
        if last in ('next_back', 'nth_back'):
            k = d(args[1]) if last == 'nth_back' else 0
            rest = it.rest()
            if k < len(rest):
                v = rest[len(rest) - 1 - k]
                del it.items[it.pos + len(rest) - 1 - k:]
                return Some(v)
            del it.items[it.pos:]
            return NONE
        if last == 'next_if':
            if it.has_next() and call(args[1], [it.items[it.pos]]):
                it.pos += 1
                return Some(it.items[it.pos - 1])
            return NONE
        if last == 'next_if_eq':
            if it.has_next() and d(it.items[it.pos]) == d(args[1]):
                it.pos += 1
                return Some(it.items[it.pos - 1])
            return NONE
        if last in ('sum', 'product'):
            acc = 0 if last == 'sum' else 1
            for x in it.drain():
                acc = acc + d(x) if last == 'sum' else acc * d(x)
            return acc
        if last in ('min', 'max'):
            r = it.drain()
            if not r:
                return NONE
            # max returns the last of equal maxima, min the first
            ks = [self._sort_key(d(x)) for x in r]
            best = 0
            for i in range(1, len(r)):
                if (ks[i] >= ks[best]) if last == 'max' else (ks[i] < ks[best]):
                    best = i
            return Some(r[best])
        if last == 'fold':
            acc = args[1]
            while True:
                r = it.next()
                if is_none(r):
                    return acc
                acc = call(args[2], [acc, r.payload[0]])
        if last == 'reduce':
            r = it.next()
            if is_none(r):
                return NONE
            acc = r.payload[0]
            while True:
                r = it.next()
                if is_none(r):
                    return Some(acc)
                acc = call(args[1], [acc, r.payload[0]])
        if last == 'try_fold':
            acc = args[1]
            while True:
                r = it.next()
                if is_none(r):
                    return self._try_ok(t, acc)
                y = call(args[2], [acc, r.payload[0]])
                if isinstance(y, Enum) and y.variant in ('Err', 'None', 'Break'):
                    return y
                acc = y.payload[0]
        if last == 'try_for_each':
            while True:
                r = it.next()
                if is_none(r):
                    return self._try_ok(t, ())
                y = call(args[1], [r.payload[0]])
                if isinstance(y, Enum) and y.variant in ('Err', 'None', 'Break'):
                    return y
        if last == 'for_each':
            while True:
                r = it.next()
                if is_none(r):
                    return ()
                call(args[1], [r.payload[0]])
        if last == 'rposition':
            pr = self._pred(args[1])
            rest = it.rest()
            for i in range(len(rest) - 1, -1, -1):
                if pr(rest[i]):
                    return Some(i)
            return NONE
        if last == 'rfind':
            pr = self._pred(args[1])
            rest = it.rest()
            for i in range(len(rest) - 1, -1, -1):
                if pr(rest[i]):
                    return Some(rest[i])
            return NONE
        if last == 'find_map':
            while True:
                r = it.next()
                if is_none(r):
                    return NONE
                y = call(args[1], [r.payload[0]])
                if not is_none(y):
                    return y
        if last == 'unzip':
            pairs = [d(x) for x in it.drain()]
            return (Seq([p_[0] for p_ in pairs]), Seq([p_[1] for p_ in pairs]))
        if last == 'partition':
            a_, b_ = [], []
            for x in it.drain():
                (a_ if call(args[1], [x]) else b_).append(x)
            return (Seq(a_), Seq(b_))
        if last in ('max_by_key', 'min_by_key', 'max_by', 'min_by'):
            r = it.drain()
            if not r:
                return NONE
            if last.endswith('_key'):
                ks = [d(call(args[1], [x])) for x in r]
                lt = lambda i, k: ks[i] < ks[k]           # noqa: E731
            else:
                lt = lambda i, k: d(call(args[1], [r[i], r[k]])).variant == 'Less'   # noqa: E731
            best = 0
            for i in range(1, len(r)):
                if last.startswith('max'):
                    if not lt(i, best):
                        best = i          # the last maximal element
                elif lt(i, best):
                    best = i              # the first minimal element
            return Some(r[best])
        if last in ('eq', 'ne'):
            o = self._as_iter(args[1])
            same = [d(x) for x in it.drain()] == [d(x) for x in o.drain()]
            return same == (last == 'eq')
        if last == 'cmp':
            o = self._as_iter(args[1])
            a_, b_ = [d(x) for x in it.drain()], [d(x) for x in o.drain()]
            return Enum('core::cmp::Ordering', 'Less' if a_ < b_ else ('Greater' if a_ > b_ else 'Equal'))
        if last == 'clone':
            return copy.deepcopy(it)
        if last == 'as_str' and all(isinstance(x, str) for x in it.rest()):
            return ''.join(it.rest())
        raise Unsupported('iterator method ' + name)

    def find_impl(self, type_name, trait_path, method):
        """MIR path of `<[&]Type as Trait>::method` for a runtime struct name (trait dispatch on generic code)."""
        key = (type_name, trait_path, method)
        cache = self.__dict__.setdefault('_impls', {})
        if key not in cache:
            import re
            tail = re.escape(trait_path.split('<')[0])
            rx = re.compile(r'^<&?(?:mut )?[\w:]*\b%s(?:<[^>]*>)? as %s(?:<.*>)?>::%s$' % (re.escape(type_name), tail, re.escape(method)))
            rx2 = re.compile(r'^[\w:]*<impl(?:<[^>]*>)? %s(?:<.*>)? for &?(?:mut )?[\w:]*\b%s(?:<[^>]*>)?>::%s$' % (tail, re.escape(type_name), re.escape(method)))
            found = [p for p in self.facts.mir if rx.match(p) or rx2.match(p)]
            cache[key] = found[0] if len(found) == 1 else None
        return cache[key]

    def _materialise_gen(self, v):
        nxt = self.find_impl(v.name, 'core::iter::traits::iterator::Iterator', 'next')
        if nxt is None:
            raise Unsupported('no Iterator impl for ' + v.name)
        self.heap_counter = getattr(self, 'heap_counter', 0) + 1
        key = '$iter%d' % self.heap_counter
        self.heap[key] = v
        for _ in range(100000):
            r = self.run(self.facts.mir_body(nxt), [Ref('heap', key)])
            if is_none(r):
                self.heap.pop(key, None)
                return
            yield r.payload[0]
        raise Unsupported('iterator does not end')

    def materialise(self, v):
        """A crate-local iterator struct -> the list of items its own next() yields."""
        return list(self._materialise_gen(v))

    def as_text(self, v):
        v = self.deref(v)
        if isinstance(v, str):
            return v
        if isinstance(v, Struct):
            for tr, m in (('core::borrow::Borrow', 'borrow'), ('core::convert::AsRef', 'as_ref')):
                imp = self.find_impl(v.name, tr, m)
                if imp:
                    return self.deref(self.run(self.facts.mir_body(imp), [v]))
        raise Unsupported('text of %r' % (v,))

    def is_local(self, path):
        return path is not None and self.facts.mir_body(path) is not None and path.startswith(self.local_prefixes)

    def dispatch(self, callee, resolved, args, t):
        name = short_callee(callee)
        if self.env is not None:
            r = self.env.call(self, name, callee, resolved, args, t)
            if r is not NotImplemented:
                return r
        if resolved and resolved != callee and self.is_local(resolved):
            return self.run(self.facts.mir_body(resolved), args)      # the crate's own impl of a std trait (Deref, PartialEq, ...)
        r = self.builtin(name, callee or '', args, t)
        if r is not NotImplemented:
            return r
        if resolved and resolved != callee:
            r = self.builtin(short_callee(resolved), resolved, args, t)
            if r is not NotImplemented:
                return r
        target = resolved or callee
        if t is None and callee and '::' in callee:
            # a call through a function value (`.map(Shape::area)`): is the path a method of one of the crate's traits?
            tr_ = callee.rsplit('::', 1)[0]
            traits_ = self.__dict__.setdefault('_trait_paths', None)
            if traits_ is None:
                traits_ = self._trait_paths = {x['path'] for x in self.facts.items.get('traits', [])}
            if tr_ in traits_:
                t = {'trait': tr_}
        if self.is_local(target) and not (t is not None and t.get('trait') and target == callee):
            return self.run(self.facts.mir_body(target), args)
        if t is not None and t.get('trait') and args:
            # unresolved trait method of a generic parameter: dispatch on the run-time type of the receiver
            v = self.deref(args[0])
            for _ in range(4):
                if isinstance(v, Struct) and v.name == 'Box':
                    inner_ = v.fields['0'].fields['0'].fields['0']               # Box<dyn Trait>: the boxed value decides
                    args = [inner_] + list(args[1:])
                    v = self.deref(inner_)
                else:
                    break
            if isinstance(v, Iter) and v.rest():
                v = self.deref(v.rest()[0])
            if isinstance(v, (Struct, Enum)):
                nm = v.name if isinstance(v, Struct) else (v.adt or '').split('::')[-1]
                imp = self.find_impl(nm, t['trait'], (callee or '').split('::')[-1]) if nm else None
                if imp:
                    return self.run(self.facts.mir_body(imp), args)
            if self.is_local(callee):
                # a provided (default) trait method that the receiver's type does not override
                return self.run(self.facts.mir_body(callee), args)
        # a tuple-variant / tuple-struct constructor used as a function (`.map(Marker::Ordinal)`, a table of constructors)
        tpath = (target or '').split('::<')[0]
        if '::' in tpath:
            head, tail = tpath.rsplit('::', 1)
            a_ = self.facts.adts.get(head)
            if a_ and a_['kind'] == 'Enum' and any(v['name'] == tail and len(v['fields']) == len(args) for v in a_['variants']):
                return Enum(head, tail, list(args))
        a_ = self.facts.adts.get(tpath)
        if a_ and a_['kind'] == 'Struct' and len(a_['variants']) == 1 and len(a_['variants'][0]['fields']) == len(args) and \
                all(fd['name'].isdigit() for fd in a_['variants'][0]['fields']):
            return Struct(tpath.split('::')[-1], {str(i): x for i, x in enumerate(args)})
        if tpath in ('core::option::Option::Some', 'core::result::Result::Ok', 'core::result::Result::Err') and len(args) == 1:
            return Enum(tpath.rsplit('::', 1)[0], tpath.rsplit('::', 1)[1], list(args))
        raise Unsupported('call of %s (%s) on %r' % (name, target, [self._show(a) for a in args][:3]))

    def _show(self, a):
        try:
            v = self.deref(a)
        except Exception:
            v = a
        s = repr(v)
        return s if len(s) < 80 else s[:77] + '...'

    # -- driver ---------------------------------------------------------------------------------------------
    def run(self, m, args):
        if isinstance(m, str):
            body = self.facts.mir_body(m)
            if body is None:
                raise Unsupported('no MIR body for ' + m)
            m = body
        if self.depth == 0:
            self.steps = 0
            if VM.limit_hits >= 3:
                # a tree with a loop that does not advance would otherwise burn the full budget on each of tens of thousands of cases;
                # the check has failed already (the first hits are reported), so the remaining cases are not interpreted
                raise Unsupported('step limit reached repeatedly in this process (non-terminating loop?): remaining cases not interpreted')
        self.depth += 1
        if self.depth > 60:
            raise Unsupported('call depth')
        try:
            return self._run(m, args)
        finally:
            self.depth -= 1

    def _run(self, m, args):
        fr = {}
        for i, a in enumerate(args):
            fr[i + 1] = a
        blocks = m['blocks']
        bi = 0
        while True:
            b = blocks[bi]
            for s in b['stmts']:
                self.steps += 1
                k = s['k']
                if k == 'assign':
                    rv_ = s['rv']
                    if rv_['k'] == 'bin' and not s['pl']['p']:
                        # the type of the destination local tells the width / signedness of the arithmetic
                        ls_ = m.get('locals')
                        self._dest_ty = ls_[s['pl']['l']]['ty'] if ls_ and s['pl']['l'] < len(ls_) else None
                        try:
                            self.write_place(fr, s['pl'], self.rvalue(fr, rv_))
                        finally:
                            self._dest_ty = None
                    else:
                        self.write_place(fr, s['pl'], self.rvalue(fr, rv_))
                elif k == 'setdiscr':
                    raise Unsupported('setdiscr')
            self.steps += 1
            if self.steps > self.max_steps:
                VM.limit_hits += 1
                raise Unsupported('step limit (non-terminating loop in the abstraction?)')
            t = b['term']
            k = t['k']
            if k == 'goto':
                bi = t['t']
            elif k == 'return':
                return fr.get(0, ())
            elif k == 'switch':
                v = self.operand(fr, t['op'])
                if isinstance(v, bool):
                    v = int(v)
                elif isinstance(v, str) and len(v) == 1:
                    v = ord(v)
                if not isinstance(v, int):
                    raise Unsupported('switch on %r' % (v,))
                nxt = t['otherwise']
                for val, tgt in t['targets']:
                    if val == v:
                        nxt = tgt
                        break
                bi = nxt
            elif k == 'drop':
                bi = t['t']
            elif k == 'call':
                if t.get('indirect'):
                    f = self.operand(fr, t['f'])
                    cargs = [self.operand(fr, a) for a in t['args']]
                    r = self.call_value(f, cargs)
                else:
                    cargs = [self.operand(fr, a) for a in t['args']]
                    callee = t.get('callee')
                    name = short_callee(callee)
                    if name in ('Fn::call', 'FnMut::call_mut', 'FnOnce::call_once'):
                        tup = self.deref(cargs[1])
                        r = self.call_value(cargs[0], list(tup) if isinstance(tup, tuple) else [tup])
                    else:
                        r = self.dispatch(callee, t.get('resolved') or callee, cargs, t)
                if t.get('t') is None:
                    raise Panic('diverging call %s' % short_callee(t.get('callee')))
                self.write_place(fr, t['dest'], r)
                bi = t['t']
            elif k == 'assert':
                c = self.operand(fr, t['cond'])
                if bool(c) != bool(t['expected']):
                    raise Panic('assert %s' % t.get('msg'))
                bi = t['t']
            elif k == 'unreachable':
                raise Unsupported('unreachable reached')
            else:
                raise Unsupported('terminator ' + k)


def _split_ws(s):
    out, cur = [], ''
    for c in s:
        if c in RUST_WS:
            if cur:
                out.append(cur)
                cur = ''
        else:
            cur += c
    if cur:
        out.append(cur)
    return out
