"""Value descriptors and dominating-edge facts over MIR.

A *descriptor* is a structural, formatting- and temp-numbering-independent rendering of the value
an operand holds, in terms of parameters, fields, constants and calls:  `(Vec::len(self.buffer) -
slice::len(a2))`.  Single-definition temporaries are replaced by their defining expression;
multi-definition locals are rendered by their source name.

An *edge fact* is a relation that holds on a CFG edge because of the branch taken there
(`x < y`, `!all_zeros(..)`, `discr(r) == Err`).  `facts_at(block)` lists the facts of all edges
that dominate the block and are still valid there (no intervening re-definition / mutation).
"""
import re

from .mir import Body, strip_generics

_CMP = {'Lt', 'Le', 'Gt', 'Ge', 'Eq', 'Ne'}
_ARITH = {'Add': '+', 'Sub': '-', 'Mul': '*', 'Div': '/', 'Rem': '%', 'BitAnd': '&', 'BitOr': '|', 'BitXor': '^',
          'Shl': '<<', 'Shr': '>>', 'AddWithOverflow': '+', 'SubWithOverflow': '-', 'MulWithOverflow': '*',
          'AddUnchecked': '+', 'SubUnchecked': '-', 'MulUnchecked': '*', 'Offset': 'offset'}


_SHORT_CACHE = {}


def short_callee(path):
    r = _SHORT_CACHE.get(path)
    if r is None:
        r = _SHORT_CACHE[path] = _short_callee(path)
    return r


def _short_callee(path):
    p = strip_generics(path or '?')
    if p.startswith('<') and '>::' in p:
        head, tail = p.rsplit('>::', 1)
        inner = head[1:]
        if ' as ' in inner:
            ty, tr = inner.split(' as ', 1)
            return tr.split('::')[-1].split('<')[0] + '::' + tail
        return inner.split('::')[-1] + '::' + tail
    segs = p.split('::')
    return '::'.join(segs[-2:]) if len(segs) >= 2 else p


_CONST_CLEAN = re.compile(r'_(usize|u8|u16|u32|u64|u128|isize|i8|i16|i32|i64|i128)$')


def const_str(c):
    if 'int' in c and c.get('ty') != 'char':
        if c.get('ty') == 'bool':
            return 'true' if c['int'] else 'false'
        return str(c['int'])
    s = c.get('s', '?')
    if s.startswith('const '):
        s = s[6:]
    return _CONST_CLEAN.sub('', s)


class X(Body):
    """Body + descriptors + edge facts."""

    def __init__(self, m, facts=None):
        super().__init__(m)
        self.facts = facts
        self._defs = {}
        for bi, b in enumerate(self.blocks):
            for si, s in enumerate(b['stmts']):
                if s['k'] == 'assign':
                    self._defs.setdefault(s['pl']['l'], []).append(('assign', bi, si, s))
            t = b.get('term') or {}
            if t.get('k') == 'call':
                self._defs.setdefault(t['dest']['l'], []).append(('call', bi, t))
        self._desc_cache = {}
        self._mut = None
        self.expand_named = False
        self._epochs = None
        self._hw = None

    # ---------------------------------------------------------------------------------
    def whole_defs(self, l):
        """Definitions that assign the whole local (no projection)."""
        out = []
        for d in self._defs.get(l, []):
            if d[0] == 'assign' and not d[3]['pl']['p']:
                out.append(d)
            elif d[0] == 'call' and not d[2]['dest']['p']:
                out.append(d)
        return out

    def partial_defs(self, l):
        """Definitions of a part of the local itself (a field); writes *through* it (deref) are not."""
        out = []
        for d in self._defs.get(l, []):
            pl = d[3]['pl'] if d[0] == 'assign' else d[2]['dest']
            if pl['p'] and pl['p'][0] != 'deref':
                out.append(d)
        return out

    def arg_name(self, l):
        n = self.names.get(l)
        if n == 'self':
            return 'self'
        return 'a%d' % l

    def _named_locals(self):
        """Named locals that are rendered by name (not transparent copies), with unique labels."""
        if hasattr(self, '_nl'):
            return self._nl
        by_name = {}
        for l, n in sorted(self.names.items()):
            if 1 <= l <= self.arg_count:
                continue
            if self._is_transparent(l):
                continue
            by_name.setdefault(n, []).append(l)
        self._nl = {}
        for n, ls in by_name.items():
            for i, l in enumerate(ls):
                self._nl[l] = n if len(ls) == 1 else '%s#%d' % (n, i + 1)
        return self._nl

    def _is_transparent(self, l):
        """A named local that is a single-definition plain copy of another local (possibly through
        a reference / dereference, as match-guard bindings are)."""
        ds = self.whole_defs(l)
        if len(ds) != 1 or self.partial_defs(l):
            return False
        d = ds[0]
        if d[0] != 'assign':
            return False
        rv = d[3]['rv']
        if rv['k'] == 'use' and rv['op'].get('k') in ('copy', 'move'):
            pl = rv['op']['pl']
        elif rv['k'] in ('ref', 'copyforderef') and rv.get('bk', 'shared') != 'mut':
            pl = rv['pl']
        else:
            return False
        if any(p != 'deref' for p in pl['p']):
            return False
        src = pl['l']
        if 1 <= src <= self.arg_count:
            return False
        # the source must itself be a single-definition local (else the copy is a snapshot)
        return len(self.whole_defs(src)) == 1 and not self.partial_defs(src)

    def desc_local(self, l, depth, stack):
        if 1 <= l <= self.arg_count:
            return self.arg_name(l)
        if l == 0:
            return 'ret'
        nl = self._named_locals()
        if l in nl and (not self.expand_named or l in self._mut_borrowed()):
            return '\u2039%s\u203a' % nl[l]
        ds = self.whole_defs(l)
        if len(ds) != 1 or l in stack or depth <= 0 or self.partial_defs(l):
            return '\u2039%s\u203a' % (nl.get(l) or self.names.get(l) or ('t%d' % l))
        d = ds[0]
        stack = stack | {l}
        if d[0] == 'call':
            raw = self.desc_call(d[2], depth - 1, stack)
            return raw + self._epoch_tag(l, raw, d[1])
        return self.desc_rvalue(d[3]['rv'], depth - 1, stack)

    def _epoch_tag(self, l, raw, block):
        """Two call sites with the same descriptor may observe different memory if the function writes
        through a &mut in between: tag them apart (conservative: whenever the body has any write)."""
        if self._epochs is None:
            self._epochs = {}
            self._building_epochs = True
            try:
                for bi, t in self.calls():
                    dl = t['dest']['l']
                    if t['dest']['p'] or len(self.whole_defs(dl)) != 1:
                        continue
                    r = self.desc_call(t, 60, frozenset([dl]))
                    self._epochs.setdefault(r, set()).add(bi)
            finally:
                self._building_epochs = False
        if getattr(self, '_building_epochs', False):
            return ''
        sites = self._epochs.get(raw, ())
        if len(sites) > 1 and self._has_writes():
            return '@bb%d' % block
        return ''

    def _has_writes(self):
        """Cheap test: does the body write through any &mut reference (or call with a &mut argument)?"""
        if self._hw is None:
            locs = self.m['locals']
            hw = False
            for b in self.blocks:
                if b.get('cleanup'):
                    continue
                for st in b['stmts']:
                    if st['k'] == 'assign' and 'deref' in st['pl']['p'] and locs[st['pl']['l']]['ty'].startswith('&mut'):
                        hw = True
                t = b.get('term') or {}
                if t.get('k') == 'call':
                    for a in t['args']:
                        if 'pl' in a and not a['pl']['p'] and locs[a['pl']['l']]['ty'].startswith('&mut'):
                            hw = True
            self._hw = hw
        return self._hw

    def _mut_borrowed(self):
        """Locals whose address is taken mutably (`&mut _l`): they are memory, not values."""
        if not hasattr(self, '_mb'):
            mb = set()
            for bi, si, pl, rv in self.assignments():
                if rv['k'] in ('ref', 'rawptr') and rv.get('bk') in ('mut', 'Mut') and 'deref' not in rv['pl']['p']:
                    mb.add(rv['pl']['l'])
            self._mb = mb
        return self._mb

    def define(self, l):
        """One-level definition of a named single-definition local (for reasoning), or None."""
        ds = self.whole_defs(l)
        if len(ds) != 1:
            return None
        d = ds[0]
        if d[0] == 'call':
            return self.desc_call(d[2], 60, frozenset([l]))
        return self.desc_rvalue(d[3]['rv'], 60, frozenset([l]))

    def named_local_index(self, label):
        for l, n in self._named_locals().items():
            if n == label:
                return l
        return None

    def desc_call(self, t, depth, stack):
        name = short_callee(t.get('callee'))
        return '%s(%s)' % (name, ', '.join(self.desc_op(a, depth, stack) for a in t['args']))

    def desc_place(self, pl, depth=60, stack=frozenset()):
        l = pl['l']
        proj = pl['p']
        # (_n.0)/( _n.1) of a WithOverflow temp
        if len(proj) == 1 and isinstance(proj[0], dict) and 'f' in proj[0] and not (1 <= l <= self.arg_count):
            ds = self.whole_defs(l)
            if len(ds) == 1 and ds[0][0] == 'assign':
                rv = ds[0][3]['rv']
                if rv['k'] == 'bin' and rv['op'].endswith('WithOverflow'):
                    inner = '(%s %s %s)' % (self.desc_op(rv['a'], depth - 1, stack | {l}), _ARITH[rv['op']],
                                            self.desc_op(rv['b'], depth - 1, stack | {l}))
                    return inner if proj[0]['f'] == 0 else 'overflow' + inner
                if rv['k'] == 'agg' and rv.get('ak') == 'tuple' and proj[0]['f'] < len(rv['ops']):
                    return self.desc_op(rv['ops'][proj[0]['f']], depth - 1, stack | {l})
        s = self.desc_local(l, depth, stack)
        for p in proj:
            if p == 'deref':
                continue
            if isinstance(p, dict) and 'f' in p:
                s = '%s.%s' % (s, p.get('name') or p['f'])
            elif isinstance(p, dict) and 'dc' in p:
                s = '(%s as %s)' % (s, p.get('name') or p['dc'])
            elif isinstance(p, dict) and 'idx' in p:
                s = '%s[%s]' % (s, self.desc_local(p['idx'], depth - 1, stack))
            elif isinstance(p, dict) and 'cidx' in p:
                s = '%s[%s%d]' % (s, '-' if p.get('from_end') else '', p['cidx'])
            else:
                s = '%s[..]' % s
        return s

    def desc_op(self, o, depth=60, stack=frozenset()):
        if o is None:
            return '_'
        if o.get('k') == 'const':
            return const_str(o)
        if 'pl' in o:
            return self.desc_place(o['pl'], depth, stack)
        return '?'

    def desc_rvalue(self, rv, depth=60, stack=frozenset()):
        k = rv['k']
        if k == 'use':
            return self.desc_op(rv['op'], depth, stack)
        if k in ('ref', 'copyforderef', 'rawptr'):
            return self.desc_place(rv['pl'], depth, stack)
        if k == 'bin':
            a, b = self.desc_op(rv['a'], depth, stack), self.desc_op(rv['b'], depth, stack)
            op = rv['op']
            if op in _CMP:
                return rel_str(canon_rel(op, a, b))
            if op.endswith('WithOverflow'):
                return 'checked(%s %s %s)' % (a, _ARITH[op], b)
            return '(%s %s %s)' % (a, _ARITH.get(op, op), b)
        if k == 'un':
            a = self.desc_op(rv['a'], depth, stack)
            if rv['op'] == 'Not':
                return negate_str(a)
            if rv['op'] == 'PtrMetadata':
                return 'slice::len(%s)' % a
            return '%s(%s)' % (rv['op'], a)
        if k == 'cast':
            a = self.desc_op(rv['op'], depth, stack)
            if rv['ck'].startswith('PointerCoercion') or rv['ck'] in ('Transmute', 'PtrToPtr', 'Subtype'):
                return a
            return '(%s as %s)' % (a, rv['ty'])
        if k == 'discr':
            return 'discr(%s)' % self.desc_place(rv['pl'], depth, stack)
        if k == 'agg':
            ak = rv.get('ak')
            ops = ', '.join(self.desc_op(o, depth, stack) for o in rv['ops'])
            if ak == 'adt':
                nm = rv['adt'].split('::')[-1]
                if rv.get('variant') and rv['variant'] != nm:
                    nm = rv['variant']
                return '%s(%s)' % (nm, ops) if ops else nm
            if ak == 'tuple':
                return '(%s)' % ops
            if ak == 'closure':
                return 'closure[%s]' % rv.get('def', '').split('::')[-1]
            return '%s[%s]' % (ak, ops)
        if k == 'repeat':
            return 'repeat(%s)' % self.desc_op(rv['op'], depth, stack)
        return rv.get('s', k)

    # ---------------------------------------------------------------------------------
    # locals mentioned by a descriptor computation (for stability checks)
    def locals_of_op(self, o, acc=None, depth=60):
        acc = set() if acc is None else acc
        if o is None or o.get('k') == 'const':
            return acc
        if 'pl' in o:
            self._locals_of_place(o['pl'], acc, depth)
        return acc

    def _locals_of_place(self, pl, acc, depth):
        l = pl['l']
        for p in pl['p']:
            if isinstance(p, dict) and 'idx' in p:
                self._locals_of_local(p['idx'], acc, depth - 1)
        self._locals_of_local(l, acc, depth)

    def _locals_of_local(self, l, acc, depth):
        if l in acc or depth <= 0:
            acc.add(l)
            return
        acc.add(l)
        if 1 <= l <= self.arg_count:
            return
        ds = self.whole_defs(l)
        if len(ds) != 1:
            return
        d = ds[0]
        if d[0] == 'call':
            for a in d[2]['args']:
                self.locals_of_op(a, acc, depth - 1)
        else:
            rv = d[3]['rv']
            for key in ('op', 'a', 'b'):
                if key in rv and isinstance(rv[key], dict):
                    self.locals_of_op(rv[key], acc, depth - 1)
            if 'pl' in rv:
                self._locals_of_place(rv['pl'], acc, depth - 1)
            for o in rv.get('ops', []):
                self.locals_of_op(o, acc, depth - 1)

    # ---------------------------------------------------------------------------------
    # mutation analysis: which blocks write through a `&mut` parameter (or a local ADT)
    def mut_analysis(self):
        """Returns dict with:
           'holders': {local: root_desc}  locals holding a &mut derived from a &mut parameter/local
           'sites': [(block, kind, target_desc, detail, stmt_index or None)]  writes through them
        """
        if self._mut is not None:
            return self._mut
        REBORROW = ('IndexMut::index_mut', 'DerefMut::deref_mut', 'slice::split_at_mut', 'Vec::as_mut_slice',
                    'slice::iter_mut', 'Option::as_mut', 'slice::index_mut', 'AsMut::as_mut', 'BorrowMut::borrow_mut',
                    'Vec::as_mut', 'str::as_bytes_mut', 'slice::get_mut', 'slice::last_mut', 'slice::first_mut',
                    'Vec::iter_mut', 'Vec::last_mut')
        locals_ = self.m['locals']
        holders = {}
        roots = {}
        for l in range(1, self.arg_count + 1):
            if locals_[l]['ty'].startswith('&mut '):
                holders[l] = self.arg_name(l)
                roots[l] = self.arg_name(l)
        changed = True
        while changed:
            changed = False
            for bi, si, pl, rv in self.assignments():
                if pl['p']:
                    continue
                dst = pl['l']
                if dst in holders:
                    continue
                src = None
                root = None
                if rv['k'] in ('ref', 'rawptr') and rv.get('bk') in ('mut', 'Mut'):
                    base = rv['pl']['l']
                    if base in holders:
                        src = self.desc_place(rv['pl'])
                        root = roots[base] if 'deref' not in rv['pl']['p'] or rv['pl']['p'] == ['deref'] else self._root_path(rv['pl'], roots[base])
                    elif 'deref' not in rv['pl']['p'] and not (1 <= base <= self.arg_count):
                        # a mutable borrow of local state (a local Vec, a scratch builder)
                        src = self.desc_place(rv['pl'])
                        root = src
                elif rv['k'] == 'use' and rv['op'].get('k') in ('move', 'copy'):
                    base = rv['op']['pl']['l']
                    if base in holders and locals_[dst]['ty'].startswith(('&mut', '(&mut')):
                        src = self.desc_place(rv['op']['pl'])
                        root = roots[base]
                elif rv['k'] == 'cast' and rv['op'].get('k') in ('move', 'copy'):
                    base = rv['op']['pl']['l']
                    if base in holders and locals_[dst]['ty'].startswith('&mut'):
                        src = self.desc_place(rv['op']['pl'])
                        root = roots[base]
                if src is not None:
                    holders[dst] = src
                    roots[dst] = root
                    changed = True
            for bi, t in self.calls():
                dst = t['dest']['l']
                if dst in holders or t['dest']['p']:
                    continue
                if not locals_[dst]['ty'].startswith(('&mut', '(&mut')):
                    continue
                for a in t['args']:
                    if 'pl' in a and a['pl']['l'] in holders:
                        holders[dst] = self.desc_call(t, 60, frozenset())
                        roots[dst] = roots[a['pl']['l']]
                        changed = True
                        break
        sites = []
        for bi, b in enumerate(self.blocks):
            if b.get('cleanup'):
                continue
            for si, s in enumerate(b['stmts']):
                if s['k'] in ('assign', 'setdiscr'):
                    pl = s['pl']
                    if pl['l'] in holders and 'deref' in pl['p']:
                        root = self._root_path(pl, roots[pl['l']]) if pl['l'] <= self.arg_count else roots[pl['l']]
                        sites.append((bi, 'assign', self.desc_place(pl),
                                      self.desc_rvalue(s['rv']) if s['k'] == 'assign' else 'setdiscr', si, root))
            t = b.get('term') or {}
            if t.get('k') == 'call':
                name = short_callee(t.get('callee'))
                for a in t['args']:
                    if 'pl' in a and a['pl']['l'] in holders and not a['pl']['p']:
                        if name in REBORROW and self.m['locals'][t['dest']['l']]['ty'].startswith(('&mut', '(&mut')):
                            continue
                        sites.append((bi, 'call', holders[a['pl']['l']], self.desc_call(t, 60, frozenset()), None,
                                      roots[a['pl']['l']]))
                        break
        self._mut = {'holders': holders, 'sites': sites, 'roots': roots}
        return self._mut

    def _root_path(self, pl, base_root):
        """`self` + first-level field path of a place rooted in a &mut holder: (*_1).buffer -> self.buffer"""
        out = base_root
        for p in pl['p']:
            if isinstance(p, dict) and 'f' in p:
                out = '%s.%s' % (out, p.get('name') or p['f'])
            elif p == 'deref':
                continue
            else:
                break
        return out

    # ---------------------------------------------------------------------------------
    # edge facts
    def switch_facts(self, bi):
        """For a switch block: {target_block: [fact strings]} (facts that hold on that edge)."""
        t = self.term(bi)
        if t.get('k') != 'switch':
            return {}
        op = t['op']
        out = {}
        targets = t['targets']
        otherwise = t['otherwise']
        d = self.desc_op(op)
        # what kind of value is switched on?
        ty = None
        if 'pl' in op:
            ty = self.m['locals'][op['pl']['l']]['ty'] if not op['pl']['p'] else None
        is_bool = (ty == 'bool') or _is_bool_desc(d) or (ty is None and self._place_ty_is_bool(op))
        discr_adt = self._discr_adt(op)
        if is_bool and len(targets) == 1:
            val, tgt = targets[0]
            # targets[0] is taken when value == val
            f_t = d if val == 1 else negate_str(d)
            f_o = negate_str(d) if val == 1 else d
            out.setdefault(tgt, []).append(f_t)
            out.setdefault(otherwise, []).append(f_o)
            return out
        names = {}
        vlist = self._discr_variants(op)
        if vlist:
            for val, _ in targets:
                if 0 <= val < len(vlist):
                    names[val] = vlist[val]
        covered = []
        for val, tgt in targets:
            v = names.get(val, str(val))
            out.setdefault(tgt, []).append('%s == %s' % (d, v))
            covered.append(v)
        oth = ['%s != %s' % (d, v) for v in covered]
        # an enum switch whose otherwise covers exactly one remaining variant
        if vlist:
            rest = [v for i, v in enumerate(vlist) if i not in [x[0] for x in targets]]
            if len(rest) == 1:
                oth.append('%s == %s' % (d, rest[0]))
        out.setdefault(otherwise, []).extend(oth)
        return out

    def _place_ty_is_bool(self, op):
        if 'pl' not in op:
            return False
        pl = op['pl']
        if pl['p'] and isinstance(pl['p'][-1], dict) and pl['p'][-1].get('ty') == 'bool':
            return True
        return False

    def _discr_variants(self, op):
        if 'pl' not in op or op['pl']['p']:
            return None
        ds = self.whole_defs(op['pl']['l'])
        if len(ds) == 1 and ds[0][0] == 'assign' and ds[0][3]['rv']['k'] == 'discr':
            return ds[0][3]['rv'].get('variants')
        return None

    def _discr_adt(self, op):
        if 'pl' not in op or op['pl']['p']:
            return None
        ds = self.whole_defs(op['pl']['l'])
        if len(ds) == 1 and ds[0][0] == 'assign' and ds[0][3]['rv']['k'] == 'discr':
            return ds[0][3]['rv'].get('adt')
        return None

    def edge_facts(self):
        """[(src, dst, fact, locals_involved)] for all switch edges with a unique label."""
        out = []
        for bi in range(self.n):
            t = self.term(bi)
            if t.get('k') != 'switch' or self.is_cleanup(bi):
                continue
            sf = self.switch_facts(bi)
            locs = self.locals_of_op(t['op'])
            for dst, fs in sf.items():
                # if two switch values go to the same block the facts are disjunctive: skip
                n_edges = sum(1 for x in ([v[1] for v in t['targets']] + [t['otherwise']]) if x == dst)
                if n_edges != 1:
                    continue
                for f in fs:
                    out.append((bi, dst, f, locs))
        return out

    def facts_at(self, site_block, check_stability=True):
        """Facts of all edges dominating `site_block` that are still valid there."""
        if not hasattr(self, '_edge_facts'):
            self._edge_facts = self.edge_facts()
        res = []
        for src, dst, fact, locs in self._edge_facts:
            if not self.edge_dominates(src, dst, site_block):
                continue
            if check_stability and not self.stable_between(locs, src, dst, site_block):
                continue
            res.append(fact)
        return res

    def stable_between(self, locs, src, dst, site):
        """No local in `locs` is (re)defined, and no memory reachable from a &mut holder among them
        is written, on a path from edge src->dst to `site` that does not pass the edge again."""
        after = self.reachable_from(dst)
        # blocks from which site is reachable without using the edge
        can_reach = set()
        stack = [site]
        while stack:
            x = stack.pop()
            if x in can_reach:
                continue
            can_reach.add(x)
            for p in self.pred[x]:
                if p == src and x == dst:
                    continue
                stack.append(p)
        between = after & can_reach
        for l in locs:
            for d in self._defs.get(l, []):
                db = d[1]
                if db in between:
                    # a definition in the site block itself after the use cannot be told apart at block
                    # granularity; definitions of temps feeding the site are in `site` and precede it,
                    # those are the site's own operands (not part of the fact) -- but a fact local
                    # redefined there would be a problem only for multi-def locals
                    if db == site and len(self.whole_defs(l)) <= 1:
                        continue
                    if db == src:
                        continue
                    return False
        return True


def _is_bool_desc(d):
    return bool(re.match(r'^!?\(?.* (<|<=|==|!=) ', d)) or d.startswith('!')


def canon_rel(op, a, b):
    """Canonical relation tuple: ('<'|'<='|'=='|'!=', x, y)."""
    if op == 'Gt':
        return ('<', b, a)
    if op == 'Ge':
        return ('<=', b, a)
    if op == 'Lt':
        return ('<', a, b)
    if op == 'Le':
        return ('<=', a, b)
    if op == 'Eq':
        return ('==',) + tuple(sorted((a, b)))
    return ('!=',) + tuple(sorted((a, b)))


def rel_str(r):
    return '(%s %s %s)' % (r[1], r[0], r[2])


_REL = re.compile(r'^\((.*) (<=|<|==|!=) (.*)\)$')


def negate_str(s):
    if s.startswith('!'):
        return s[1:]
    m = _split_rel(s)
    if m:
        a, op, b = m
        if op == '<':
            return '(%s <= %s)' % (b, a)
        if op == '<=':
            return '(%s < %s)' % (b, a)
        if op == '==':
            return '(%s != %s)' % (a, b)
        if op == '!=':
            return '(%s == %s)' % (a, b)
    return '!' + s


def _split_rel(s):
    """Split a top-level '(a op b)' string at its top-level operator."""
    if not (s.startswith('(') and s.endswith(')')):
        return None
    inner = s[1:-1]
    depth = 0
    i = 0
    while i < len(inner):
        c = inner[i]
        if c in '([':
            depth += 1
        elif c in ')]':
            depth -= 1
            if depth < 0:
                return None
        elif depth == 0 and c == ' ':
            for op in (' <= ', ' < ', ' == ', ' != '):
                if inner.startswith(op, i):
                    a, b = inner[:i], inner[i + len(op):]
                    # make sure b has balanced parens
                    if _balanced(a) and _balanced(b):
                        return (a, op.strip(), b)
        i += 1
    return None


def _balanced(s):
    d = 0
    for c in s:
        if c in '([':
            d += 1
        elif c in ')]':
            d -= 1
            if d < 0:
                return False
    return d == 0


_MARK = re.compile('\u2039([^\u203a]*)\u203a')


def pretty(s):
    """Human form: named locals without markers (epoch tags are kept: they distinguish values)."""
    return _MARK.sub(lambda m: m.group(1), s)


def alpha(strings):
    """Alpha-normalise named locals jointly over a list of descriptor strings: the k-th distinct
    local (in order of first occurrence) becomes `$k`, so keys survive renaming of variables."""
    table = {}

    def sub(m):
        n = m.group(1)
        if n not in table:
            table[n] = '$%d' % (len(table) + 1)
        return table[n]
    return [_MARK.sub(sub, s) for s in strings]


_TAG = re.compile(r'@bb\d+')


def untag(s):
    """Remove epoch tags (for keys and human-readable output)."""
    return _TAG.sub('', s)
