"""Environment abstraction for the scanner (src/word_to_digit.rs), used with vm.VM.

The scanner is generic over the language interpreter L and the token type T.  Here L is an abstract language with
a dozen word *classes* (a word that starts a number, one that continues it, an ordinal, a linking word, the decimal
separator, ordinary words, punctuation ...), the digit builder is reduced to what the scanner can observe of it
(empty?, ordinal?, the words it absorbed), and tokens are (text, hints).  The scanner's own code is interpreted
from MIR; every answer of the environment is determined by the abstract state, and every call is recorded.
"""
from .vm import NONE, Enum, Seq, Some, Struct, Unsupported, Iter, Ref, Panic


class DS:
    """What the scanner can see of a DigitString."""

    def __init__(self):
        self.words = []
        self.ordinal = False
        self.uid = 0

    def clear(self):
        self.words = []
        self.ordinal = False

    def __repr__(self):
        return 'DS(%s%s)' % ('+'.join(self.words), ',ord' if self.ordinal else '')


class Tok:
    def __init__(self, text, nan=False, sep=False, lower=None):
        self.text = text
        self.lower = text.lower() if lower is None else lower
        self.nan = nan
        self.sep = sep
        self.pos = None
        self.made_from = None   # tokens consumed by Replace::replace
        self.data = None

    def __repr__(self):
        return 'Tok(%r%s%s)' % (self.text, ',nan' if self.nan else '', ',sep' if self.sep else '')


class Input:
    """The caller's token iterator."""

    def __init__(self, toks, env):
        self.toks = list(toks)
        self.pos = 0
        self.enumerated = False
        self.env = env

    def next(self):
        if self.pos < len(self.toks):
            t = self.toks[self.pos]
            self.pos += 1
            self.env.events.append(('read', self.pos - 1))
            return Some((self.pos - 1, t)) if self.enumerated else Some(t)
        self.env.events.append(('read-end',))
        return NONE


class Lang:
    def __repr__(self):
        return 'Lang'


# word classes of the abstract language ---------------------------------------------------------------
#   START     accepted on an empty builder only ("one": two in a row are two numbers), value 1 digit
#   TENS      accepted on an empty builder only, may be followed by UNIT ("twenty")
#   UNIT      accepted on an empty builder or right after TENS ("one" after "twenty")  -- same word class as START here
#   ORD       like UNIT, makes the number an ordinal and freezes it
#   LINK      Incomplete inside a number, rejected outside; is_linking
#   SEP       the decimal separator word: rejected by apply, is_decimal_sep
#   WORD      ordinary alphabetic word
#   LWORD     ordinary word the language lists as linking (insignificant)
#   punctuation "," "." and anything else: rejected
CARD = {'one': '1', 'two': '2', 'twenty': '20'}
ORDS = {'first': ('1', 'st'), 'second': ('2', 'nd')}
LINK = 'and'
SEPW = 'point'
LWORDS = {'of', LINK}
OK = Enum('core::result::Result', 'Ok', [()])


def ERR(kind):
    return Enum('core::result::Result', 'Err', [Enum('error::Error', kind)])


def digits_of(ds):
    """Digit text of an abstract builder."""
    if not ds.words:
        return ''
    out = 0
    zeros = ''
    for w in ds.words:
        if w == 'zero':
            zeros += '0'
            continue
        out += int(CARD.get(w) or ORDS[w][0])
    return zeros + (str(out) if out or not zeros else '')


class ScanEnv:
    def __init__(self):
        self.events = []
        self.lang = Lang()

    # the abstract language ---------------------------------------------------------------------------
    def apply(self, word, ds):
        if ds.ordinal:
            return ERR('Frozen')
        if word == 'zero':
            if all(w == 'zero' for w in ds.words):
                ds.words.append(word)
                return OK
            return ERR('Overlap')
        if word in CARD or word in ORDS:
            v = CARD.get(word) or ORDS[word][0]
            last = ds.words[-1] if ds.words else None
            nonzero = [w for w in ds.words if w != 'zero']
            ok = not nonzero or (last == 'twenty' and len(v) == 1)
            if not ok:
                return ERR('Overlap')
            ds.words.append(word)
            if word in ORDS:
                ds.ordinal = True
            return OK
        if word == LINK:
            return ERR('Incomplete') if ds.words else ERR('NaN')
        return ERR('NaN')

    def apply_decimal(self, word, ds):
        if word in ('one', 'two', 'zero'):
            ds.words.append(word)
            return OK
        return ERR('NaN')

    def fmt(self, ds):
        text = digits_of(ds)
        val = float(text) if text else None
        if val is None:
            raise Panic('format_and_value on an empty builder ("".parse().unwrap())')
        if ds.ordinal:
            text += ORDS[[w for w in ds.words if w in ORDS][0]][1]
        return text, val

    def fmt_dec(self, i, dpart):
        it = digits_of(i)
        dt = ''.join({'one': '1', 'two': '2', 'zero': '0'}[w] for w in dpart.words)
        if not it:
            raise Panic('format_decimal_and_value on an empty integer part')
        return it + '.' + dt, float(it + '.' + (dt or '0'))

    # boundary ---------------------------------------------------------------------------------------------
    def call(self, vm, name, callee, resolved, args, t):
        d = vm.deref
        ev = self.events
        if name == 'DigitString::new':
            return DS()
        a0 = d(args[0]) if args else None
        if isinstance(a0, DS):
            if name == 'DigitString::reset':
                ev.append(('ds-reset', id(a0)))
                a0.clear()
                return ()
            if name == 'DigitString::is_empty':
                return not a0.words
            if name == 'DigitString::is_ordinal':
                return a0.ordinal
            if name == 'DigitString::is_null':
                return not [w for w in a0.words if w != 'zero']
            if name == 'DigitString::len':
                return len(digits_of(a0))
            if name == 'DigitString::to_string':
                return digits_of(a0)
            raise Unsupported('scanner uses DigitString::%s' % name.split('::')[-1])
        if isinstance(a0, Lang) and name.startswith('LangInterpreter::'):
            m = name.split('::')[1]
            if m in ('apply', 'apply_decimal'):
                word, ds = d(args[1]), d(args[2])
                before = (list(ds.words), ds.ordinal)
                r = self.apply(word, ds) if m == 'apply' else self.apply_decimal(word, ds)
                ev.append((m, word, before, r.variant if r.variant == 'Ok' else r.payload[0].variant, id(ds)))
                return r
            if m == 'basic_annotate':
                return ()
            if m == 'is_decimal_sep':
                return d(args[1]) == SEPW
            if m == 'is_linking':
                w = d(args[1])
                ev.append(('is_linking', w))
                return w in LWORDS
            if m == 'format_and_value':
                ds = d(args[1])
                r = self.fmt(ds)
                ev.append(('format-ds', (id(ds),)))
                ev.append(('format', list(ds.words), ds.ordinal, r))
                return r
            if m == 'format_decimal_and_value':
                i, dp = d(args[1]), d(args[2])
                r = self.fmt_dec(i, dp)
                ev.append(('format-ds', (id(i), id(dp))))
                ev.append(('format-dec', list(i.words), list(dp.words), i.ordinal, r))
                return r
            raise Unsupported('scanner calls LangInterpreter::' + m)
        if isinstance(a0, Tok):
            m = name.split('::')[-1]
            if name.startswith('Token::'):
                if m == 'text':
                    return a0.text
                if m == 'text_lowercase':
                    return a0.lower
                if m == 'not_a_number_part':
                    return a0.nan
                if m == 'nt_separated':
                    prev = d(args[1])
                    ev.append(('nt_separated', a0.text, prev.text if isinstance(prev, Tok) else repr(prev)))
                    return a0.sep
        if name == 'Replace::replace':
            it = d(args[0])
            consumed = it.rest() if isinstance(it, Iter) else None
            if not consumed or not all(isinstance(c, Tok) for c in consumed):
                return NotImplemented
            tk = Tok('<' + d(args[1]) + '>')
            tk.made_from = consumed
            tk.data = d(args[1])
            ev.append(('replace', [c.pos if isinstance(c, Tok) else c for c in (consumed or [])], tk.data))
            return tk
        if isinstance(a0, Input):
            m = name.split('::')[-1]
            if m == 'next':
                return a0.next()
            if m == 'enumerate':
                a0.enumerated = True
                return a0
            if m == 'size_hint':
                return (0, NONE)
            if m in ('by_ref', 'fuse'):
                return args[0]
            if m in ('for_each', 'find_map', 'find', 'try_for_each', 'any', 'all', 'position'):
                # provided Iterator methods on the caller's iterator: one next() at a time, exactly as std does
                while True:
                    nx = a0.next()
                    if nx.variant == 'None':
                        return {'for_each': (), 'find_map': NONE, 'find': NONE, 'any': False, 'all': True, 'position': NONE,
                                'try_for_each': Enum('core::result::Result', 'Ok', [()])}[m]
                    r = vm.call_value(args[1], [nx.payload[0]])
                    if m == 'find_map' and not (isinstance(r, Enum) and r.variant == 'None'):
                        return r
                    if m == 'find' and r:
                        return nx
                    if m == 'any' and r:
                        return True
                    if m == 'all' and not r:
                        return False
                    if m == 'try_for_each' and isinstance(r, Enum) and r.variant in ('Err', 'None', 'Break'):
                        return r
        return NotImplemented
