"""Standard spellings of integers in the seven languages (the oracle of the phrase-level rules).

spellings(lang, n) -> list of token lists (standard spelling first, then accepted orthographic variants:
hyphen vs space, optional conjunction, regional tens).  Range: 0 <= n < 10^6 for every language, multiples of
10^6 / 10^9 combined with a remainder < 10^6 where the language has a single obvious form.
Written from grammar books' rules, not from the crate.
"""
from .rules.lexical import spell as _compact


def _en_below100(k, hyphen=True):
    U = ['', 'one', 'two', 'three', 'four', 'five', 'six', 'seven', 'eight', 'nine', 'ten', 'eleven', 'twelve', 'thirteen', 'fourteen',
         'fifteen', 'sixteen', 'seventeen', 'eighteen', 'nineteen']
    T = ['', '', 'twenty', 'thirty', 'forty', 'fifty', 'sixty', 'seventy', 'eighty', 'ninety']
    if k < 20:
        return [U[k]] if k else []
    t, u = k // 10, k % 10
    if not u:
        return [T[t]]
    return [T[t] + '-' + U[u]] if hyphen else [T[t], U[u]]


def _en(n, british=True, hyphen=True):
    if n == 0:
        return ['zero']
    out = []
    for scale, name in ((10 ** 9, 'billion'), (10 ** 6, 'million'), (1000, 'thousand'), (1, '')):
        q, n = divmod(n, scale) if scale > 1 else (n, 0)
        if not q:
            continue
        h, r = divmod(q, 100)
        part = []
        if h:
            part += _en_below100(h) + ['hundred']
        if r:
            if british and (h or (out and scale == 1)):
                part.append('and')
            part += _en_below100(r, hyphen)
        out += part + ([name] if name else [])
    return out


def _fr_below100(k, final=True):
    U = ['', 'un', 'deux', 'trois', 'quatre', 'cinq', 'six', 'sept', 'huit', 'neuf', 'dix', 'onze', 'douze', 'treize', 'quatorze', 'quinze', 'seize',
         'dix-sept', 'dix-huit', 'dix-neuf']
    T = {2: 'vingt', 3: 'trente', 4: 'quarante', 5: 'cinquante', 6: 'soixante'}
    if k < 20:
        return [U[k]] if k else []
    t, u = k // 10, k % 10
    if t in (7, 9):
        base = 'soixante' if t == 7 else 'quatre-vingt'
        r = 10 + u
        if t == 7 and u == 1:
            return ['soixante', 'et', 'onze']
        return [base + '-' + U[r]]
    if t == 8:
        if u == 0:
            return ['quatre-vingts' if final else 'quatre-vingt']
        return ['quatre-vingt-' + U[u]]
    if u == 0:
        return [T[t]]
    if u == 1:
        return [T[t], 'et', 'un']
    return [T[t] + '-' + U[u]]


def _fr_below1000(k, final=True):
    h, r = divmod(k, 100)
    out = []
    if h:
        if h > 1:
            out += _fr_below100(h)
        out.append('cents' if (h > 1 and not r and final) else 'cent')
    return out + _fr_below100(r, final)


def _fr(n):
    if n == 0:
        return ['zéro']
    out = []
    for scale, sing, plur in ((10 ** 9, 'milliard', 'milliards'), (10 ** 6, 'million', 'millions')):
        q, n = divmod(n, scale)
        if q:
            out += _fr_below1000(q) + [sing if q == 1 else plur]
    q, n = divmod(n, 1000)
    if q:
        if q > 1:
            out += _fr_below1000(q, final=False)
        out.append('mille')
    return out + _fr_below1000(n)


def _es_below100(k, apocope=False):
    U = ['', 'uno', 'dos', 'tres', 'cuatro', 'cinco', 'seis', 'siete', 'ocho', 'nueve', 'diez', 'once', 'doce', 'trece', 'catorce', 'quince',
         'dieciséis', 'diecisiete', 'dieciocho', 'diecinueve', 'veinte', 'veintiuno', 'veintidós', 'veintitrés', 'veinticuatro', 'veinticinco',
         'veintiséis', 'veintisiete', 'veintiocho', 'veintinueve']
    T = {3: 'treinta', 4: 'cuarenta', 5: 'cincuenta', 6: 'sesenta', 7: 'setenta', 8: 'ochenta', 9: 'noventa'}
    if k < 30:
        w = U[k]
        if apocope and k == 1:
            w = 'un'
        if apocope and k == 21:
            w = 'veintiún'
        return [w] if k else []
    t, u = k // 10, k % 10
    if not u:
        return [T[t]]
    return [T[t], 'y', 'un' if (apocope and u == 1) else U[u]]


def _es_below1000(k, apocope=False):
    H = {1: 'ciento', 2: 'doscientos', 3: 'trescientos', 4: 'cuatrocientos', 5: 'quinientos', 6: 'seiscientos', 7: 'setecientos', 8: 'ochocientos',
         9: 'novecientos'}
    h, r = divmod(k, 100)
    if k == 100:
        return ['cien']
    return ([H[h]] if h else []) + _es_below100(r, apocope)


def _es(n):
    if n == 0:
        return ['cero']
    out = []
    q, n = divmod(n, 10 ** 6)
    if q:
        out += (['un', 'millón'] if q == 1 else _es_below1000(q, apocope=True) + ['millones']) if q < 1000 else []
        if q >= 1000:
            return None
    q, n = divmod(n, 1000)
    if q:
        if q > 1:
            out += _es_below1000(q, apocope=True)
        out.append('mil')
    return out + _es_below1000(n)


def _pt_below100(k, br=False):
    U = ['', 'um', 'dois', 'três', 'quatro', 'cinco', 'seis', 'sete', 'oito', 'nove', 'dez', 'onze', 'doze', 'treze', 'catorze', 'quinze',
         'dezesseis' if br else 'dezasseis', 'dezessete' if br else 'dezassete', 'dezoito', 'dezenove' if br else 'dezanove']
    T = {2: 'vinte', 3: 'trinta', 4: 'quarenta', 5: 'cinquenta', 6: 'sessenta', 7: 'setenta', 8: 'oitenta', 9: 'noventa'}
    if k < 20:
        return [U[k]] if k else []
    t, u = k // 10, k % 10
    return [T[t]] + (['e', U[u]] if u else [])


def _pt_below1000(k, br=False):
    H = {1: 'cento', 2: 'duzentos', 3: 'trezentos', 4: 'quatrocentos', 5: 'quinhentos', 6: 'seiscentos', 7: 'setecentos', 8: 'oitocentos', 9: 'novecentos'}
    if k == 100:
        return ['cem']
    h, r = divmod(k, 100)
    out = [H[h]] if h else []
    if h and r:
        out.append('e')
    return out + _pt_below100(r, br)


def _pt(n, br=False):
    if n == 0:
        return ['zero']
    out = []
    q, n = divmod(n, 10 ** 6)
    if q:
        if q >= 1000:
            return None
        out += ['um', 'milhão'] if q == 1 else _pt_below1000(q, br) + ['milhões']
    q, r = divmod(n, 1000)
    if q:
        if q > 1:
            out += _pt_below1000(q, br)
        out.append('mil')
    if r:
        # "e" links the last group when it is below 100 or a round hundred
        if out and (r < 100 or r % 100 == 0):
            out.append('e')
        out += _pt_below1000(r, br)
    return out


def _it(n):
    if n == 0:
        return ['zero']
    out = []
    q, r = divmod(n, 10 ** 6)
    if q:
        if q >= 1000:
            return None
        out += ['un', 'milione'] if q == 1 else [_compact('it', q), 'milioni']
    if r:
        out.append(_compact('it', r))
    return out


def _de(n):
    if n == 0:
        return ['null']
    out = []
    q, r = divmod(n, 10 ** 6)
    if q:
        if q >= 1000:
            return None
        out += ['eine', 'million'] if q == 1 else [_compact('de', q).replace('eins', 'ein') if False else _compact('de', q), 'millionen']
    if r:
        out.append(_compact('de', r))
    return out


def _nl(n):
    if n == 0:
        return ['nul']
    out = []
    q, r = divmod(n, 10 ** 6)
    if q:
        if q >= 1000:
            return None
        out += [_compact('nl', q), 'miljoen']
    if r:
        out.append(_compact('nl', r))
    return out


def spellings(lang, n):
    """[standard spelling, variants...] as token lists; [] when out of the covered range."""
    out = []
    if n < 0 or n >= 10 ** 12:
        return out

    def add(x):
        if x and x not in out:
            out.append(x)
    if lang == 'en':
        add(_en(n, british=True, hyphen=True))
        add(_en(n, british=False, hyphen=True))
        add(_en(n, british=True, hyphen=False))
    elif lang == 'fr':
        std = _fr(n)
        add(std)
        if std:
            add([t for tok in std for t in tok.split('-')])       # hyphen vs space
    elif lang == 'es':
        add(_es(n))
    elif lang == 'pt':
        add(_pt(n, br=False))
        add(_pt(n, br=True))
    elif lang == 'it':
        add(_it(n))
    elif lang == 'de':
        add(_de(n))
    elif lang == 'nl':
        add(_nl(n))
    return out


# ---------------------------------------------------------------------------------------------------------
def _en_ord_word(w):
    irregular = {'one': 'first', 'two': 'second', 'three': 'third', 'five': 'fifth', 'eight': 'eighth', 'nine': 'ninth', 'twelve': 'twelfth'}
    if w in irregular:
        return irregular[w]
    if w.endswith('ty'):
        return w[:-1] + 'ieth'
    return w + 'th'


def _fr_ord_word(w):
    if w == 'un':
        return 'unième'
    if w == 'cinq':
        return 'cinquième'
    if w == 'neuf':
        return 'neuvième'
    if w in ('vingts', 'cents'):
        w = w[:-1]
    if w.endswith('e'):
        w = w[:-1]
    return w + 'ième'


def ordinal_spellings(lang, n):
    """Standard spelling(s) of the n-th ordinal (base / masculine singular form) as token lists; [] if not covered."""
    if n < 1:
        return []
    if lang in ('de', 'nl', 'it'):
        from .rules.lexical import spell_ordinal
        if n >= 10 ** 6:
            return []
        return [[spell_ordinal(lang, n)]]
    if lang == 'en':
        out = []
        for toks in (_en(n, british=True), _en(n, british=False)):
            toks = list(toks)
            last = toks[-1]
            if '-' in last:
                a, b = last.rsplit('-', 1)
                toks[-1] = a + '-' + _en_ord_word(b)
            else:
                toks[-1] = _en_ord_word(last)
            if toks not in out:
                out.append(toks)
        return out
    if lang in ('es', 'pt'):
        # es / pt compose ordinals from inflected words: hundreds, tens, units (each an ordinal word)
        if n > 1000:
            return []
        W = {'es': {1: 'primero', 2: 'segundo', 3: 'tercero', 4: 'cuarto', 5: 'quinto', 6: 'sexto', 7: 'séptimo', 8: 'octavo', 9: 'noveno', 10: 'décimo',
                    11: 'undécimo', 12: 'duodécimo', 13: 'decimotercero', 14: 'decimocuarto', 15: 'decimoquinto', 16: 'decimosexto', 17: 'decimoséptimo',
                    18: 'decimoctavo', 19: 'decimonoveno', 20: 'vigésimo', 30: 'trigésimo', 40: 'cuadragésimo', 50: 'quincuagésimo', 60: 'sexagésimo',
                    70: 'septuagésimo', 80: 'octogésimo', 90: 'nonagésimo', 100: 'centésimo', 200: 'ducentésimo', 300: 'tricentésimo',
                    400: 'cuadringentésimo', 500: 'quingentésimo', 600: 'sexcentésimo', 700: 'septingentésimo', 800: 'octingentésimo',
                    900: 'noningentésimo', 1000: 'milésimo'},
             'pt': {1: 'primeiro', 2: 'segundo', 3: 'terceiro', 4: 'quarto', 5: 'quinto', 6: 'sexto', 7: 'sétimo', 8: 'oitavo', 9: 'nono', 10: 'décimo',
                    20: 'vigésimo', 30: 'trigésimo', 40: 'quadragésimo', 50: 'quinquagésimo', 60: 'sexagésimo', 70: 'septuagésimo', 80: 'octogésimo',
                    90: 'nonagésimo', 100: 'centésimo', 200: 'ducentésimo', 300: 'trecentésimo', 400: 'quadringentésimo', 500: 'quingentésimo',
                    600: 'sexcentésimo', 700: 'septingentésimo', 800: 'octingentésimo', 900: 'nongentésimo', 1000: 'milésimo'}}[lang]
        if n == 1000:
            return [[W[1000]]]
        h, r = divmod(n, 100)
        out = [W[h * 100]] if h else []
        if r in W:
            out.append(W[r])
        elif r:
            t, u = divmod(r, 10)
            out += [W[t * 10], W[u]]
        return [out]
    if lang == 'fr':
        if n == 1:
            return [['premier']]
        toks = list(_fr(n))
        last = toks[-1]
        if '-' in last:
            a, b = last.rsplit('-', 1)
            toks[-1] = a + '-' + _fr_ord_word(b)
        else:
            toks[-1] = _fr_ord_word(last)
        return [toks]
    return []


def en_ordinal_marker(n):
    if n % 100 in (11, 12, 13):
        return 'th'
    return {1: 'st', 2: 'nd', 3: 'rd'}.get(n % 10, 'th')
