"""Verdict protocol, evidence files, known findings, CLI."""
import json
import os
import sys
import time
import traceback

from . import facts as F

VERIF = F.VERIF
EVIDENCE_DIR = os.path.join(VERIF, 'evidence')
REPLAY_DIR = os.path.join(VERIF, 'replay')
KNOWN = os.path.join(VERIF, 'known_findings.json')


class Instance:
    __slots__ = ('rule', 'entity', 'verdict', 'detail', 'loc', 'nontrivial')

    def __init__(self, rule, entity, verdict, detail, loc, nontrivial=True):
        self.rule = rule
        self.entity = entity
        self.verdict = verdict  # 'ok' | 'violation' | 'anchor' | 'info'
        self.detail = detail
        self.loc = loc
        self.nontrivial = nontrivial

    @property
    def key(self):
        return '%s|%s' % (self.rule, self.entity)

    def to_json(self):
        return {'rule': self.rule, 'instance': self.entity, 'verdict': self.verdict,
                'detail': self.detail, 'at': self.loc}


class Report:
    """Collects rule instances for one property run."""

    def __init__(self, prop):
        self.prop = prop
        self.instances = []
        self.rules = {}      # rule id -> description
        self.floors = {}     # rule id -> (measured, floor)
        self.notes = []

    def rule(self, rid, desc):
        self.rules[rid] = desc

    def ok(self, rule, entity, detail='', loc=None, nontrivial=True):
        self.instances.append(Instance(rule, entity, 'ok', detail, loc, nontrivial))

    def violation(self, rule, entity, detail, loc=None):
        self.instances.append(Instance(rule, entity, 'violation', detail, loc))

    def anchor(self, rule, entity, detail, loc=None):
        """Missing anchor / unanalysable construct / count below floor: fail closed."""
        self.instances.append(Instance(rule, entity, 'anchor', detail, loc))

    def info(self, rule, entity, detail, loc=None):
        self.instances.append(Instance(rule, entity, 'info', detail, loc, nontrivial=False))

    def check(self, cond, rule, entity, detail_ok, detail_bad, loc=None):
        if cond:
            self.ok(rule, entity, detail_ok, loc)
        else:
            self.violation(rule, entity, detail_bad, loc)
        return cond

    def floor(self, rule, measured, floor, what):
        self.floors[rule] = {'measured': measured, 'floor': floor, 'what': what}
        if measured < floor:
            self.anchor(rule, 'FLOOR', '%s: measured %d < frozen floor %d (rule would pass vacuously)' % (what, measured, floor))

    def note(self, s):
        self.notes.append(s)

    def bad(self):
        return [i for i in self.instances if i.verdict in ('violation', 'anchor')]


def load_known():
    if not os.path.exists(KNOWN):
        return {'known': [], 'fixed': []}
    with open(KNOWN) as fh:
        return json.load(fh)


def finish(prop, tier, seed, level, rep, t0, facts_meta, explanation, assumptions, trusted_base=None,
           checker_cmd=None, write=True, quiet=False):
    """Write evidence, print KNOWN-FINDING / VIOLATION lines, return exit code."""
    known = load_known()
    known_keys = {k['key']: k for k in known.get('known', []) if k.get('property') == prop}
    bad = rep.bad()
    unknown = [i for i in bad if i.key not in known_keys]
    listed = [i for i in bad if i.key in known_keys]
    evaluated = [i for i in rep.instances if i.verdict != 'info']
    distinct = {i.key for i in evaluated if i.nontrivial}
    obligations = len(evaluated)
    discharged = len([i for i in evaluated if i.verdict == 'ok'])
    # samples: spread over rules
    samples = []
    seen_rules = {}
    for i in rep.instances:
        c = seen_rules.get(i.rule, 0)
        if c < 3:
            samples.append(i.to_json())
            seen_rules[i.rule] = c + 1
    for i in bad:
        j = i.to_json()
        if j not in samples:
            samples.append(j)
    per_rule = {}
    for i in evaluated:
        d = per_rule.setdefault(i.rule, {'instances': 0, 'ok': 0, 'violations': 0})
        d['instances'] += 1
        if i.verdict == 'ok':
            d['ok'] += 1
        else:
            d['violations'] += 1
    coverage = {
        'explanation': explanation,
        'rule': 'one evaluation = one rule instance (rule id | resolved program entity) enumerated from the '
                'facts extracted from the current source tree; distinct = distinct instance keys; '
                'non-trivial = the rule actually compared something for that instance',
        'evaluations': obligations,
        'distinct_nontrivial': len(distinct),
        'obligations': obligations,
        'discharged': discharged,
        'exhaustive': True,
        'rules': rep.rules,
        'per_rule': per_rule,
        'floors': rep.floors,
        'samples': samples[:60],
        'known_findings_reported': [i.key for i in listed],
        'info': [i.to_json() for i in rep.instances if i.verdict == 'info'][:80],
        'notes': rep.notes,
        'facts': facts_meta,
    }
    if level == 'proof':
        coverage['checker_cmd'] = checker_cmd or ('./check %s --tier %s' % (prop, tier))
        coverage['trusted_base'] = trusted_base or []
    ev = {
        'property_id': prop,
        'tier': tier,
        'seed': seed,
        'level': level,
        'coverage': coverage,
        'assumptions': assumptions,
        'wall_s': round(time.time() - t0, 3),
        'violations': len(unknown),
    }
    if write:
        os.makedirs(EVIDENCE_DIR, exist_ok=True)
        tmp = os.path.join(EVIDENCE_DIR, '.%s.json.tmp%d' % (prop, os.getpid()))
        with open(tmp, 'w') as fh:
            json.dump(ev, fh, indent=1, ensure_ascii=False)
        os.replace(tmp, os.path.join(EVIDENCE_DIR, prop + '.json'))
    if not quiet:
        print('%s tier=%s: %d rule instances, %d discharged, %d known finding(s), %d violation(s) [%.1fs]' % (
            prop, tier, obligations, discharged, len(listed), len(unknown), time.time() - t0))
        for rid in sorted(per_rule):
            d = per_rule[rid]
            print('  %-24s %4d instances  %4d ok  %3d failing   %s' % (rid, d['instances'], d['ok'], d['violations'],
                                                                      rep.rules.get(rid, '')[:90]))
    for i in listed:
        print('KNOWN-FINDING: property=%s %s %s' % (prop, i.key, known_keys[i.key].get('what', i.detail)))
    if unknown:
        os.makedirs(REPLAY_DIR, exist_ok=True)
        path = os.path.join(REPLAY_DIR, '%s-%s-%d.json' % (prop, tier, int(time.time())))
        with open(path, 'w') as fh:
            json.dump({'property': prop, 'tier': tier, 'tree_hash': facts_meta.get('tree_hash'),
                       'violations': [dict(i.to_json(), key=i.key) for i in unknown]}, fh, indent=1, ensure_ascii=False)
        for i in unknown:
            print('  %s %s | %s @ %s: %s' % ('ANCHOR' if i.verdict == 'anchor' else 'FAIL', i.rule, i.entity, i.loc, i.detail))
        print('VIOLATION property=%s replay=%s' % (prop, path))
        return 1
    return 0
