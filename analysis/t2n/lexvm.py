"""The lexical functions of the interpreters on the abstract machine.

Same role as peval.Evaluator/armtable.LexEvaluator (evaluate apply / apply_decimal / lemmatize / get_morph_marker /
is_decimal_sep / format_* / basic_annotate on lexicon constants with an abstract digit builder), but on MIR through
vm.VM, which supports far more of the language and of std than the HIR evaluator.  The interface the rules use is
kept: run_apply(word, Builder) -> (Res, Builder), call_fn(path, args), const_value, splitter, group_result.
"""
from .armtable import Compound, Splitter
from .facts import LANGS, interp_method, interp_ty
from .peval import Builder, Evaluator, Flags, Marker, Res, Tok, Unanalysable
from .vm import NONE, VM, Enum, Iter, Panic, Ref, Seq, Slice, Some, Struct, Unsupported

MM = 'lang::MorphologicalMarker'
OKU = Enum('core::result::Result', 'Ok', [()])


class SplitterObj:
    def __init__(self, model):
        self.model = model


def marker_to_vm(m):
    if m is None or m.kind == 'None':
        return Enum(MM, 'None')
    return Enum(MM, m.kind, [m.text])


def marker_from_vm(v):
    if isinstance(v, Enum) and v.variant != 'None':
        return Marker(v.variant, v.payload[0] if v.payload else None)
    return Marker('None')


def builder_to_vm(b):
    flags = b.flags.bits if isinstance(b.flags, Flags) else int(b.flags or 0)
    s = Struct('DigitString', {'marker': marker_to_vm(b.marker), 'flags': flags})
    s.fields['$digits'] = bytes(b.digits)
    s.fields['$lz'] = b.leading_zeroes
    s.fields['$ops'] = []
    s.fields['$frozen'] = b.frozen
    return s


def builder_back(s, b):
    b.ops.extend(s.fields['$ops'])
    new_marker = marker_from_vm(s.fields['marker'])
    if new_marker != b.marker:
        b.writes.append(('marker', new_marker))
    b.marker = new_marker
    b.flags = s.fields['flags']
    b.frozen = s.fields['$frozen']
    b.digits = s.fields['$digits']
    b.leading_zeroes = s.fields['$lz']


def res_from_vm(vm, r):
    if isinstance(r, Enum) and r.variant in ('Ok', 'Err'):
        p = vm.deref(r.payload[0]) if r.payload else ()
        if r.variant == 'Err':
            return Res(False, p.variant if isinstance(p, Enum) else p)
        return Res(True, p)
    return r


class LexEnv:
    def __init__(self, owner):
        self.owner = owner

    def call(self, vm, name, callee, resolved, args, t):
        d = vm.deref
        a0 = d(args[0]) if args else None
        if self.owner.real and isinstance(a0, Struct) and a0.name == 'DigitString' and '$digits' not in a0.fields and name.startswith('DigitString::'):
            m = name.split('::')[1]
            if m in ('put', 'fput', 'push', 'shift', 'put_digit_at', 'freeze', 'reset'):
                self.owner.oplog.setdefault(id(a0), []).append(
                    (m,) + tuple(bytes(d(x).items) if isinstance(d(x), (Seq, Slice)) else d(x) for x in args[1:] if not isinstance(d(x), Struct)))
            return NotImplemented          # the real method is interpreted
        if isinstance(a0, Struct) and a0.name == 'DigitString' and '$digits' in a0.fields and name.startswith('DigitString::'):
            m = name.split('::')[1]
            F = a0.fields
            dig = F['$digits']
            if m == 'is_empty':
                return not dig and F['$lz'] == 0
            if m == 'is_null':
                return not dig
            if m == 'len':
                return len(dig) + F['$lz']
            if m == 'peek':
                n = d(args[1])
                return Seq(list(dig[-n:] if n and dig else b''))
            if m == 'is_free':
                n = d(args[1])
                return (not dig and F['$lz'] == 0) or all(c == 0x30 for c in (dig[-n:] if n and dig else b''))
            if m == 'is_range_free':
                s_, e_ = d(args[1]), d(args[2])
                l = len(dig)
                if s_ > e_ or s_ >= l:
                    return True
                left = 0 if e_ >= l else l - e_ - 1
                return all(c == 0x30 for c in dig[left:l - s_])
            if m == 'is_position_free':
                p = d(args[1])
                return (not dig) or p > len(dig) - 1 or dig[len(dig) - 1 - p] == 0x30
            if m == 'is_ordinal':
                return F['marker'].variant == 'Ordinal'
            if m in ('put', 'fput', 'push', 'shift', 'put_digit_at'):
                F['$ops'].append((m,) + tuple(bytes(d(x).items) if isinstance(d(x), (Seq, Slice)) else
                                              (bytes(d(x).fields['$digits']) if isinstance(d(x), Struct) and '$digits' in d(x).fields else d(x)) for x in args[1:]))
                return OKU
            if m == 'freeze':
                F['$frozen'] = True
                F['$ops'].append(('freeze',))
                return ()
            if m == 'reset':
                F['$digits'], F['$lz'], F['$frozen'], F['flags'] = b'', 0, False, 0
                F['marker'] = Enum(MM, 'None')
                F['$ops'].append(('reset',))
                return ()
            if m == 'to_string':
                return '0' * F['$lz'] + dig.decode('latin-1')
            raise Unsupported('builder method ' + m)
        if name == 'DigitString::new' and not args:
            return NotImplemented if self.owner.real else builder_to_vm(Builder())
        if name == 'Deref::deref' and isinstance(a0, Struct) and a0.name == 'DigitString' and '$digits' in a0.fields:
            return Seq(list(a0.fields['$digits']))
        if isinstance(a0, SplitterObj):
            m = name.split('::')[-1]
            if m == 'is_splittable':
                return a0.model.is_splittable(d(args[1]))
            if m == 'split':
                return Iter(a0.model.split(d(args[1])))
        if name == 'WordSplitter::new':
            pats = d(args[0])
            items = pats.rest() if isinstance(pats, Iter) else list(pats.items)
            self.owner.captured_patterns = [d(x) for x in items]
            return Enum('core::result::Result', 'Ok', [SplitterObj(None)])
        if name == 'LangInterpreter::exec_group' and isinstance(a0, Struct) and a0.name == LANGS.get(self.owner.lang):
            gr = self.owner.group_result
            if gr is None and self.owner.real:
                return NotImplemented      # the provided method is interpreted: compounds are evaluated piece by piece
            it = d(args[1])
            pieces = [d(x) for x in it.rest()] if isinstance(it, Iter) else None
            if gr is None:
                raise Compound(pieces)
            if gr.ok:
                return Enum('core::result::Result', 'Ok', [builder_to_vm(gr.payload)])
            return Enum('core::result::Result', 'Err', [Enum('error::Error', gr.payload)])
        if isinstance(a0, Tok):
            m = name.split('::')[-1]
            if m == 'text_lowercase':
                return a0.lower
            if m == 'text':
                return a0.text
            if m == 'set_nan':
                a0.nan = bool(d(args[1]))
                return ()
        return NotImplemented


DS = 'digit_string::DigitString::'


class LexVM:
    def __init__(self, facts, lang, real=False):
        """real=False: the builder is an abstract state that logs operations (they always succeed).
        real=True: the builder is the crate's own DigitString, interpreted from its MIR (exact), operations are logged too."""
        self.facts = facts
        self.lang = lang
        self.real = real
        self.oplog = {}
        self.group_result = None
        self.captured_patterns = None
        self.env = LexEnv(self)
        self.vm = VM(facts, self.env)
        self._hir = Evaluator(facts)
        self.splitter = None
        fields = {}
        ty = interp_ty(lang)
        adt = facts.adts.get(ty)
        if adt and adt['variants'] and adt['variants'][0]['fields']:
            # run the constructor with the splitter constructor intercepted: the patterns are whatever it is given
            dflt = '<%s as core::default::Default>::default' % ty
            if facts.mir_body(dflt) is None:
                raise Unanalysable('no Default impl for ' + ty)
            try:
                self.vm.run(dflt, [])
            except (Unsupported, Panic) as e:
                raise Unanalysable('cannot evaluate %s: %s' % (dflt, e))
            if self.captured_patterns is not None:
                if not all(isinstance(p, str) for p in self.captured_patterns):
                    raise Unanalysable('non-string splitter patterns')
                self.splitter = Splitter(self.captured_patterns)
            for fd in adt['variants'][0]['fields']:
                fields[fd['name']] = SplitterObj(self.splitter) if 'WordSplitter' in fd['ty'] else ('opaque', fd['name'])
        self.self_value = Struct(LANGS[lang], fields)

    # -- conversions ------------------------------------------------------------------------------
    def real_builder(self, b):
        """A DigitString in the state described by `b`, built through the public API only."""
        vm = self.vm
        s = vm.run(DS + 'new', [])
        vm.heap_counter = getattr(vm, 'heap_counter', 0) + 1
        key = '$rb%d' % vm.heap_counter
        vm.heap[key] = s
        r = Ref('heap', key)
        for _ in range(b.leading_zeroes):
            vm.run(DS + 'put', [r, Seq([0x30])])
        if b.digits:
            vm.run(DS + 'push', [r, Seq(list(b.digits))])
        s.fields['marker'] = marker_to_vm(b.marker)
        s.fields['flags'] = b.flags.bits if isinstance(b.flags, Flags) else int(b.flags or 0)
        if b.frozen:
            vm.run(DS + 'freeze', [r])
        del vm.heap[key]
        self.oplog.pop(id(s), None)
        return s

    def real_back(self, s, b):
        vm = self.vm
        vm.heap_counter = getattr(vm, 'heap_counter', 0) + 1
        key = '$rb%d' % vm.heap_counter
        vm.heap[key] = s
        try:
            r = Ref('heap', key)
            text = vm.deref(vm.run(DS + 'to_string', [r]))
            nul = vm.deref(vm.run(DS + 'is_null', [r]))
            lz = len(text) if nul else len(text) - len(text.lstrip('0')) if False else None
            if lz is None:
                # zeros counted before the first digit: the length of the rendering minus the digits held (Deref gives the digits)
                imp = self.facts.mir_body('<digit_string::DigitString as core::ops::deref::Deref>::deref')
                nbuf = len(vm.deref(vm.run(imp, [r])).items) if imp is not None else len(text.lstrip('0'))
                lz = len(text) - nbuf
            b.digits = text[lz:].encode('latin-1')
            b.leading_zeroes = lz
            import copy
            probe = copy.deepcopy(s)
            vm.heap[key] = probe
            pr = vm.run(DS + 'push', [r, Seq([0x31])])
            b.frozen = isinstance(pr, Enum) and pr.variant == 'Err'
            self.oplog.pop(id(probe), None)
        finally:
            vm.heap.pop(key, None)
        b.ops.extend(self.oplog.pop(id(s), []))
        new_marker = marker_from_vm(s.fields['marker'])
        if new_marker != b.marker:
            b.writes.append(('marker', new_marker))
        b.marker = new_marker
        b.flags = s.fields['flags']

    def _to_vm(self, a, builders):
        if isinstance(a, Builder) and self.real:
            s = self.real_builder(a)
            self.vm.heap_counter = getattr(self.vm, 'heap_counter', 0) + 1
            key = '$b%d' % self.vm.heap_counter
            self.vm.heap[key] = s
            builders.append((key, s, a))
            return Ref('heap', key)
        if isinstance(a, Builder):
            s = builder_to_vm(a)
            self.vm.heap_counter = getattr(self.vm, 'heap_counter', 0) + 1
            key = '$b%d' % self.vm.heap_counter
            self.vm.heap[key] = s
            builders.append((key, s, a))
            return Ref('heap', key)
        if isinstance(a, list):
            return Seq([self._to_vm(x, builders) for x in a])
        if isinstance(a, Marker):
            return marker_to_vm(a)
        return a

    def _from_vm(self, r):
        r = self.vm.deref(r)
        if isinstance(r, Enum):
            if r.adt == MM:
                return marker_from_vm(r)
            if r.variant in ('Ok', 'Err'):
                p = self._from_vm(r.payload[0]) if r.payload else ()
                if r.variant == 'Err':
                    return Res(False, p.variant if isinstance(p, Enum) else p)
                return Res(True, p)
            if r.variant == 'Some':
                return ('Some', self._from_vm(r.payload[0]))
            if r.variant == 'None':
                return None
        if isinstance(r, Struct) and r.name == 'DigitString' and '$digits' not in r.fields:
            b = Builder()
            self.real_back(r, b)
            return b
        if isinstance(r, tuple):
            return tuple(self._from_vm(x) for x in r)
        if isinstance(r, Seq):
            return [self._from_vm(x) for x in r.items]
        return r

    def call_fn(self, path, args):
        builders = []
        vargs = [self._to_vm(a, builders) for a in args]
        try:
            r = self.vm.run(path, vargs)
        except Unsupported as e:
            raise Unanalysable(str(e))
        except Panic as e:
            raise Unanalysable('the evaluated code panics: %s' % e)
        finally:
            for key, s, b in builders:
                self.vm.heap.pop(key, None)
                if self.real:
                    self.real_back(s, b)
                else:
                    builder_back(s, b)
        return self._from_vm(r)

    def run_apply(self, word, builder=None):
        b = builder or Builder()
        r = self.call_fn(interp_method(self.lang, 'apply'), [self.self_value, word, b])
        return r, b

    def const_value(self, path):
        return self._hir.const_value(path)
