"""A small concrete/abstract interpreter for loop-free MIR bodies over finite domains.

Used to tabulate decision functions (hold/release policy, boolean conditions): the *source* of the
function is evaluated on every combination of a handful of finite-domain inputs; calls to functions
outside the body are answered by an oracle (an enumerated atom) and logged.  This is abstract
interpretation of one function, not an exploration of inputs of the library.
"""
from .mirx import X, pretty, short_callee, untag


class Unsupported(Exception):
    pass


class Ref:
    def __init__(self, kind, key, path=()):
        self.kind = kind      # 'local' | 'heap'
        self.key = key
        self.path = tuple(path)

    def __repr__(self):
        return 'Ref(%s,%s,%s)' % (self.kind, self.key, self.path)


class Enum:
    """Value of an enum: variant name + payload list."""

    def __init__(self, adt, variant, payload=()):
        self.adt = adt
        self.variant = variant
        self.payload = list(payload)

    def __eq__(self, o):
        return isinstance(o, Enum) and self.variant == o.variant and self.payload == o.payload

    def __hash__(self):
        return hash((self.variant, tuple(map(str, self.payload))))

    def __repr__(self):
        return '%s%s' % (self.variant, ('(%s)' % ', '.join(map(str, self.payload))) if self.payload else '')


class Struct:
    def __init__(self, name, fields):
        self.name = name
        self.fields = dict(fields)

    def __repr__(self):
        return '%s%s' % (self.name, self.fields)


class Interp:
    def __init__(self, facts, oracle=None, max_steps=4000):
        self.facts = facts
        self.oracle = oracle or (lambda desc, args: (_ for _ in ()).throw(Unsupported('call ' + desc)))
        self.log = []
        self.max_steps = max_steps

    # -- places ----------------------------------------------------------------------
    def _variants(self, adt_path, rv_variants=None):
        if rv_variants:
            return rv_variants
        a = self.facts.adts.get(adt_path)
        if a:
            return [v['name'] for v in a['variants']]
        return None

    def read_place(self, frame, pl):
        v = frame['locals'].get(pl['l'])
        if v is None and pl['l'] not in frame['locals']:
            raise Unsupported('read of uninitialised local _%d' % pl['l'])
        return self._project(frame, v, pl['p'])

    def _deref(self, frame, v):
        if isinstance(v, Ref):
            if v.kind == 'local':
                base = v.key[0]['locals'].get(v.key[1])
            else:
                base = frame['heap'][v.key] if v.key in frame['heap'] else self.heap[v.key]
            return self._walk(base, v.path)
        raise Unsupported('deref of non-reference %r' % (v,))

    def _walk(self, v, path):
        for p in path:
            v = self._field(v, p)
        return v

    def _field(self, v, p):
        if isinstance(v, Struct):
            return v.fields[p]
        if isinstance(v, Enum):
            if isinstance(p, tuple) and p[0] == 'dc':
                return v
            return v.payload[int(p)] if not isinstance(p, tuple) else v
        if isinstance(v, tuple) and not isinstance(p, tuple):
            return v[int(p)]
        raise Unsupported('field %r of %r' % (p, v))

    def _project(self, frame, v, proj):
        for p in proj:
            if p == 'deref':
                v = self._deref(frame, v)
            elif isinstance(p, dict) and 'f' in p:
                key = p.get('name') if isinstance(v, Struct) else p['f']
                if isinstance(v, Struct) and key not in v.fields:
                    key = str(p['f'])
                v = self._field(v, key)
            elif isinstance(p, dict) and 'dc' in p:
                continue
            else:
                raise Unsupported('projection %r' % (p,))
        return v

    def place_ref(self, frame, pl):
        """Reference to a place (for &mut / & borrows), following derefs through stored references."""
        cur = Ref('local', (frame, pl['l']), [])
        for p in pl['p']:
            if p == 'deref':
                v = self._load(frame, cur)
                if isinstance(v, (str, tuple)) and v != ():
                    # an opaque reference (oracle result, symbolic field, string constant): give it a cell
                    self._consts = getattr(self, '_consts', 0) + 1
                    key = '$opaque%d' % self._consts
                    self.heap[key] = ('opaque', '*%s' % (v,))
                    v = Ref('heap', key)
                if not isinstance(v, Ref):
                    raise Unsupported('deref of non-reference %r' % (v,))
                cur = Ref(v.kind, v.key, list(v.path))
            else:
                k = self._pkey(p)
                if k is not None:
                    cur = Ref(cur.kind, cur.key, list(cur.path) + [k])
        return cur

    def _load(self, frame, ref):
        if ref.kind == 'local':
            base = ref.key[0]['locals'].get(ref.key[1])
        else:
            base = self.heap[ref.key]
        return self._walk(base, ref.path)

    def _pkey(self, p):
        if isinstance(p, dict) and 'f' in p:
            return p.get('name') or str(p['f'])
        if isinstance(p, dict) and 'dc' in p:
            return None
        raise Unsupported('projection %r' % (p,))

    def write_ref(self, frame, ref, val):
        if ref.kind == 'local':
            fr, l = ref.key
            if not ref.path:
                fr['locals'][l] = val
            else:
                self._set_path(fr['locals'][l], ref.path, val)
        else:
            if not ref.path:
                self.heap[ref.key] = val
            else:
                self._set_path(self.heap[ref.key], ref.path, val)

    def _set_path(self, base, path, val):
        for p in path[:-1]:
            base = self._field(base, p)
        last = path[-1]
        if isinstance(base, Struct):
            base.fields[last] = val
        elif isinstance(base, Enum):
            base.payload[int(last)] = val
        else:
            raise Unsupported('write into %r' % (base,))

    def write_place(self, frame, pl, val):
        ref = self.place_ref(frame, pl)
        self.write_ref(frame, ref, val)

    # -- operands / rvalues ---------------------------------------------------------------
    def operand(self, frame, o):
        if o.get('k') == 'const':
            if 'int' in o:
                if o.get('ty') == 'bool':
                    return bool(o['int'])
                return o['int']
            s = o.get('s', '')
            if s.replace('const ', '') == '()':
                return ()
            # unit-like enum constants such as `const MatchKind::None`
            tail = s.replace('const ', '').split('::')[-1]
            ty = o.get('ty', '')
            if self.facts.adts.get(ty) and any(v['name'] == tail for v in self.facts.adts[ty]['variants']):
                return Enum(ty, tail)
            rty = ty.lstrip('&').strip()
            if ty.startswith('&') and self.facts.adts.get(rty) and any(v['name'] == tail for v in self.facts.adts[rty]['variants']):
                # promoted reference to a unit variant (`&MatchKind::None`)
                self._consts = getattr(self, '_consts', 0) + 1
                key = '$const%d' % self._consts
                self.heap[key] = Enum(rty, tail)
                return Ref('heap', key)
            return ('const', s.replace('const ', ''))
        return self.read_place(frame, o['pl'])

    def rvalue(self, frame, rv):
        k = rv['k']
        if k == 'use':
            return self.operand(frame, rv['op'])
        if k in ('ref', 'rawptr'):
            return self.place_ref(frame, rv['pl'])
        if k == 'copyforderef':
            return self.read_place(frame, rv['pl'])
        if k == 'discr':
            v = self.read_place(frame, rv['pl'])
            if isinstance(v, Enum):
                names = self._variants(rv.get('adt'), rv.get('variants'))
                if names and v.variant in names:
                    return names.index(v.variant)
            raise Unsupported('discriminant of %r' % (v,))
        if k == 'agg':
            ops = [self.operand(frame, o) for o in rv['ops']]
            if rv.get('ak') == 'tuple':
                return tuple(ops)
            if rv.get('ak') == 'adt':
                a = self.facts.adts.get(rv['adt'])
                if (a and a['kind'] == 'Enum') or rv['adt'].startswith(('core::option::Option', 'core::result::Result')):
                    return Enum(rv['adt'], rv['variant'], ops)
                return Struct(rv['adt'].split('::')[-1], zip(rv.get('fields', []), ops))
            if rv.get('ak') == 'closure':
                return ('closure', rv.get('def'), ops)
            raise Unsupported('aggregate ' + str(rv.get('ak')))
        if k == 'bin':
            a, b = self.operand(frame, rv['a']), self.operand(frame, rv['b'])
            op = rv['op']
            if op == 'Eq':
                return a == b
            if op == 'Ne':
                return a != b
            if op in ('Lt', 'Le', 'Gt', 'Ge') and isinstance(a, (int, float)) and isinstance(b, (int, float)):
                return {'Lt': a < b, 'Le': a <= b, 'Gt': a > b, 'Ge': a >= b}[op]
            if op in ('BitAnd', 'BitOr') and isinstance(a, bool) and isinstance(b, bool):
                return (a and b) if op == 'BitAnd' else (a or b)
            raise Unsupported('binary %s on %r, %r' % (op, a, b))
        if k == 'un':
            a = self.operand(frame, rv['a'])
            if rv['op'] == 'Not' and isinstance(a, bool):
                return not a
            raise Unsupported('unary ' + rv['op'])
        if k == 'cast':
            return self.operand(frame, rv['op'])
        raise Unsupported('rvalue ' + k)

    # -- calls -----------------------------------------------------------------------------
    def call(self, frame, t, x):
        name = short_callee(t.get('callee'))
        args = [self.operand(frame, a) for a in t['args']]
        desc = untag(pretty(x.desc_call(t, 60, frozenset())))

        def deref(v):
            return self._deref(frame, v) if isinstance(v, Ref) else v
        if name in ('PartialEq::eq', 'PartialEq::ne'):
            a, b = deref(args[0]), deref(args[1])
            while isinstance(a, Ref):
                a = deref(a)
            while isinstance(b, Ref):
                b = deref(b)
            if isinstance(a, Enum) and isinstance(b, Enum):
                r = (a == b)
                return r if name.endswith('eq') else not r
            return self.oracle(desc, args)
        if name == 'Option::take':
            cur = deref(args[0])
            self.write_ref(frame, args[0], Enum('core::option::Option', 'None'))
            self.log.append(('take', str(cur)))
            return cur
        if name == 'Option::replace':
            cur = deref(args[0])
            self.write_ref(frame, args[0], Enum('core::option::Option', 'Some', [args[1]]))
            self.log.append(('replace', str(cur), str(args[1])))
            return cur
        if name in ('VecDeque::push_back', 'Vec::push'):
            self.log.append(('push_back', str(args[1])))
            return ()
        if name == 'Extend::extend' and len(args) == 2:
            v = deref(args[1]) if isinstance(args[1], Ref) else args[1]
            if isinstance(v, Enum) and v.variant in ('Some', 'None'):
                if v.variant == 'Some':
                    self.log.append(('push_back', str(v.payload[0])))
                return ()
        if name in ('Option::is_some', 'Option::is_none'):
            v = deref(args[0])
            return (v.variant == 'Some') == (name == 'Option::is_some')
        # local function: interpret its body
        target = t.get('resolved') or t.get('callee')
        m = self.facts.mir_body(target)
        if m is not None and target.split('::')[0] in ('word_to_digit', 'lang', 'digit_string', 'tokenizer') and not t.get('trait'):
            return self.run(m, args)
        self.log.append(('call', desc))
        return self.oracle(desc, args)

    # -- driver -------------------------------------------------------------------------------
    def run(self, m, args, heap=None):
        if heap is not None:
            self.heap = heap
        x = X(m, self.facts)
        x.expand_named = True
        frame = {'locals': {}, 'heap': {}}
        for i, a in enumerate(args):
            frame['locals'][i + 1] = a
        bi = 0
        steps = 0
        while True:
            steps += 1
            if steps > self.max_steps:
                raise Unsupported('step limit (loop?)')
            b = m['blocks'][bi]
            for s in b['stmts']:
                if s['k'] == 'assign':
                    val = self.rvalue(frame, s['rv'])
                    self.write_place(frame, s['pl'], val)
                elif s['k'] == 'setdiscr':
                    raise Unsupported('setdiscr')
            t = b['term']
            k = t['k']
            if k == 'goto':
                bi = t['t']
            elif k == 'return':
                return frame['locals'].get(0, ())
            elif k == 'switch':
                v = self.operand(frame, t['op'])
                if isinstance(v, bool):
                    v = int(v)
                if not isinstance(v, int):
                    raise Unsupported('switch on %r' % (v,))
                nxt = t['otherwise']
                for val, tgt in t['targets']:
                    if val == v:
                        nxt = tgt
                        break
                bi = nxt
            elif k == 'drop':
                bi = t['t']
            elif k == 'call':
                r = self.call(frame, t, x)
                self.write_place(frame, t['dest'], r)
                if t.get('t') is None:
                    raise Unsupported('diverging call')
                bi = t['t']
            elif k == 'assert':
                bi = t['t']
            else:
                raise Unsupported('terminator ' + k)
