"""A tiny difference-constraint prover over descriptor strings (unsigned integers).

Facts and goals have the shape  x - y >= k  where x, y are *terms* (descriptor strings without a
constant offset, or the zero term '0').  Entailment = longest path in the constraint graph.
"""
import re

from .mirx import _split_rel, _balanced

ZERO = '0'
_INT = re.compile(r'^-?\d+$')


def split_top(s, ops):
    """Split '(a op b)' at its top-level binary operator (one of ops)."""
    if not (s.startswith('(') and s.endswith(')')):
        return None
    inner = s[1:-1]
    depth = 0
    i = 0
    while i < len(inner):
        c = inner[i]
        if c in '([':
            depth += 1
        elif c in ')]':
            depth -= 1
            if depth < 0:
                return None
        elif depth == 0 and c == ' ':
            for op in ops:
                tok = ' %s ' % op
                if inner.startswith(tok, i):
                    a, b = inner[:i], inner[i + len(tok):]
                    if _balanced(a) and _balanced(b):
                        return a, op, b
        i += 1
    return None


def lin(s):
    """term string -> (base, offset):  '(x - 1)' -> ('x', -1); '5' -> ('0', 5)."""
    s = s.strip()
    if _INT.match(s):
        return (ZERO, int(s))
    sp = split_top(s, ('+', '-'))
    if sp:
        a, op, b = sp
        if _INT.match(b):
            ba, oa = lin(a)
            return (ba, oa + int(b) if op == '+' else oa - int(b))
        if op == '+' and _INT.match(a):
            bb, ob = lin(b)
            return (bb, ob + int(a))
    return (s, 0)


class Constraints:
    def __init__(self):
        self.edges = {}  # (u, v) -> max w with u - v >= w
        self.terms = {ZERO}

    def add(self, u, v, w):
        """u - v >= w"""
        self.terms.add(u)
        self.terms.add(v)
        k = (u, v)
        if k not in self.edges or self.edges[k] < w:
            self.edges[k] = w

    def add_rel(self, x, op, y):
        bx, ox = lin(x)
        by, oy = lin(y)
        self._note(bx)
        self._note(by)
        if op == '<':        # x < y  =>  by - bx >= 1 + ox - oy
            self.add(by, bx, 1 + ox - oy)
        elif op == '<=':
            self.add(by, bx, ox - oy)
        elif op == '==':
            self.add(by, bx, ox - oy)
            self.add(bx, by, oy - ox)
        elif op == '!=':
            # only useful against zero for unsigned values
            if by == ZERO and oy == 0 and ox == 0:
                self.add(bx, ZERO, 1)
            elif bx == ZERO and ox == 0 and oy == 0:
                self.add(by, ZERO, 1)

    def _note(self, t):
        """Built-in knowledge about a term."""
        if t in self.terms and t != ZERO:
            pass
        self.terms.add(t)
        if t == ZERO:
            return
        self.add(t, ZERO, 0)  # unsigned
        sp = split_top(t, ('-',))
        if sp:
            a, _op, b = sp
            # a - b <= a   (checked subtraction on unsigned values)
            ba, oa = lin(a)
            self._note(ba)
            self.add(ba, t, -oa)
            # and (a - b) + b == a : t - ... not needed
        m = re.match(r'^Ord::min\((.*)\)$', t)
        if m:
            args = _split_args(m.group(1))
            for a in args:
                ba, oa = lin(a)
                self._note(ba)
                self.add(ba, t, -oa)  # a >= min  => ba + oa - t >= 0

    def add_fact(self, fact):
        """fact: a descriptor string such as '(x < y)', 'x != 0', 'x == 3'."""
        f = fact.strip()
        sp = _split_rel(f)
        if sp:
            a, op, b = sp
            self.add_rel(a, op, b)
            return True
        m = re.match(r'^(.*) (==|!=) (-?\d+)$', f)
        if m and _balanced(m.group(1)):
            self.add_rel(m.group(1), m.group(2), m.group(3))
            return True
        return False

    def lower_bound(self, u, v):
        """max k such that u - v >= k is entailed (None if unknown)."""
        self._note(u)
        self._note(v)
        best = {u: 0}
        # longest path from u (edges u->x meaning u - x >= w)
        nodes = list(self.terms)
        for _ in range(len(nodes) + 1):
            changed = False
            for (a, b), w in self.edges.items():
                if a in best:
                    nv = best[a] + w
                    if b not in best or best[b] < nv:
                        best[b] = nv
                        changed = True
            if not changed:
                break
        return best.get(v)

    def _close_compound(self):
        """For every compound term t = (a - b): t == a - b, so t >= lb(a - b) and a - t >= lb(b)..."""
        for t in list(self.terms):
            sp = split_top(t, ('-',))
            if not sp:
                continue
            a, _op, b = sp
            ba, oa = lin(a)
            bb, ob = lin(b)
            k = self.lower_bound(ba, bb)
            if k is not None:
                self.add(t, ZERO, k + oa - ob)

    def entails_ge(self, x, y, k=0):
        """x - y >= k ?  (x, y arbitrary term strings with constant offsets)"""
        bx, ox = lin(x)
        by, oy = lin(y)
        self._note(bx)
        self._note(by)
        self._close_compound()
        lb = self.lower_bound(bx, by)
        return lb is not None and lb + ox - oy >= k


def _split_args(s):
    out = []
    depth = 0
    cur = ''
    for c in s:
        if c in '([':
            depth += 1
        elif c in ')]':
            depth -= 1
        if c == ',' and depth == 0:
            out.append(cur.strip())
            cur = ''
        else:
            cur += c
    if cur.strip():
        out.append(cur.strip())
    return out


def split_call(s):
    """'Name::f(a, b)' -> ('Name::f', [a, b]) or None."""
    m = re.match(r'^([A-Za-z_][\w:<> ]*?)\((.*)\)$', s)
    if not m:
        return None
    if not _balanced(m.group(2)):
        return None
    return m.group(1), _split_args(m.group(2))
