"""CFG, dominators, reachability and small dataflow helpers over the serialised MIR."""
import re


class Body:
    def __init__(self, m):
        self.m = m
        self.path = m['path']
        self.blocks = m['blocks']
        self.n = len(self.blocks)
        self.succ = [self._succ(b) for b in self.blocks]
        self.pred = [[] for _ in range(self.n)]
        for i, ss in enumerate(self.succ):
            for s in ss:
                self.pred[s].append(i)
        self._dom = None
        self._pdom = None
        self.names = {}
        for d in m.get('debug', []):
            v = d.get('val')
            if v and 'l' in v and not v.get('p'):
                self.names.setdefault(v['l'], d['name'])
        self.arg_count = m['arg_count']

    # -- structure --------------------------------------------------------------------
    @staticmethod
    def _succ(b, include_unwind=False):
        t = b.get('term') or {}
        k = t.get('k')
        out = []
        if k == 'goto':
            out = [t['t']]
        elif k == 'switch':
            out = [x[1] for x in t['targets']] + [t['otherwise']]
        elif k in ('drop', 'assert'):
            out = [t['t']]
        elif k == 'call':
            if t.get('t') is not None:
                out = [t['t']]
        # unwind edges are deliberately excluded: panics are what B1 rules out, and cleanup
        # blocks perform no user-visible writes
        seen = []
        for s in out:
            if s not in seen:
                seen.append(s)
        return seen

    def term(self, i):
        return self.blocks[i].get('term') or {}

    def is_cleanup(self, i):
        return bool(self.blocks[i].get('cleanup'))

    def calls(self):
        """[(block index, terminator)] for all call terminators in non-cleanup blocks."""
        return [(i, self.term(i)) for i in range(self.n)
                if self.term(i).get('k') == 'call' and not self.is_cleanup(i)]

    def return_blocks(self):
        return [i for i in range(self.n) if self.term(i).get('k') == 'return']

    # -- reachability -----------------------------------------------------------------
    def reachable_from(self, start, avoid=()):
        """Blocks reachable from `start` (inclusive) without passing *through* blocks in avoid
        (an avoided block is not entered)."""
        avoid = set(avoid)
        seen = set()
        stack = [start]
        while stack:
            x = stack.pop()
            if x in seen or x in avoid:
                continue
            seen.add(x)
            stack.extend(self.succ[x])
        return seen

    def reaches(self, a, b, avoid=()):
        """True if b is reachable from the *successors* of a (i.e. after executing a)."""
        avoid = set(avoid)
        seen = set()
        stack = list(self.succ[a])
        while stack:
            x = stack.pop()
            if x in seen or x in avoid:
                continue
            if x == b:
                return True
            seen.add(x)
            stack.extend(self.succ[x])
        return False

    def reachable_after(self, a, avoid=()):
        out = set()
        for s in self.succ[a]:
            out |= self.reachable_from(s, avoid)
        return out

    # -- dominators (iterative, Cooper-Harvey-Kennedy) ---------------------------------
    def _compute_dom(self, succ, pred, roots):
        n = self.n
        # virtual root = n
        order = []
        seen = set()

        def dfs(r):
            stack = [(r, iter(succ(r)))]
            seen.add(r)
            while stack:
                node, it = stack[-1]
                adv = False
                for s in it:
                    if s not in seen:
                        seen.add(s)
                        stack.append((s, iter(succ(s))))
                        adv = True
                        break
                if not adv:
                    order.append(node)
                    stack.pop()

        for r in roots:
            if r not in seen:
                dfs(r)
        rpo = list(reversed(order))
        idx = {b: i for i, b in enumerate(rpo)}
        idom = {r: n for r in roots}
        idx[n] = -1
        changed = True

        def intersect(a, b):
            while a != b:
                while idx[a] > idx[b]:
                    a = idom[a]
                while idx[b] > idx[a]:
                    b = idom[b]
            return a

        while changed:
            changed = False
            for b in rpo:
                if b in roots:
                    continue
                ps = [p for p in pred(b) if p in idom]
                if not ps:
                    continue
                new = ps[0]
                for p in ps[1:]:
                    new = intersect(p, new)
                if idom.get(b) != new:
                    idom[b] = new
                    changed = True
        return idom

    def dom(self):
        if self._dom is None:
            self._dom = self._compute_dom(lambda b: self.succ[b], lambda b: self.pred[b], [0])
        return self._dom

    def dominates(self, a, b):
        """Block a dominates block b (a == b counts)."""
        idom = self.dom()
        if b not in idom:
            return False  # unreachable
        x = b
        while True:
            if x == a:
                return True
            if x == self.n or x not in idom:
                return False
            x = idom[x]

    def pdom(self):
        if self._pdom is None:
            exits = [i for i in range(self.n) if not self.succ[i] and not self.is_cleanup(i)]
            self._pdom = self._compute_dom(lambda b: self.pred[b], lambda b: self.succ[b], exits)
        return self._pdom

    def postdominates(self, a, b):
        ipd = self.pdom()
        if b not in ipd:
            return False
        x = b
        while True:
            if x == a:
                return True
            if x == self.n or x not in ipd:
                return False
            x = ipd[x]

    # -- edges -------------------------------------------------------------------------
    def edge_dominates(self, src, dst, b):
        """Every path from entry to b passes through the CFG edge src->dst."""
        if dst == b and len(self.pred[dst]) == 1:
            return True
        if not self.dominates(dst, b):
            return False
        # dst must only be enterable through src (otherwise dst dominating b is not enough):
        # check by removing the edge: is b still reachable from entry?
        seen = set()
        stack = [0]
        while stack:
            x = stack.pop()
            if x in seen:
                continue
            seen.add(x)
            for s in self.succ[x]:
                if x == src and s == dst:
                    continue
                stack.append(s)
        return b not in seen

    # -- loops --------------------------------------------------------------------------
    def back_edges(self):
        out = []
        for a in range(self.n):
            for s in self.succ[a]:
                if self.dominates(s, a):
                    out.append((a, s))
        return out

    def natural_loop(self, tail, head):
        body = {head}
        stack = [tail]
        while stack:
            x = stack.pop()
            if x in body:
                continue
            body.add(x)
            stack.extend(self.pred[x])
        return body

    # -- places / operands ----------------------------------------------------------------
    def local_name(self, l):
        return self.names.get(l, '_%d' % l)

    def assignments(self):
        """Yield (block, stmt index, place, rvalue) for all Assign statements."""
        for bi, b in enumerate(self.blocks):
            for si, s in enumerate(b['stmts']):
                if s['k'] == 'assign':
                    yield bi, si, s['pl'], s['rv']

    def defs_of(self, local):
        """All definitions of a whole local: ('assign', bi, si, rvalue) or ('call', bi, term)."""
        out = []
        for bi, b in enumerate(self.blocks):
            for si, s in enumerate(b['stmts']):
                if s['k'] == 'assign' and s['pl']['l'] == local and not s['pl']['p']:
                    out.append(('assign', bi, si, s['rv']))
            t = b.get('term') or {}
            if t.get('k') == 'call' and t['dest']['l'] == local and not t['dest']['p']:
                out.append(('call', bi, t))
        return out

    def resolve(self, op, depth=8):
        """Follow copies/moves/borrows/derefs of single-definition temporaries back to a root.
        Returns a descriptor dict:
          {'root': 'arg', 'local': n, 'proj': [...]} | {'root':'const', ...} |
          {'root':'call', 'callee':..., 'term':..., 'block':...} | {'root':'rv', 'rv':...} |
          {'root': 'local', 'local': n}
        """
        if op is None:
            return {'root': 'none'}
        if op.get('k') == 'const':
            return {'root': 'const', 'const': op}
        pl = op.get('pl') if 'pl' in op else op
        return self.resolve_place(pl, depth)

    def resolve_place(self, pl, depth=8):
        l = pl['l']
        proj = list(pl['p'])
        while depth > 0:
            depth -= 1
            if 1 <= l <= self.arg_count:
                return {'root': 'arg', 'local': l, 'proj': proj, 'name': self.local_name(l)}
            ds = self.defs_of(l)
            if len(ds) != 1:
                return {'root': 'local', 'local': l, 'proj': proj, 'ndefs': len(ds), 'name': self.local_name(l)}
            d = ds[0]
            if d[0] == 'call':
                return {'root': 'call', 'callee': d[2].get('resolved') or d[2].get('callee'), 'term': d[2],
                        'block': d[1], 'proj': proj}
            rv = d[3]
            k = rv['k']
            if k == 'use' and rv['op'].get('k') in ('copy', 'move'):
                src = rv['op']['pl']
                l = src['l']
                proj = list(src['p']) + proj
                continue
            if k in ('ref', 'copyforderef', 'rawptr'):
                src = rv['pl']
                l = src['l']
                # &(*x) and *(&x) cancel out
                p2 = list(src['p'])
                if k == 'ref':
                    if proj and proj[0] == 'deref':
                        proj = p2 + proj[1:]
                    else:
                        proj = p2 + ['ref'] + proj
                else:
                    proj = p2 + proj
                continue
            if k == 'use' and rv['op'].get('k') == 'const':
                return {'root': 'const', 'const': rv['op'], 'proj': proj}
            if k == 'cast' and rv['op'].get('k') in ('copy', 'move') and rv.get('ck', '').startswith('PointerCoercion'):
                src = rv['op']['pl']
                l = src['l']
                proj = list(src['p']) + proj
                continue
            return {'root': 'rv', 'rv': rv, 'block': d[1], 'stmt': d[2], 'proj': proj, 'local': l}
        return {'root': 'local', 'local': l, 'proj': proj, 'name': self.local_name(l)}


def proj_str(proj):
    out = []
    for p in proj:
        if p == 'deref':
            out.append('*')
        elif p == 'ref':
            out.append('&')
        elif isinstance(p, dict) and 'f' in p:
            out.append('.' + (p.get('name') or str(p['f'])))
        elif isinstance(p, dict) and 'dc' in p:
            out.append(' as ' + (p.get('name') or str(p['dc'])))
        elif isinstance(p, dict) and 'idx' in p:
            out.append('[_%d]' % p['idx'])
        else:
            out.append('[..]')
    return ''.join(out)


def field_names(proj):
    return [p.get('name') for p in proj if isinstance(p, dict) and 'f' in p]


def callee_of(term):
    return term.get('resolved') or term.get('callee')


_GEN = re.compile(r'::<[^<>]*(?:<[^<>]*(?:<[^<>]*>[^<>]*)*>[^<>]*)*>')


def strip_generics(path):
    """`std::vec::Vec::<T, A>::push` -> `std::vec::Vec::push` (display paths carry generic args)."""
    if path is None:
        return None
    prev = None
    while prev != path:
        prev = path
        path = _GEN.sub('', path)
    return path
