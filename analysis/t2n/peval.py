"""Partial evaluation of the lexical fragment of the interpreters (HIR level).

Evaluates *source trees* of lemmatize / get_morph_marker / is_decimal_sep / apply on lexicon constants,
with the digit builder replaced by an abstract stub that answers queries for a fresh builder and logs
the operations issued.  Any construct outside the fragment raises Unanalysable (rules fail closed).
"""
from . import hir as H


class Unanalysable(Exception):
    def __init__(self, what, node=None):
        super().__init__(what)
        self.what = what
        self.node = node


class Return(Exception):
    def __init__(self, value):
        self.value = value


class Break(Exception):
    def __init__(self, value, target=None):
        self.value = value
        self.target = target


class Continue(Exception):
    def __init__(self, target=None):
        self.target = target


class Marker:
    def __init__(self, kind, text=None):
        self.kind = kind   # 'Ordinal' | 'Fraction' | 'None'
        self.text = text

    def __eq__(self, o):
        return isinstance(o, Marker) and (self.kind, self.text) == (o.kind, o.text)

    def __hash__(self):
        return hash((self.kind, self.text))

    def __repr__(self):
        return '%s(%r)' % (self.kind, self.text) if self.kind != 'None' else 'None'


class Res:
    """Result<(), Error> / Result<DigitString, Error>"""

    def __init__(self, ok, payload=None):
        self.ok = ok
        self.payload = payload

    def __repr__(self):
        return ('Ok(%r)' % (self.payload,)) if self.ok else ('Err(%s)' % self.payload)

    def __eq__(self, o):
        return isinstance(o, Res) and (self.ok, self.payload) == (o.ok, o.payload)


class Flags:
    """A bitflags value."""

    def __init__(self, ty, bits):
        self.ty = ty
        self.bits = bits

    def __repr__(self):
        return '%s(%d)' % (self.ty.split('::')[-1], self.bits)


class Closure:
    def __init__(self, node, env):
        self.node = node
        self.env = env


class It:
    """A Rust iterator, materialised (all sources in the fragment are finite constants)."""

    def __init__(self, items):
        self.items = list(items)
        self.pos = 0

    def rest(self):
        return self.items[self.pos:]


class Tok:
    """Abstract token for the annotation passes (BasicAnnotate)."""

    def __init__(self, text):
        self.text = text
        self.lower = text.lower()
        self.nan = False

    def __repr__(self):
        return 'Tok(%r%s)' % (self.text, ',nan' if self.nan else '')


class Builder:
    """Abstract DigitString: queries answer for a *fresh* builder (optionally a small preset state);
    mutating operations are logged and succeed."""

    def __init__(self, digits=b'', leading_zeroes=0, marker=None, flags=0):
        self.digits = digits
        self.leading_zeroes = leading_zeroes
        self.marker = marker or Marker('None')
        self.flags = flags
        self.frozen = False
        self.ops = []
        self.writes = []   # (field, value)

    # queries
    def q_is_empty(self):
        return len(self.digits) == 0 and self.leading_zeroes == 0

    def q_is_null(self):
        return len(self.digits) == 0

    def q_len(self):
        return len(self.digits) + self.leading_zeroes

    def q_peek(self, n):
        return self.digits[-n:] if n and self.digits else b''

    def q_is_free(self, n):
        return self.q_is_empty() or all(c == 0x30 for c in self.q_peek(n))

    def q_is_range_free(self, s, e):
        l = len(self.digits)
        if s >= l:
            return True
        left = 0 if e >= l else l - e - 1
        return all(c == 0x30 for c in self.digits[left:l - s])

    def q_is_ordinal(self):
        return self.marker.kind == 'Ordinal'


STR_METHODS = {
    'core::str::ends_with', 'core::str::starts_with', 'core::str::contains', 'core::str::trim_end_matches',
    'core::str::trim_start_matches', 'core::str::len', 'core::str::is_empty', 'core::str::chars',
    'core::str::trim', 'core::str::to_lowercase', 'alloc::str::to_lowercase',
}


def _strip(path):
    from .mir import strip_generics
    return strip_generics(path or '')


class Evaluator:
    def __init__(self, facts, self_value=None):
        self.facts = facts
        self.self_value = self_value
        self.depth = 0
        self.consts = {}

    # -- entry points --------------------------------------------------------------------
    def call_fn(self, path, args):
        body = self.facts.body(path)
        if body is None:
            raise Unanalysable('no body for ' + path)
        if self.depth > 12:
            raise Unanalysable('recursion depth')
        env = {}
        for p, a in zip(body['params'], args):
            self.bind(p, a, env)
        self.depth += 1
        try:
            try:
                return self.eval(body['value'], env)
            except Return as r:
                return r.value
        finally:
            self.depth -= 1

    # -- patterns ---------------------------------------------------------------------------
    def bind(self, p, v, env):
        """Irrefutable binding."""
        if not self.match(p, v, env):
            raise Unanalysable('refutable parameter pattern', p)

    def match(self, p, v, env):
        k = p['k']
        if k == 'Wild':
            return True
        if k == 'Binding':
            if p.get('sub') and not self.match(p['sub'], v, env):
                return False
            env[p['bid']] = v
            return True
        if k == 'Lit':
            t, lv = H.lit_val(p['lit'])
            return self.lit_eq(lv, v)
        if k == 'Or':
            return any(self.match(q, v, env) for q in p['ps'])
        if k == 'Ref':
            return self.match(p['p'], v, env)
        if k == 'Tuple':
            if not isinstance(v, tuple) or len(v) != len(p['ps']):
                raise Unanalysable('tuple pattern on %r' % (v,), p)
            return all(self.match(q, x, env) for q, x in zip(p['ps'], v))
        if k == 'Path':
            path = p['res'].get('ctor_of') or p['res'].get('path') or ''
            return self.variant_is(v, path.split('::')[-1])
        if k == 'TupleStruct':
            path = p['res'].get('ctor_of') or p['res'].get('path') or ''
            name = path.split('::')[-1]
            if not self.variant_is(v, name):
                return False
            payload = self.variant_payload(v)
            if len(p['ps']) == 1:
                return self.match(p['ps'][0], payload, env)
            if len(p['ps']) == 0:
                return True
            raise Unanalysable('multi-field tuple struct pattern', p)
        if k == 'Struct':
            path = p['res'].get('path') or ''
            name = path.split('::')[-1]
            if isinstance(v, tuple) and v and v[0] == 'cf':
                if v[1] != name:
                    return False
                if len(p['fields']) == 1:
                    return self.match(p['fields'][0]['p'], v[2], env)
                return True
            if name in ('Some', 'None') and (v is None or (isinstance(v, tuple) and v and v[0] == 'Some')):
                if v is None or name == 'None':
                    return v is None and name == 'None'
                return len(p['fields']) == 1 and self.match(p['fields'][0]['p'], v[1], env)
            raise Unanalysable('struct pattern on %r' % (v,), p)
        raise Unanalysable('pattern kind ' + k, p)

    def variant_is(self, v, name):
        if isinstance(v, Marker):
            return v.kind == name
        if isinstance(v, Res):
            return (name == 'Ok') == v.ok if name in ('Ok', 'Err') else (not v.ok and v.payload == name)
        if isinstance(v, tuple) and v and v[0] == 'enum':
            return v[1] == name
        if v is None:
            return name == 'None'
        if isinstance(v, tuple) and v and v[0] == 'Some':
            return name == 'Some'
        if isinstance(v, str) and name in ('Overlap', 'NaN', 'Incomplete', 'Frozen'):
            return v == name
        raise Unanalysable('variant test %s on %r' % (name, v))

    def variant_payload(self, v):
        if isinstance(v, Marker):
            return v.text
        if isinstance(v, Res):
            return v.payload
        if isinstance(v, tuple) and v and v[0] == 'Some':
            return v[1]
        raise Unanalysable('payload of %r' % (v,))

    def lit_eq(self, lv, v):
        if isinstance(lv, bytes) and isinstance(v, (bytes, bytearray)):
            return bytes(v) == lv
        if isinstance(lv, (str, int, bool)) and type(lv) == type(v):
            return lv == v
        if isinstance(lv, str) and isinstance(v, str):
            return lv == v
        raise Unanalysable('literal %r vs %r' % (lv, v))

    # -- expressions --------------------------------------------------------------------------
    def eval(self, e, env):
        k = e['k']
        m = getattr(self, 'e_' + k, None)
        if m is None:
            raise Unanalysable('expression kind ' + k, e)
        return m(e, env)

    def e_Lit(self, e, env):
        t, v = H.lit_val(e['lit'])
        return v

    def e_Path(self, e, env):
        r = e['res']
        if r.get('t') == 'local':
            if r['id'] not in env:
                raise Unanalysable('unbound local ' + r['name'], e)
            return env[r['id']]
        if r.get('t') == 'def':
            path = r.get('ctor_of') or r['path']
            kind = r.get('kind', '')
            name = path.split('::')[-1]
            if path.endswith('MorphologicalMarker::None'):
                return Marker('None')
            if 'Ctor' in kind and path.startswith('error::Error::'):
                return name
            if 'Ctor' in kind and path.endswith('Option::None'):
                return None
            if 'Ctor' in kind:
                return ('ctor', path)
            if kind in ('AssocConst', 'Const') or 'Const' in kind:
                return self.const_value(r['path'])
            if kind in ('Fn', 'AssocFn'):
                return ('fn', r['path'])
        raise Unanalysable('path %s' % (r,), e)

    def const_value(self, path):
        if path in self.consts:
            return self.consts[path]
        body = self.facts.body(path)
        if body is None:
            raise Unanalysable('no body for const ' + path)
        v = self.eval(body['value'], {})
        self.consts[path] = v
        return v

    def e_AddrOf(self, e, env):
        return self.eval(e['e'], env)

    def e_Cast(self, e, env):
        return self.eval(e['e'], env)

    def e_Type(self, e, env):
        return self.eval(e['e'], env)

    def e_Unary(self, e, env):
        v = self.eval(e['e'], env)
        if e['op'] == 'Deref':
            return v
        if e['op'] == 'Not':
            if isinstance(v, bool):
                return not v
            if isinstance(v, Flags):
                return Flags(v.ty, ~v.bits & 0xFFFFFFFFFFFFFFFF)
            if isinstance(v, int):
                return ~v & 0xFFFFFFFFFFFFFFFF
        raise Unanalysable('unary %s on %r' % (e['op'], v), e)

    def e_Binary(self, e, env):
        op = e['op']
        if op == 'And':
            l = self.eval(e['l'], env)
            if not isinstance(l, bool):
                raise Unanalysable('&& on %r' % (l,), e)
            return l and self.truth(self.eval(e['r'], env), e)
        if op == 'Or':
            l = self.eval(e['l'], env)
            if not isinstance(l, bool):
                raise Unanalysable('|| on %r' % (l,), e)
            return l or self.truth(self.eval(e['r'], env), e)
        l, r = self.eval(e['l'], env), self.eval(e['r'], env)
        if op in ('Eq', 'Ne'):
            eq = self.values_eq(l, r, e)
            return eq if op == 'Eq' else not eq
        if op in ('Lt', 'Le', 'Gt', 'Ge'):
            if isinstance(l, (bytes, bytearray)) and isinstance(r, (bytes, bytearray)):
                l, r = bytes(l), bytes(r)
            elif not (isinstance(l, int) and isinstance(r, int)):
                raise Unanalysable('ordering on %r, %r' % (l, r), e)
            return {'Lt': l < r, 'Le': l <= r, 'Gt': l > r, 'Ge': l >= r}[op]
        if isinstance(l, Flags) and isinstance(r, Flags):
            if op == 'BitAnd':
                return Flags(l.ty, l.bits & r.bits)
            if op == 'BitOr':
                return Flags(l.ty, l.bits | r.bits)
        if isinstance(l, int) and isinstance(r, int):
            if op == 'Add':
                return l + r
            if op == 'Sub':
                return l - r
            if op == 'BitAnd':
                return l & r
            if op == 'BitOr':
                return l | r
            if op == 'Mul':
                return l * r
            if op == 'Shl':
                return (l << r) & 0xFFFFFFFFFFFFFFFF
            if op == 'Shr':
                return l >> r
            if op == 'BitXor':
                return l ^ r
        raise Unanalysable('binary %s on %r, %r' % (op, l, r), e)

    def truth(self, v, e):
        if not isinstance(v, bool):
            raise Unanalysable('non-boolean condition %r' % (v,), e)
        return v

    def values_eq(self, l, r, e):
        if isinstance(l, (bytes, bytearray)) and isinstance(r, (bytes, bytearray)):
            return bytes(l) == bytes(r)
        if type(l) == type(r) and isinstance(l, (str, int, bool, Marker, Res, tuple)):
            return l == r
        if isinstance(l, Flags) and isinstance(r, Flags):
            return l.bits == r.bits
        raise Unanalysable('equality of %r and %r' % (l, r), e)

    def e_If(self, e, env):
        c = e['c']
        if c['k'] == 'Let':
            v = self.eval(c['init'], env)
            if self.match(c['pat'], v, env):
                return self.eval(e['t'], env)
            return self.eval(e['e'], env) if e.get('e') else ()
        if self.truth(self.eval(c, env), c):
            return self.eval(e['t'], env)
        return self.eval(e['e'], env) if e.get('e') else ()

    def e_Match(self, e, env):
        v = self.eval(e['scrut'], env)
        for arm in e['arms']:
            env2 = dict(env)
            if self.match(arm['pat'], v, env2):
                if arm.get('guard') is not None and not self.truth(self.eval(arm['guard'], env2), arm['guard']):
                    continue
                env.update(env2)
                self.last_arm = arm
                return self.eval(arm['body'], env)
        raise Unanalysable('no arm matched %r' % (v,), e)

    def e_BlockExpr(self, e, env):
        return self.block(e['block'], env)

    def e_Block(self, e, env):
        return self.block(e, env)

    def block(self, b, env):
        for s in b['stmts']:
            k = s['k']
            if k == 'Let':
                if s.get('init') is None:
                    continue
                v = self.eval(s['init'], env)
                if not self.match(s['pat'], v, env):
                    raise Unanalysable('refutable let', s)
            elif k in ('Expr', 'Semi'):
                self.eval(s['e'], env)
            elif k == 'Item':
                continue
        if b.get('expr'):
            return self.eval(b['expr'], env)
        return ()

    def e_Loop(self, e, env):
        n = 0
        while True:
            n += 1
            if n > 5000:
                raise Unanalysable('loop bound exceeded', e)
            try:
                self.block(e['body'], env)
            except Break as b:
                if b.target in (None, e.get('id')):
                    return b.value
                raise
            except Continue as c:
                if c.target in (None, e.get('id')):
                    continue
                raise

    def e_Break(self, e, env):
        v = self.eval(e['e'], env) if e.get('e') else ()
        raise Break(v, e.get('target'))

    def e_Continue(self, e, env):
        raise Continue(e.get('target'))

    def e_Closure(self, e, env):
        return Closure(e, env)

    def call_closure(self, c, args):
        env = dict(c.env)
        for p, a in zip(c.node['params'], args):
            if not self.match(p, a, env):
                raise Unanalysable('refutable closure parameter', p)
        try:
            return self.eval(c.node['body'], env)
        except Return as r:
            return r.value

    def e_Index(self, e, env):
        base = self.eval(e['e'], env)
        idx = self.eval(e['i'], env)
        if isinstance(base, (list, bytes, bytearray)) and isinstance(idx, int):
            if not (0 <= idx < len(base)):
                raise Unanalysable('index %d out of bounds (len %d)' % (idx, len(base)), e)
            return base[idx]
        raise Unanalysable('index %r[%r]' % (base, idx), e)

    def e_AssignOp(self, e, env):
        l = H.peel(e['l'])
        cur = self.eval(l, env)
        r = self.eval(e['r'], env)
        op = e['op'].replace('Assign', '')
        fake = {'k': 'Binary', 'op': {'AddAssign': 'Add', 'SubAssign': 'Sub'}.get(e['op'], op), 'l': None, 'r': None}
        if isinstance(cur, int) and isinstance(r, int):
            v = cur + r if fake['op'] == 'Add' else cur - r if fake['op'] == 'Sub' else None
            if v is None:
                raise Unanalysable('compound assignment ' + e['op'], e)
            if l['k'] == 'Path' and l['res'].get('t') == 'local':
                env[l['res']['id']] = v
                return ()
        if isinstance(cur, str) and isinstance(r, str) and e['op'] in ('AddAssign', 'Add') and l['k'] == 'Path' and l['res'].get('t') == 'local':
            env[l['res']['id']] = cur + r
            return ()
        raise Unanalysable('compound assignment', e)

    def e_Ret(self, e, env):
        raise Return(self.eval(e['e'], env) if e.get('e') else ())

    def e_Tup(self, e, env):
        return tuple(self.eval(x, env) for x in e['es'])

    def e_Array(self, e, env):
        return [self.eval(x, env) for x in e['es']]

    def e_Assign(self, e, env):
        v = self.eval(e['r'], env)
        l = H.peel(e['l'])
        if l['k'] == 'Path' and l['res'].get('t') == 'local':
            env[l['res']['id']] = v
            return ()
        if l['k'] == 'Field':
            base = self.eval(l['e'], env)
            if isinstance(base, Builder):
                if l['name'] == 'marker':
                    base.marker = v
                elif l['name'] == 'flags':
                    base.flags = v
                else:
                    raise Unanalysable('write to builder field ' + l['name'], e)
                base.writes.append((l['name'], v))
                return ()
        raise Unanalysable('assignment target', e)

    def e_Field(self, e, env):
        base = self.eval(e['e'], env)
        if isinstance(base, Builder):
            if e['name'] == 'marker':
                return base.marker
            if e['name'] == 'flags':
                return base.flags
        if isinstance(base, dict) and e['name'] in base:
            return base[e['name']]
        if isinstance(base, tuple) and e['name'].isdigit():
            return base[int(e['name'])]
        raise Unanalysable('field %s of %r' % (e['name'], base), e)

    def e_Struct(self, e, env):
        path = e['res'].get('path') or ''
        fields = {f['name']: self.eval(f['e'], env) for f in e['fields']}
        if set(fields) == {'bits'} :
            return Flags(path, fields['bits'])
        return fields

    def fmt_index(self):
        if not hasattr(self, '_fmt'):
            self._fmt = {fa['macro_sp']: fa for fa in self.facts.format_args}
        return self._fmt

    def eval_format(self, e, env):
        """format!(..): template from the pre-lowering AST (format index), arguments from the lowered `args` tuple."""
        fa = self.fmt_index()[e['sp']]
        tup = None
        for n in H.walk(e):
            if n.get('k') == 'Let' and (n.get('pat') or {}).get('k') == 'Binding' and n['pat'].get('name') == 'args' and (n.get('init') or {}).get('k') == 'Tup':
                tup = n['init']
                break
        vals = [self.eval(x, env) for x in tup['es']] if tup else []
        out = ''
        for p in fa['pieces']:
            if 'lit' in p:
                out += p['lit']
                continue
            if not (p.get('trait') == 'Display' and p.get('plain')) or p['arg'] >= len(vals):
                raise Unanalysable('format placeholder %r' % (p,), e)
            v = vals[p['arg']]
            if isinstance(v, bool) or not isinstance(v, (str, int)):
                raise Unanalysable('format argument %r' % (v,), e)
            out += str(v)
        return out

    def e_Call(self, e, env):
        if e.get('exp') == 'macro:format' and e.get('sp') in self.fmt_index():
            return self.eval_format(e, env)
        f = H.peel(e['f'])
        callee = e.get('resolved') or e.get('callee')
        if f['k'] == 'Path' and f['res'].get('t') == 'def' and 'Ctor' in f['res'].get('kind', ''):
            path = f['res'].get('ctor_of') or f['res']['path']
            args = [self.eval(a, env) for a in e['args']]
            name = path.split('::')[-1]
            if 'MorphologicalMarker' in path:
                return Marker(name, args[0])
            if path.endswith('Result::Ok'):
                return Res(True, args[0])
            if path.endswith('Result::Err'):
                return Res(False, args[0])
            if path.endswith('Option::Some'):
                return ('Some', args[0])
            if path.startswith('phf::') and len(args) == 1:
                return args[0]          # phf::Slice::Static(&[..]) wraps the literal table
            raise Unanalysable('constructor ' + path, e)
        if callee is None:
            fv = self.eval(e['f'], env)
            args = [self.eval(a, env) for a in e['args']]
            if isinstance(fv, Closure):
                return self.call_closure(fv, args)
            if isinstance(fv, tuple) and len(fv) == 2 and fv[0] == 'fn':
                return self.apply_fn(fv[1], args, e, env)
            raise Unanalysable('indirect call of %r' % (fv,), e)
        args = [self.eval(a, env) for a in e['args']]
        if callee.endswith('try_trait::Try::branch') and len(args) == 1 and isinstance(args[0], Res):
            return ('cf', 'Continue', args[0].payload) if args[0].ok else ('cf', 'Break', Res(False, args[0].payload))
        if callee.endswith('try_trait::FromResidual::from_residual') and len(args) == 1:
            return args[0]
        return self.apply_fn(callee, args, e, env)

    def e_MethodCall(self, e, env):
        callee = e.get('resolved') or e.get('callee')
        recv = self.eval(e['recv'], env)
        args = [self.eval(a, env) for a in e['args']]
        if isinstance(recv, str) and e['name'] in ('push_str', 'push', 'insert_str', 'insert', 'clear', 'truncate', 'replace_range', 'pop') and \
                _strip(callee).startswith('alloc::string::String::'):
            target = H.peel(e['recv'])
            while target.get('k') in ('AddrOf',) or (target.get('k') == 'Unary' and target.get('op') == 'Deref'):
                target = H.peel(target['e'])
            if target.get('k') == 'Path' and target['res'].get('t') == 'local':
                n = e['name']
                ret = ()
                if n in ('push_str', 'push'):
                    new = recv + args[0]
                elif n in ('insert_str', 'insert'):
                    b = recv.encode('utf-8')
                    new = (b[:args[0]] + args[1].encode('utf-8') + b[args[0]:]).decode('utf-8')
                elif n == 'clear':
                    new = ''
                elif n == 'truncate':
                    new = recv.encode('utf-8')[:args[0]].decode('utf-8')
                elif n == 'pop':
                    new, ret = recv[:-1], (('Some', recv[-1]) if recv else None)
                else:
                    r = args[0]
                    b = recv.encode('utf-8')
                    lo, hi = (r.get('start', 0), r.get('end', len(b))) if isinstance(r, dict) else (r[1], r[2] + 1)
                    new = (b[:lo] + args[1].encode('utf-8') + b[hi:]).decode('utf-8')
                env[target['res']['id']] = new
                return ret
            raise Unanalysable('string mutation through a non-local place', e)
        return self.apply_fn(callee, [recv] + args, e, env, method=e['name'])

    # -- functions -------------------------------------------------------------------------------
    def apply_fn(self, callee, args, e, env, method=None):
        c = _strip(callee)
        name = method or c.split('::')[-1]
        a0 = args[0] if args else None
        r = self.collection_method(c, name, a0, args, e)
        if r is not NotImplemented:
            return r
        # --- functions of the language modules (helpers may take the builder as an argument)
        if callee and isinstance(a0, Builder) and not c.startswith('digit_string::') and \
                (callee.split('::')[0] == 'lang' or callee.startswith('<lang::')) and self.facts.body(callee) is not None:
            return self.call_fn(callee, args)
        # --- builder
        if c == 'digit_string::DigitString::new' and not args:
            return Builder()
        if isinstance(a0, Builder):
            b = a0
            if name in ('is_empty', 'is_null', 'len', 'is_ordinal'):
                return getattr(b, 'q_' + name)()
            if name in ('peek', 'is_free'):
                return getattr(b, 'q_' + name)(args[1])
            if name == 'is_range_free':
                return b.q_is_range_free(args[1], args[2])
            if name in ('put', 'fput', 'push', 'shift', 'put_digit_at'):
                b.ops.append((name,) + tuple(bytes(x) if isinstance(x, (bytes, bytearray)) else (bytes(x.digits) if isinstance(x, Builder) else x)
                                               for x in args[1:]))
                return Res(True, ())
            if name == 'freeze':
                b.frozen = True
                b.ops.append(('freeze',))
                return ()
            if name == 'reset':
                b.ops.append(('reset',))
                b.digits, b.leading_zeroes, b.marker, b.frozen = b'', 0, Marker('None'), False
                return ()
            if name == 'deref':
                return b.digits
            if name == 'to_string':
                return '0' * b.leading_zeroes + b.digits.decode('latin-1')
            raise Unanalysable('builder method ' + name, e)
        # --- strings
        if isinstance(a0, str) and c.startswith(('core::str::', 'alloc::str::', 'core::cmp::', 'alloc::string::', 'core::clone::', 'alloc::borrow::',
                                                  'core::convert::', 'core::ops::deref::', 'core::borrow::')) and not (len(a0) == 1 and c.startswith('core::char::')):
            return self.str_method(name, a0, args[1:], e)
        if isinstance(a0, float) and c.startswith('core::f64::') or isinstance(a0, float) and 'f64' in c:
            if name == 'recip':
                return 1.0 / a0
            raise Unanalysable('f64 method ' + name, e)
        if isinstance(a0, (bytes, bytearray)):
            if name == 'len':
                return len(a0)
            if name == 'is_empty':
                return len(a0) == 0
            if name in ('eq', 'ne'):
                r = bytes(a0) == bytes(args[1])
                return r if name == 'eq' else not r
        if isinstance(a0, str) and len(a0) == 1 and c.startswith('core::char::methods::'):
            ch = a0
            if name == 'is_whitespace':
                return ch.isspace()
            if name == 'is_ascii_whitespace':
                return ch in ' \t\n\r\x0c'
            if name == 'is_alphanumeric':
                return ch.isalnum()
            if name == 'is_alphabetic':
                return ch.isalpha()
            if name == 'is_ascii_digit':
                return ch in '0123456789'
            if name == 'is_numeric':
                return ch.isnumeric()
            if name == 'is_uppercase':
                return ch.isupper()
            if name == 'is_lowercase':
                return ch.islower()
        if name == 'unwrap':
            if isinstance(a0, tuple) and a0 and a0[0] == 'Some':
                return a0[1]
            if isinstance(a0, Res) and a0.ok:
                return a0.payload
            raise Unanalysable('unwrap of %r' % (a0,), e)
        # --- markers / results / flags
        if isinstance(a0, Marker) and name in ('is_ordinal', 'is_fraction', 'is_none'):
            return a0.kind == {'is_ordinal': 'Ordinal', 'is_fraction': 'Fraction', 'is_none': 'None'}[name]
        if isinstance(a0, Marker) and name in ('eq', 'ne'):
            r = a0 == args[1]
            return r if name == 'eq' else not r
        if isinstance(a0, Res) and name in ('is_ok', 'is_err'):
            return a0.ok == (name == 'is_ok')
        if isinstance(a0, Flags):
            if name == 'contains':
                return (a0.bits & args[1].bits) == args[1].bits
            if name == 'bits':
                return a0.bits
            if name == 'is_empty':
                return a0.bits == 0
        if name in ('from_bits_truncate', 'empty', 'all', 'from_bits_unchecked') and 'Excludable' in c or 'Restriction' in c and name in ('from_bits_truncate', 'empty'):
            ty = c.rsplit('::', 1)[0]
            if name == 'empty':
                return Flags(ty, 0)
            if name == 'from_bits_truncate':
                return Flags(ty, args[0] & self.flags_all(ty))
        # --- local functions of the lexical fragment
        if self.facts.body(callee) is not None and callee.split('::')[0] in ('lang',) or \
                (callee.startswith('<lang::') and self.facts.body(callee) is not None):
            return self.call_fn(callee, args)
        if c.endswith('LangInterpreter::get_morph_marker') or c.endswith('::is_decimal_sep') or c.endswith('::is_linking'):
            raise Unanalysable('unresolved trait call ' + c, e)
        raise Unanalysable('call of %s on %r' % (c, a0), e)

    def collection_method(self, c, name, a0, args, e):
        """Vec / slice / iterator / Option / range / token stubs.  Returns NotImplemented when not applicable."""
        # tokens
        if isinstance(a0, Tok):
            if name == 'text_lowercase':
                return a0.lower
            if name == 'text':
                return a0.text
            if name == 'set_nan':
                a0.nan = bool(args[1])
                return ()
            return NotImplemented
        # constructors
        if c in ('alloc::vec::Vec::new',) and not args:
            return []
        if c == 'alloc::vec::Vec::with_capacity':
            return []
        if c.endswith('RangeInclusive::new') and len(args) == 2:
            return ('rangei', args[0], args[1])
        if c.endswith('IntoIterator::into_iter') or name == 'into_iter':
            if isinstance(a0, It):
                return a0
            if isinstance(a0, (list, tuple)) and not (isinstance(a0, tuple) and a0 and a0[0] in ('rangei', 'Some', 'pieces', 'cf', 'enum')):
                return It(a0)
            if isinstance(a0, tuple) and a0 and a0[0] == 'pieces':
                return It(a0[1])
            if isinstance(a0, dict) and set(a0) == {'start', 'end'}:
                return It(range(a0['start'], a0['end']))
            if isinstance(a0, tuple) and a0 and a0[0] == 'rangei':
                return It(range(a0[1], a0[2] + 1))
            return NotImplemented
        if isinstance(a0, (list,)) or (isinstance(a0, (bytes, bytearray)) and name in ('iter', 'len', 'is_empty', 'contains', 'last', 'first')):
            seq = a0
            if name == 'iter':
                return It(seq)
            if name == 'len':
                return len(seq)
            if name == 'is_empty':
                return len(seq) == 0
            if name == 'contains':
                return args[1] in seq
            if name == 'push' and isinstance(seq, list):
                seq.append(args[1])
                return ()
            if name == 'clear' and isinstance(seq, list):
                del seq[:]
                return ()
            if name == 'last':
                return ('Some', seq[-1]) if len(seq) else None
            if name == 'first':
                return ('Some', seq[0]) if len(seq) else None
            if name in ('deref', 'as_slice', 'as_ref', 'borrow'):
                return seq
            if name == 'index' or name == 'index_mut':
                i = args[1]
                if isinstance(i, int) and 0 <= i < len(seq):
                    return seq[i]
                raise Unanalysable('index out of bounds', e)
        if isinstance(a0, tuple) and a0 and a0[0] == 'rangei' and name == 'contains':
            return a0[1] <= args[1] <= a0[2]
        if isinstance(a0, dict) and set(a0) == {'start', 'end'} and name == 'contains':
            return a0['start'] <= args[1] < a0['end']
        if isinstance(a0, str) and name == 'chars' and False:
            return It(list(a0))
        if isinstance(a0, It):
            it = a0
            if name == 'next':
                if it.pos < len(it.items):
                    it.pos += 1
                    return ('Some', it.items[it.pos - 1])
                return None
            rest = it.rest()

            def call(f, *xs):
                if isinstance(f, Closure):
                    return self.call_closure(f, list(xs))
                if isinstance(f, tuple) and f and f[0] == 'fn':
                    return self.apply_fn(f[1], list(xs), e, {})
                raise Unanalysable('callable %r' % (f,), e)
            if name == 'enumerate':
                return It([(i, x) for i, x in enumerate(rest)])
            if name == 'rev':
                return It(list(reversed(rest)))
            if name in ('copied', 'cloned', 'by_ref', 'peekable', 'fuse'):
                return It(rest)
            if name == 'map':
                return It([call(args[1], x) for x in rest])
            if name == 'filter':
                return It([x for x in rest if self.truth(call(args[1], x), e)])
            if name == 'filter_map':
                out = []
                for x in rest:
                    v = call(args[1], x)
                    if v is not None:
                        if not (isinstance(v, tuple) and v and v[0] == 'Some'):
                            raise Unanalysable('filter_map closure returned %r' % (v,), e)
                        out.append(v[1])
                return It(out)
            if name == 'take_while':
                out = []
                for x in rest:
                    if not self.truth(call(args[1], x), e):
                        break
                    out.append(x)
                return It(out)
            if name == 'skip':
                return It(rest[args[1]:])
            if name == 'take':
                return It(rest[:args[1]])
            if name == 'all':
                return all(self.truth(call(args[1], x), e) for x in rest)
            if name == 'any':
                return any(self.truth(call(args[1], x), e) for x in rest)
            if name == 'find':
                for x in rest:
                    if self.truth(call(args[1], x), e):
                        return ('Some', x)
                return None
            if name == 'position':
                for i, x in enumerate(rest):
                    if self.truth(call(args[1], x), e):
                        return ('Some', i)
                return None
            if name == 'count':
                return len(rest)
            if name == 'last':
                return ('Some', rest[-1]) if rest else None
            if name == 'collect':
                return list(rest)
            return NotImplemented
        # Option helpers
        if (a0 is None or (isinstance(a0, tuple) and a0 and a0[0] == 'Some')) and c.startswith('core::option::Option'):
            if name == 'is_some':
                return a0 is not None
            if name == 'is_none':
                return a0 is None
            if name == 'unwrap_or':
                return a0[1] if a0 is not None else args[1]
            if name == 'map':
                if a0 is None:
                    return None
                f = args[1]
                return ('Some', self.call_closure(f, [a0[1]]) if isinstance(f, Closure) else self.apply_fn(f[1], [a0[1]], e, {}))
        return NotImplemented

    def flags_all(self, ty):
        # union of all associated constants of the flags type
        bits = 0
        for b in self.facts.data['bodies']:
            if b['kind'].startswith('AssocConst') and b['path'].startswith(ty + '::'):
                v = self.const_value(b['path'])
                if isinstance(v, Flags):
                    bits |= v.bits
        return bits

    def str_method(self, name, s, args, e):
        if name in ('ends_with', 'starts_with', 'contains'):
            pat = args[0]
            pats = pat if isinstance(pat, list) else [pat]
            if not all(isinstance(p, str) for p in pats):
                raise Unanalysable('pattern %r' % (pat,), e)
            if name == 'ends_with':
                return any(s.endswith(p) for p in pats)
            if name == 'starts_with':
                return any(s.startswith(p) for p in pats)
            return any(p in s for p in pats)
        if name in ('trim_end_matches', 'trim_start_matches'):
            pat = args[0]
            pats = pat if isinstance(pat, list) else [pat]
            if not all(isinstance(p, str) and p for p in pats):
                raise Unanalysable('pattern %r' % (pat,), e)
            changed = True
            while changed:
                changed = False
                for p in pats:
                    if name == 'trim_end_matches' and s.endswith(p):
                        s = s[:-len(p)]
                        changed = True
                    elif name == 'trim_start_matches' and s.startswith(p):
                        s = s[len(p):]
                        changed = True
            return s
        if name == 'len':
            return len(s.encode('utf-8'))
        if name == 'is_empty':
            return s == ''
        if name == 'chars':
            return It(list(s))
        if name == 'bytes':
            return It(list(s.encode('utf-8')))
        if name == 'split_whitespace':
            return It(s.split())
        if name == 'split':
            if isinstance(args[0], str):
                return It(s.split(args[0]))
        if name in ('eq_ignore_ascii_case',):
            return s.lower() == args[0].lower()
        if name == 'trim_matches':
            pats = args[0] if isinstance(args[0], list) else [args[0]]
            return s.strip(''.join(pats))
        if name in ('strip_suffix', 'strip_prefix'):
            pat = args[0]
            if name == 'strip_suffix' and s.endswith(pat):
                return ('Some', s[:-len(pat)] if pat else s)
            if name == 'strip_prefix' and s.startswith(pat):
                return ('Some', s[len(pat):])
            return None
        if name in ('to_string', 'to_owned', 'as_str', 'clone', 'into', 'as_ref', 'deref', 'borrow', 'into_boxed_str', 'from'):
            return s
        if name == 'parse':
            import re as _re
            if _re.fullmatch(r'[+-]?(\d+\.?\d*|\.\d+)([eE][+-]?\d+)?', s):
                return Res(True, float(s))
            return Res(False, 'ParseFloatError')
        if name == 'trim':
            return s.strip()
        if name == 'to_lowercase':
            return s.lower()
        if name in ('eq', 'ne'):
            r = s == args[0]
            return r if name == 'eq' else not r
        raise Unanalysable('str method ' + name, e)
