"""Path queries between call sites of one MIR body (callee identity by resolved def-path)."""
import re

from .mirx import X, pretty, short_callee, untag


class Q:
    def __init__(self, x):
        self.x = x
        self._calls = None

    def all_calls(self):
        if self._calls is None:
            self._calls = []
            for bi, t in self.x.calls():
                self._calls.append((bi, short_callee(t.get('callee')), untag(pretty(self.x.desc_call(t, 60, frozenset()))), t))
        return self._calls

    def calls(self, name, argpat=None):
        """Blocks whose terminator calls `name` (short callee) with a rendering matching argpat."""
        out = []
        for bi, n, d, t in self.all_calls():
            if n == name and (argpat is None or re.search(argpat, d)):
                out.append(bi)
        return out

    def desc(self, bi):
        for b, n, d, t in self.all_calls():
            if b == bi:
                return d
        return None

    def term(self, bi):
        return self.x.term(bi)

    def return_values(self):
        """[(block, descriptor)] of every value written to the return place (assignments and call results)."""
        x = self.x
        out = [(bi, untag(pretty(x.desc_rvalue(rv)))) for bi, si, pl, rv in x.assignments() if pl['l'] == 0 and not pl['p']]
        for bi, t in x.calls():
            if t['dest']['l'] == 0 and not t['dest']['p']:
                out.append((bi, untag(pretty(x.desc_call(t, 60, frozenset())))))
        return out

    def returns(self):
        return self.x.return_blocks()

    def facts(self, bi):
        return [untag(pretty(f)) for f in self.x.facts_at(bi)]

    def edge_targets(self, fact):
        """Targets of switch edges that carry exactly this fact: [(src, dst)]."""
        out = []
        for src, dst, f, _l in self._edges():
            if untag(pretty(f)) == fact:
                out.append((src, dst))
        return out

    def edge_targets_re(self, pat):
        out = []
        for src, dst, f, _l in self._edges():
            if re.search(pat, untag(pretty(f))):
                out.append((src, dst, untag(pretty(f))))
        return out

    def _edges(self):
        if not hasattr(self.x, '_edge_facts'):
            self.x._edge_facts = self.x.edge_facts()
        return self.x._edge_facts

    def must_pass(self, starts, through, until=None):
        """Every path from any block in `starts` to a return (or to a block in `until`) passes through a
        block of `through` (a start block that is itself in `through` counts)."""
        through = set(through)
        goals = set(until) if until is not None else set(self.returns())
        seen = set()
        stack = [s for s in starts if s not in through]
        while stack:
            b = stack.pop()
            if b in seen:
                continue
            seen.add(b)
            if b in goals:
                return False
            for s in self.x.succ[b]:
                if s not in through:
                    stack.append(s)
        return True

    def reachable(self, starts, stop=()):
        """Blocks reachable from starts (inclusive) without entering `stop` blocks."""
        stop = set(stop)
        seen = set()
        stack = [s for s in starts if s not in stop]
        while stack:
            b = stack.pop()
            if b in seen:
                continue
            seen.add(b)
            for s in self.x.succ[b]:
                if s not in stop:
                    stack.append(s)
        return seen

    def dominated_by_call(self, site, call_blocks):
        return any(self.x.dominates(c, site) and c != site for c in call_blocks)
