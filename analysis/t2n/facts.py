"""Fact extraction (drives the rustc_private driver) and fact indexes.

The facts always come from the *current working tree* of the analysed repository: the
cache key is a SHA-256 over Cargo.toml, Cargo.lock and every file under src/, plus the
driver binary and the configuration, so a changed byte forces re-extraction.
"""
import hashlib
import json
import os
import shutil
import subprocess
import sys
import tempfile
import time
import uuid

VERIF = os.path.dirname(os.path.dirname(os.path.dirname(os.path.abspath(__file__))))
DRIVER_DIR = os.path.join(VERIF, 'driver')
DRIVER = os.path.join(DRIVER_DIR, 'target', 'release', 't2n-facts')
CACHE = os.path.join(VERIF, '.cache')

CONFIGS = {
    # name -> extra rustflags
    'dbg': '',
    'rel': '-C debug-assertions=off -C overflow-checks=off',
}


class ExtractionError(Exception):
    pass


def _sysroot_lib():
    out = subprocess.run(['rustc', '+nightly', '--print', 'sysroot'], capture_output=True, text=True)
    if out.returncode != 0:
        raise ExtractionError('nightly toolchain not available: ' + out.stderr)
    return os.path.join(out.stdout.strip(), 'lib')


def ensure_driver():
    if os.path.exists(DRIVER):
        # rebuild when sources are newer than the binary
        newest = 0
        for root, _d, files in os.walk(os.path.join(DRIVER_DIR, 'src')):
            for f in files:
                newest = max(newest, os.path.getmtime(os.path.join(root, f)))
        if newest <= os.path.getmtime(DRIVER):
            return
    env = dict(os.environ, CARGO_NET_OFFLINE='true')
    r = subprocess.run(['cargo', '+nightly', 'build', '--release', '--offline'], cwd=DRIVER_DIR,
                       env=env, capture_output=True, text=True)
    if r.returncode != 0 or not os.path.exists(DRIVER):
        raise ExtractionError('driver build failed:\n' + r.stderr[-4000:])


def tree_hash(repo):
    h = hashlib.sha256()
    files = []
    for name in ('Cargo.toml', 'Cargo.lock'):
        p = os.path.join(repo, name)
        if os.path.exists(p):
            files.append(p)
    for root, dirs, fs in os.walk(os.path.join(repo, 'src')):
        dirs.sort()
        for f in sorted(fs):
            files.append(os.path.join(root, f))
    for p in files:
        h.update(os.path.relpath(p, repo).encode())
        h.update(b'\0')
        with open(p, 'rb') as fh:
            h.update(fh.read())
        h.update(b'\0')
    return h.hexdigest()


def _driver_hash():
    h = hashlib.sha256()
    with open(DRIVER, 'rb') as fh:
        h.update(fh.read())
    return h.hexdigest()[:12]


def _cargo_env(cfg, target_dir, out=None, nonce=None, crate='text2num'):
    env = dict(os.environ)
    env['T2N_CRATE'] = crate
    env['CARGO_NET_OFFLINE'] = 'true'
    env['LD_LIBRARY_PATH'] = _sysroot_lib() + ':' + env.get('LD_LIBRARY_PATH', '')
    env['RUSTFLAGS'] = ('-Zmir-opt-level=0 -Awarnings ' + CONFIGS[cfg]).strip()
    env['RUSTC_WORKSPACE_WRAPPER'] = DRIVER
    env['CARGO_TARGET_DIR'] = target_dir
    env.pop('T2N_FACTS_OUT', None)
    if out:
        env['T2N_FACTS_OUT'] = out
        env['T2N_NONCE'] = nonce
    return env


def _deps_key(repo, cfg):
    h = hashlib.sha256()
    for name in ('Cargo.toml', 'Cargo.lock'):
        p = os.path.join(repo, name)
        if os.path.exists(p):
            with open(p, 'rb') as fh:
                h.update(fh.read())
    h.update(cfg.encode())
    return h.hexdigest()[:12]


def ensure_deps_target(repo, cfg):
    """Pre-check the dependencies of `repo` once; extraction copies this directory."""
    ensure_driver()
    os.makedirs(CACHE, exist_ok=True)
    d = os.path.join(CACHE, 'deps-%s-%s' % (cfg, _deps_key(repo, cfg)))
    if os.path.isdir(d) and os.path.exists(os.path.join(d, '.ready')):
        return d
    tmp = d + '.tmp-' + uuid.uuid4().hex[:8]
    try:
        r = subprocess.run(['cargo', '+nightly', 'check', '--offline', '--lib'], cwd=repo,
                           env=_cargo_env(cfg, tmp), capture_output=True, text=True)
        if r.returncode != 0:
            # the tree itself may not compile; deps can still be fine.  Keep going only if
            # the dependency artefacts exist.
            if not os.path.isdir(os.path.join(tmp, 'debug', 'deps')):
                raise ExtractionError('dependency check failed:\n' + r.stderr[-3000:])
        open(os.path.join(tmp, '.ready'), 'w').close()
        try:
            os.rename(tmp, d)
        except OSError:
            shutil.rmtree(tmp, ignore_errors=True)  # lost a race: another process made it
    finally:
        if os.path.isdir(tmp):
            shutil.rmtree(tmp, ignore_errors=True)
    return d


def extract(repo, cfg='dbg', use_cache=True, crate='text2num'):
    """Return (facts_dict, meta). Always reflects the current working tree of `repo`."""
    t0 = time.time()
    ensure_driver()
    os.makedirs(CACHE, exist_ok=True)
    th = tree_hash(repo)
    key = '%s-%s-%s-%s' % (th[:24], cfg, _driver_hash(), crate)
    cached = os.path.join(CACHE, 'facts-%s.json' % key)
    if use_cache and os.path.exists(cached):
        try:
            with open(cached) as fh:
                data = json.load(fh)
            return data, {'tree_hash': th, 'cfg': cfg, 'cached': True, 'extract_s': round(time.time() - t0, 2)}
        except Exception:
            pass
    scratch = tempfile.mkdtemp(prefix='t2n-extract-')
    try:
        target = os.path.join(scratch, 'target')
        try:
            deps = ensure_deps_target(repo, cfg)
            shutil.copytree(deps, target, symlinks=True)
            fp = os.path.join(target, 'debug', '.fingerprint')
            if os.path.isdir(fp):
                for n in os.listdir(fp):
                    if n.startswith(crate + '-'):
                        shutil.rmtree(os.path.join(fp, n), ignore_errors=True)
        except ExtractionError:
            shutil.rmtree(target, ignore_errors=True)
        out = os.path.join(scratch, 'facts.json')
        nonce = uuid.uuid4().hex
        r = subprocess.run(['cargo', '+nightly', 'check', '--offline', '--lib'], cwd=repo,
                           env=_cargo_env(cfg, target, out, nonce, crate), capture_output=True, text=True)
        if r.returncode != 0:
            raise ExtractionError('cargo check of %s failed (the tree must compile):\n%s' % (repo, r.stderr[-6000:]))
        if not os.path.exists(out):
            raise ExtractionError('driver wrote no fact file (cargo skipped the wrapper?)\n' + r.stderr[-2000:])
        with open(out) as fh:
            data = json.load(fh)
        if data.get('nonce') != nonce:
            raise ExtractionError('stale fact file: nonce mismatch')
        if th != tree_hash(repo):
            raise ExtractionError('source tree changed during extraction')
        tmpc = cached + '.' + nonce[:8]
        shutil.copyfile(out, tmpc)
        os.replace(tmpc, cached)
        _prune_cache()
        return data, {'tree_hash': th, 'cfg': cfg, 'cached': False, 'extract_s': round(time.time() - t0, 2)}
    finally:
        shutil.rmtree(scratch, ignore_errors=True)


def _prune_cache(keep=12):
    try:
        fs = [os.path.join(CACHE, f) for f in os.listdir(CACHE) if f.startswith('facts-') and f.endswith('.json')]
        fs.sort(key=os.path.getmtime, reverse=True)
        for f in fs[keep:]:
            os.remove(f)
    except OSError:
        pass


# ---------------------------------------------------------------------------------------

LANGS = {
    'de': 'German', 'en': 'English', 'es': 'Spanish', 'fr': 'French',
    'it': 'Italian', 'nl': 'Dutch', 'pt': 'Portuguese',
}
TRAIT = 'lang::LangInterpreter'


def interp_ty(lang):
    return 'lang::%s::%s' % (lang, LANGS[lang])


def interp_method(lang, name):
    return '<%s as %s>::%s' % (interp_ty(lang), TRAIT, name)


class Facts:
    def __init__(self, data, meta, repo):
        self.data = data
        self.meta = meta
        self.repo = repo
        self.bodies = {}
        for b in data['bodies']:
            self.bodies.setdefault(b['path'], b)
        self.mir = {}
        for m in data['mir']:
            self.mir.setdefault(m['path'], m)
        self.items = data['items']
        self.fns = {f['path']: f for f in self.items['fns']}
        self.adts = {a['path']: a for a in self.items['adts']}
        self.format_args = data['format_args']

    def body(self, path):
        return self.bodies.get(path)

    def mir_body(self, path):
        return self.mir.get(path)

    def variant_name(self, adt_path, idx):
        a = self.adts.get(adt_path)
        if not a:
            return None
        for v in a['variants']:
            if v['idx'] == idx:
                return v['name']
        return None

    def loc(self, sp):
        """file:line from a span string (for reports only)."""
        if not sp:
            return '?'
        parts = sp.split(':')
        return parts[0] + ':' + parts[1] if len(parts) >= 2 else sp


def load(repo, cfg='dbg', crate='text2num'):
    data, meta = extract(repo, cfg, crate=crate)
    return Facts(data, meta, repo)
