"""Queries over the serialised HIR trees."""


def is_node(x):
    return isinstance(x, dict) and 'k' in x


def children(n):
    """Direct child nodes (dicts with 'k') of a node, in source order."""
    out = []
    for key, v in n.items():
        if key in ('res', 'lit'):
            continue
        if isinstance(v, dict):
            if 'k' in v:
                out.append(v)
            else:
                out.extend(children_of_plain(v))
        elif isinstance(v, list):
            for x in v:
                if isinstance(x, dict):
                    if 'k' in x:
                        out.append(x)
                    else:
                        out.extend(children_of_plain(x))
    return out


def children_of_plain(d):
    out = []
    for key, v in d.items():
        if key in ('res', 'lit'):
            continue
        if isinstance(v, dict):
            if 'k' in v:
                out.append(v)
            else:
                out.extend(children_of_plain(v))
        elif isinstance(v, list):
            for x in v:
                if isinstance(x, dict):
                    if 'k' in x:
                        out.append(x)
                    else:
                        out.extend(children_of_plain(x))
    return out


def walk(n):
    """Pre-order traversal of all nodes below (and including) n."""
    stack = [n]
    while stack:
        x = stack.pop()
        if not isinstance(x, dict):
            continue
        if 'k' in x:
            yield x
        cs = children(x) if 'k' in x else children_of_plain(x)
        for c in reversed(cs):
            stack.append(c)


def find(n, kind):
    return [x for x in walk(n) if x.get('k') == kind]


def peel(e):
    """Strip reference-taking, derefs, trivial blocks and casts: value-identity wrappers."""
    while isinstance(e, dict):
        k = e.get('k')
        if k == 'AddrOf':
            e = e['e']
        elif k == 'Unary' and e.get('op') == 'Deref':
            e = e['e']
        elif k == 'BlockExpr' and not e['block']['stmts'] and e['block'].get('expr'):
            e = e['block']['expr']
        elif k == 'Block' and not e['stmts'] and e.get('expr'):
            e = e['expr']
        elif k in ('Cast', 'Type'):
            e = e['e']
        else:
            break
    return e


def local_id(e):
    """Binding id if e (peeled) is a path to a local, else None."""
    e = peel(e)
    if isinstance(e, dict) and e.get('k') == 'Path' and e['res'].get('t') == 'local':
        return e['res']['id']
    return None


def local_name(e):
    e = peel(e)
    if isinstance(e, dict) and e.get('k') == 'Path' and e['res'].get('t') == 'local':
        return e['res']['name']
    return None


def def_path(e):
    e = peel(e)
    if isinstance(e, dict) and e.get('k') == 'Path' and e['res'].get('t') == 'def':
        return e['res']['path']
    return None


def lit(e):
    """(type, value) of a literal expression (peeled), else None.  bytestr -> bytes."""
    e = peel(e)
    if isinstance(e, dict) and e.get('k') == 'Lit':
        return lit_val(e['lit'])
    return None


def lit_val(l):
    t = l['t']
    if t == 'bytestr':
        return ('bytes', bytes(l['v']))
    if t == 'byte':
        return ('byte', l['v'])
    return (t, l.get('v'))


def pat_literals(p):
    """List of (type, value) literals of a pattern made of literals / or-patterns; None if the
    pattern contains anything else (wildcards and bindings return [])."""
    k = p['k']
    if k == 'Lit':
        return [lit_val(p['lit'])]
    if k == 'Or':
        out = []
        for q in p['ps']:
            r = pat_literals(q)
            if r is None:
                return None
            out.extend(r)
        return out
    if k in ('Wild',):
        return []
    if k == 'Binding' and not p.get('sub'):
        return []
    if k == 'Ref':
        return pat_literals(p['p'])
    return None


def pat_is_catchall(p):
    return p['k'] == 'Wild' or (p['k'] == 'Binding' and not p.get('sub'))


def param_binding(body, index):
    """(binding id, name) of the index-th parameter of a body (None for non-binding patterns)."""
    ps = body['params']
    if index >= len(ps):
        return None
    p = ps[index]
    if p['k'] == 'Binding':
        return (p['bid'], p['name'])
    return None


def lets(body_value):
    """Map binding id -> init expression for `let <binding> = init;` statements (single binding
    patterns only)."""
    out = {}
    for n in walk(body_value):
        if n.get('k') == 'Let' and 'pat' in n and n['pat']['k'] == 'Binding' and n.get('init'):
            out[n['pat']['bid']] = n['init']
    return out


def assigned_locals(body_value):
    """Set of binding ids that are assigned (x = ..) or compound-assigned after declaration."""
    out = set()
    for n in walk(body_value):
        if n.get('k') in ('Assign', 'AssignOp'):
            lid = local_id(n['l'])
            if lid is not None:
                out.add(lid)
    return out


def callee(e):
    """Resolved callee path of a Call / MethodCall (prefers the resolved instance)."""
    if e.get('k') in ('Call', 'MethodCall'):
        return e.get('resolved') or e.get('callee')
    return None


def declared_callee(e):
    if e.get('k') in ('Call', 'MethodCall'):
        return e.get('callee')
    return None


# ---------------------------------------------------------------------------------------
# canonical rendering (for reports and for comparing guard atoms independent of formatting)

_BIN = {'Eq': '==', 'Ne': '!=', 'Lt': '<', 'Le': '<=', 'Gt': '>', 'Ge': '>=', 'And': '&&', 'Or': '||',
        'Add': '+', 'Sub': '-', 'Mul': '*', 'Div': '/', 'Rem': '%', 'BitAnd': '&', 'BitOr': '|', 'BitXor': '^',
        'Shl': '<<', 'Shr': '>>'}


def _short(path):
    # last two segments of a def path
    if path is None:
        return '?'
    p = path
    if p.startswith('<') and '>::' in p:
        head, tail = p.rsplit('>::', 1)
        ty = head[1:].split(' as ')[0].split('::')[-1]
        return ty + '::' + tail
    segs = p.split('::')
    return '::'.join(segs[-2:]) if len(segs) >= 2 else p


def render(e, names=None):
    """Deterministic, formatting-independent rendering of an expression."""
    if e is None:
        return '_'
    e = peel(e)
    k = e.get('k')
    if k == 'Lit':
        t, v = lit_val(e['lit'])
        if t == 'bytes':
            return 'b"%s"' % v.decode('latin-1')
        if t == 'str':
            return '"%s"' % v
        if t == 'char':
            return "'%s'" % v
        if t == 'byte':
            return "b'%s'" % chr(v)
        return str(v).lower() if t == 'bool' else str(v)
    if k == 'Path':
        r = e['res']
        if r.get('t') == 'local':
            if names and r['id'] in names:
                return names[r['id']]
            return r['name']
        return _short(r.get('path') or r.get('name') or r.get('dbg'))
    if k == 'MethodCall':
        return '%s.%s(%s)' % (render(e['recv'], names), e['name'], ', '.join(render(a, names) for a in e['args']))
    if k == 'Call':
        f = e.get('callee')
        fn = _short(f) if f else render(e['f'], names)
        return '%s(%s)' % (fn, ', '.join(render(a, names) for a in e['args']))
    if k == 'Binary':
        return '(%s %s %s)' % (render(e['l'], names), _BIN.get(e['op'], e['op']), render(e['r'], names))
    if k == 'Unary':
        op = {'Not': '!', 'Neg': '-', 'Deref': '*'}.get(e['op'], e['op'])
        return '%s%s' % (op, render(e['e'], names))
    if k == 'Field':
        return '%s.%s' % (render(e['e'], names), e['name'])
    if k == 'Index':
        return '%s[%s]' % (render(e['e'], names), render(e['i'], names))
    if k == 'Tup':
        return '(%s)' % ', '.join(render(x, names) for x in e['es'])
    if k == 'Array':
        return '[%s]' % ', '.join(render(x, names) for x in e['es'])
    if k == 'If':
        return 'if %s {%s} else {%s}' % (render(e['c'], names), render(e['t'], names), render(e.get('e'), names))
    if k == 'Match':
        return 'match %s {..}' % render(e['scrut'], names)
    if k == 'BlockExpr':
        return '{..}'
    if k == 'Struct':
        return '%s{..}' % _short(e['res'].get('path'))
    if k == 'Closure':
        return '|..| %s' % render(e['body'], names)
    if k == 'Let':
        return 'let %s = %s' % (render_pat(e['pat']), render(e['init'], names))
    if k == 'Assign':
        return '%s = %s' % (render(e['l'], names), render(e['r'], names))
    if k == 'Ret':
        return 'return %s' % render(e.get('e'), names)
    return '<%s>' % k


def render_pat(p):
    k = p['k']
    if k == 'Lit':
        t, v = lit_val(p['lit'])
        if t == 'bytes':
            return 'b"%s"' % v.decode('latin-1')
        if t == 'str':
            return '"%s"' % v
        return str(v)
    if k == 'Or':
        return ' | '.join(render_pat(q) for q in p['ps'])
    if k == 'Wild':
        return '_'
    if k == 'Binding':
        return p['name']
    if k in ('TupleStruct',):
        return '%s(%s)' % (_short(p['res'].get('path')), ', '.join(render_pat(q) for q in p['ps']))
    if k == 'Path':
        return _short(p['res'].get('path'))
    if k == 'Tuple':
        return '(%s)' % ', '.join(render_pat(q) for q in p['ps'])
    if k == 'Struct':
        return '%s{..}' % _short(p['res'].get('path'))
    if k == 'Ref':
        return '&' + render_pat(p['p'])
    return '<%s>' % k


def conjuncts(e):
    """Flatten a && b && c into [a, b, c] (peeled)."""
    e = peel(e)
    if e.get('k') == 'Binary' and e.get('op') == 'And':
        return conjuncts(e['l']) + conjuncts(e['r'])
    return [e]


def disjuncts(e):
    e = peel(e)
    if e.get('k') == 'Binary' and e.get('op') == 'Or':
        return disjuncts(e['l']) + disjuncts(e['r'])
    return [e]


def norm_atom(e, names=None):
    """Normal form of a boolean atom: `a != b` and `!(a == b)` render identically; operands of
    == / != are ordered."""
    e = peel(e)
    neg = False
    while e.get('k') == 'Unary' and e.get('op') == 'Not':
        neg = not neg
        e = peel(e['e'])
    if e.get('k') == 'Binary' and e.get('op') in ('Eq', 'Ne'):
        a, b = render(e['l'], names), render(e['r'], names)
        if b < a:
            a, b = b, a
        is_ne = (e['op'] == 'Ne') != neg
        return '(%s %s %s)' % (a, '!=' if is_ne else '==', b)
    s = render(e, names)
    return ('!' + s) if neg else s
