"""Rules on the scanner / parser / tracker (src/word_to_digit.rs):
B7 RESET-MUST + SCRATCH-HYGIENE, B13 OCC-CONSTRUCTION, B14 SCANNER-STRUCTURE, B15 SHARED-INTERPRETER."""
import re

from ..mirx import X, pretty, short_callee, untag
from ..paths import Q
from .panics import callgraph

FN = "word_to_digit::FindNumbers::<'a, L, T, I>::"
PARSER = "word_to_digit::WordToDigitParser::<'a, T>::"
TRACKER = 'word_to_digit::NumTracker::'
ITER_NEXT = "<word_to_digit::FindNumbers<'_, L, T, I> as core::iter::traits::iterator::Iterator>::next"


def q(ctx, path, expand=True):
    def mk():
        m = ctx.facts.mir_body(path)
        if not m:
            return None
        x = X(m, ctx.facts)
        x.expand_named = expand
        return Q(x)
    return ctx.memo(('Q', path, expand), mk)


def _loc(ctx, qq, bi):
    return ctx.facts.loc(qq.term(bi).get('sp'))


# ---------------------------------------------------------------------------------------
def rule_reset_must(ctx, rep):
    R = 'B7-RESET-MUST'
    rep.rule(R, 'WordToDigitParser::string_and_value resets the parser on every path after formatting, and chooses the '
                'decimal formatter iff is_dec && !dec_part.is_empty()')
    qq = q(ctx, PARSER + 'string_and_value')
    if qq is None:
        rep.anchor(R, 'string_and_value', 'not found')
        return
    resets = qq.calls('WordToDigitParser::reset', r'^WordToDigitParser::reset\(self\)$')
    fmt = qq.calls('LangInterpreter::format_and_value') + qq.calls('LangInterpreter::format_decimal_and_value')
    rep.check(len(fmt) == 2, R, 'format-calls', 'one integer and one decimal formatter call',
              'expected exactly one call of each formatter, found %d' % len(fmt))
    ok = bool(resets) and qq.must_pass([0], resets) and all(qq.must_pass([f], resets) for f in fmt)
    rep.check(ok, R, 'string_and_value|reset', 'every path through string_and_value calls self.reset() after formatting',
              'a path through string_and_value returns without self.reset(): the next number starts from stale digits / decimal mode',
              ctx.facts.loc(qq.x.m['sp']))
    # the formatted result is what is returned (reset does not touch it)
    dec = qq.calls('LangInterpreter::format_decimal_and_value')
    integ = qq.calls('LangInterpreter::format_and_value')
    if dec and integ:
        fd = qq.facts(dec[0])
        fi = qq.facts(integ[0])
        rep.check('self.is_dec' in fd and '!DigitString::is_empty(self.dec_part)' in fd, R, 'decimal-formatter-guard',
                  'decimal formatter only under is_dec && !dec_part.is_empty()',
                  'decimal formatter reachable without is_dec && !dec_part.is_empty() (facts %s)' % fd, _loc(ctx, qq, dec[0]))
        rep.check(qq.desc(dec[0]) == 'LangInterpreter::format_decimal_and_value(self.lang, self.int_part, self.dec_part)'
                  and qq.desc(integ[0]) == 'LangInterpreter::format_and_value(self.lang, self.int_part)', R, 'formatter-args',
                  'formatters receive (int_part, dec_part) resp. int_part',
                  'formatter arguments are %s / %s' % (qq.desc(dec[0]), qq.desc(integ[0])), _loc(ctx, qq, dec[0]))
        # "nothing usable after the separator" falls back to the integer: the integer formatter is reached
        # from both !is_dec and is_dec && dec_part.is_empty()
        srcs = set()
        for src, dst, fact in qq.edge_targets_re(r'^!self\.is_dec$|^DigitString::is_empty\(self\.dec_part\)$'):
            if integ[0] in qq.reachable([dst]):
                srcs.add(fact)
        rep.check(srcs == {'!self.is_dec', 'DigitString::is_empty(self.dec_part)'}, R, 'integer-fallback',
                  'integer formatter reached when not decimal or when the fraction is empty',
                  'integer formatter is reached from %s only' % sorted(srcs), _loc(ctx, qq, integ[0]))


def rule_decimal_entry(ctx, rep):
    R = 'B7-DECIMAL-ENTRY'
    rep.rule(R, 'WordToDigitParser::push enters decimal mode only when the word was rejected, not already decimal, the '
                'integer part is non-empty and not an ordinal, and the word is the decimal separator; it then returns Incomplete')
    qq = q(ctx, PARSER + 'push')
    if qq is None:
        rep.anchor(R, 'push', 'not found')
        return
    x = qq.x
    sites = [(s_[0], s_[4]) for s_ in x.mut_analysis()['sites'] if s_[1] == 'assign' and untag(pretty(s_[5])) == 'self.is_dec']
    rep.check(len(sites) == 1, R, 'is_dec-writes', 'is_dec is set at one place',
              'is_dec is written at %d places in push' % len(sites))
    for bi, si in sites:
        facts = qq.facts(bi)
        loc = ctx.facts.loc(x.blocks[bi]['stmts'][si]['sp'])
        need = {
            'word rejected': any(re.match(r'^Result::is_err\(', f) for f in facts),
            'not already decimal': '!self.is_dec' in facts,
            'integer part non-empty': '!DigitString::is_empty(self.int_part)' in facts,
            'separator word': 'LangInterpreter::is_decimal_sep(self.lang, a2)' in facts,
        }
        missing = [k for k, v in need.items() if not v]
        rep.check(not missing, R, 'is_dec=true|guards', 'decimal mode entered only under all four conditions',
                  'decimal mode is entered without: %s (facts %s)' % (', '.join(missing), facts), loc)
        # decimal (+) ordinal: an ordinal integer part must not become a decimal
        no_ord = any(f in ('!DigitString::is_ordinal(self.int_part)', '!WordToDigitParser::is_ordinal(self)') for f in facts)
        rep.check(no_ord, R, 'is_dec=true|not-ordinal', 'an ordinal integer part never enters decimal mode',
                  'decimal mode can be entered on an ordinal integer part: the occurrence is then flagged ordinal while its text is a '
                  'decimal without marker (e.g. "sixteenth point six" -> "16.6", is_ordinal)', loc)
        rets = [untag(pretty(x.desc_rvalue(rv))) for b2, s2, pl, rv in x.assignments() if pl['l'] == 0 and not pl['p'] and b2 == bi]
        rep.check(rets == ['Err(Incomplete)'], R, 'is_dec=true|returns-incomplete', 'returns Err(Incomplete)',
                  'after entering decimal mode push returns %s' % rets, loc)
    # which builder each mode feeds
    a = qq.calls('LangInterpreter::apply')
    d = qq.calls('LangInterpreter::apply_decimal')
    ok = (len(a) == 1 and len(d) == 1 and qq.desc(a[0]) == 'LangInterpreter::apply(self.lang, a2, self.int_part)'
          and qq.desc(d[0]) == 'LangInterpreter::apply_decimal(self.lang, a2, self.dec_part)'
          and '!self.is_dec' in qq.facts(a[0]) and 'self.is_dec' in qq.facts(d[0]))
    rep.check(ok, R, 'mode-dispatch', 'integer words go to int_part via apply, fraction words to dec_part via apply_decimal',
              'mode dispatch is not apply(int_part) under !is_dec / apply_decimal(dec_part) under is_dec')


# ---------------------------------------------------------------------------------------
def rule_scratch_hygiene(ctx, rep):
    """Typestate of scratch builders in the annotation passes."""
    R = 'B7-SCRATCH-HYGIENE'
    rep.rule(R, 'a scratch DigitString of an annotation pass is Fresh (new/reset) whenever it is handed to apply; '
                'it becomes Dirty on the success edge of an apply and stays Fresh on the failure edge')
    f = ctx.facts
    n = 0
    for path in sorted(f.mir):
        if not path.endswith('::basic_annotate') or path.startswith('<lang::Language'):
            continue
        qq = q(ctx, path, expand=False)
        x = qq.x
        # scratch builders: locals of type DigitString
        scratch = [l for l, d in enumerate(x.m['locals']) if d['ty'] == 'digit_string::DigitString' and l > x.arg_count]
        for b in scratch:
            name = x.names.get(b, 't%d' % b)
            applies = []
            for bi, t in x.calls():
                nm = short_callee(t.get('callee'))
                if nm in ('LangInterpreter::apply', 'LangInterpreter::apply_decimal') and _refs_local(x, t['args'][-1], b, mut=True):
                    applies.append(bi)
            if not applies:
                continue
            n += 1
            bad = _typestate(x, b, applies)
            ent = '%s|%s' % (path, 'scratch')
            if not bad:
                rep.ok(R, ent, 'scratch builder `%s` is fresh at each of its %d apply sites' % (name, len(applies)), f.loc(x.m['sp']))
            for bi, why in bad:
                rep.violation(R, ent, 'scratch builder `%s` may be dirty when handed to apply: %s; an earlier, unrelated word of the '
                              'text then changes how this one is read' % (name, why), _loc(ctx, qq, bi))
    if n == 0:
        rep.info(R, 'none', 'no annotation pass hands a local scratch builder to apply in a way this analysis can follow (closures); the evaluation rules A-O-ANNOTATE / A-NEUF-ANNOTATE decide hygiene')


def _refs_local(x, op, local, mut=False):
    """Operand is (a reborrow of) &mut <local>."""
    if 'pl' not in op:
        return False
    l = op['pl']['l']
    for _ in range(6):
        if l == local:
            return True
        ds = x.whole_defs(l)
        if len(ds) != 1 or ds[0][0] != 'assign':
            return False
        rv = ds[0][3]['rv']
        if rv['k'] in ('ref', 'rawptr'):
            l = rv['pl']['l']
        elif rv['k'] == 'use' and 'pl' in rv['op']:
            l = rv['op']['pl']['l']
        else:
            return False
    return False


def _typestate(x, b, applies):
    """Path-sensitive forward analysis.  Abstract state = (Fresh | Dirty, valuation of tracked booleans), where the
    tracked booleans are "the result of that apply is Ok" and the bool locals computed from them (is_ok / is_err /
    copies / negations / constants of the short-circuit lowering).  Blocks hold *sets* of states (finite)."""
    FRESH, DIRTY = 0, 1
    n = x.n
    IN = [set() for _ in range(n)]
    bad = []

    def val_get(val, l):
        for k, v in val:
            if k == l:
                return v
        return None

    def val_set(val, l, v):
        out = frozenset((k, w) for k, w in val if k != l)
        return (out | {(l, v)}) if v is not None else out

    def src_local(op):
        """local an operand reads (through & / moves), or None"""
        if 'pl' not in op:
            return None
        l = op['pl']['l']
        for _ in range(6):
            ds = x.whole_defs(l)
            if len(ds) != 1 or ds[0][0] != 'assign':
                return l
            rv = ds[0][3]['rv']
            if rv['k'] in ('ref', 'rawptr') and not rv['pl']['p']:
                l = rv['pl']['l']
            elif rv['k'] == 'copyforderef':
                l = rv['pl']['l']
            else:
                return l
        return l

    def stmts(bi, states):
        for s_ in x.blocks[bi]['stmts']:
            if s_['k'] != 'assign' or s_['pl']['p']:
                continue
            dst = s_['pl']['l']
            rv = s_['rv']
            nxt = set()
            for st, val in states:
                v = None
                if rv['k'] == 'use':
                    o = rv['op']
                    if o.get('k') == 'const' and o.get('ty') == 'bool':
                        v = bool(o.get('int'))
                    elif 'pl' in o and not o['pl']['p']:
                        v = val_get(val, o['pl']['l'])
                elif rv['k'] == 'un' and rv['op'] == 'Not' and 'pl' in rv['a'] and not rv['a']['pl']['p']:
                    w = val_get(val, rv['a']['pl']['l'])
                    v = None if w is None else (not w)
                nxt.add((st, val_set(val, dst, v)))
            states = nxt
        return states

    work = [0]
    IN[0].add((FRESH, frozenset()))
    guard = 0
    while work and guard < 20000:
        guard += 1
        bi = work.pop()
        states = stmts(bi, set(IN[bi]))
        t = x.term(bi)
        k = t.get('k')
        outs = {}

        def emit(dst, st):
            outs.setdefault(dst, set()).add(st)
        if k == 'call':
            nm = short_callee(t.get('callee'))
            dst = t.get('t')
            dl = t['dest']['l'] if not t['dest']['p'] else None
            for st, val in states:
                if bi in applies:
                    if st != FRESH:
                        why = 'a previous apply on it may have succeeded and no reset() lies in between'
                        if (bi, why) not in bad:
                            bad.append((bi, why))
                    if dst is not None:
                        emit(dst, (DIRTY, val_set(val, dl, True)))
                        emit(dst, (st, val_set(val, dl, False)))
                    continue
                if nm == 'DigitString::new' and dl == b:
                    st2, v = FRESH, None
                elif nm == 'DigitString::reset' and t['args'] and _refs_local(x, t['args'][0], b):
                    st2, v = FRESH, None
                elif nm in ('Result::is_ok', 'Result::is_err') and t['args']:
                    w = val_get(val, src_local(t['args'][0]))
                    st2, v = st, (None if w is None else (w == (nm == 'Result::is_ok')))
                else:
                    st2, v = st, None
                if dst is not None:
                    emit(dst, (st2, val_set(val, dl, v) if dl is not None else val))
        elif k == 'switch':
            op = t['op']
            l = op['pl']['l'] if 'pl' in op and not op['pl']['p'] else None
            disc_of = None
            if l is not None:
                ds = x.whole_defs(l)
                if len(ds) == 1 and ds[0][0] == 'assign' and ds[0][3]['rv']['k'] == 'discr' and not ds[0][3]['rv']['pl']['p']:
                    disc_of = ds[0][3]['rv']['pl']['l']
            for st, val in states:
                w = val_get(val, l) if l is not None else None
                taken = None
                if isinstance(w, bool):
                    taken = int(w)
                elif disc_of is not None:
                    r = val_get(val, disc_of)
                    if r is not None:
                        taken = 0 if r else 1
                if taken is None:
                    for _v, tgt in t['targets']:
                        emit(tgt, (st, val))
                    emit(t['otherwise'], (st, val))
                else:
                    tgt = next((tg for v_, tg in t['targets'] if v_ == taken), t['otherwise'])
                    emit(tgt, (st, val))
        else:
            for dst in x.succ[bi]:
                for stv in states:
                    emit(dst, stv)
        for dst, sts in outs.items():
            if x.blocks[dst].get('cleanup'):
                continue
            new = sts - IN[dst]
            if new:
                IN[dst] |= new
                if len(IN[dst]) > 4000:
                    return [(dst, 'state explosion in the typestate analysis')]
                work.append(dst)
    return bad


# ---------------------------------------------------------------------------------------
def rule_occ_construction(ctx, rep):
    R = 'B13-OCC-CONSTRUCTION'
    rep.rule(R, 'Occurence is built at one site from the span bookkeeping pair; text and value are the two components of '
                'one string_and_value() result; the ordinal flag is read before that call; spans advance by enumerate index')
    f = ctx.facts
    # single construction site
    sites = []
    for path, m in f.mir.items():
        for bi, b in enumerate(m['blocks']):
            for s in b['stmts']:
                if s['k'] == 'assign' and s['rv']['k'] == 'agg' and s['rv'].get('adt') == 'word_to_digit::Occurence':
                    sites.append((path, bi, s))
    rep.check(len(sites) == 1 and sites[0][0] == TRACKER + 'number_end', R, 'single-site',
              'Occurence is constructed only in NumTracker::number_end',
              'Occurence is constructed at %s' % [(p, f.loc(s['sp'])) for p, _b, s in sites])
    qq = q(ctx, TRACKER + 'number_end')
    if qq is None:
        rep.anchor(R, 'number_end', 'NumTracker::number_end not found')
        return
    x = qq.x
    for path, bi, s in sites:
        if path != TRACKER + 'number_end':
            continue
        fields = s['rv'].get('fields', [])
        vals = [untag(pretty(x.desc_op(o))) for o in s['rv']['ops']]
        got = dict(zip(fields, vals))
        want = {'start': 'self.match_start', 'end': 'self.match_end', 'text': 'a3', 'value': 'a4', 'is_ordinal': 'a2'}
        rep.check(got == want, R, 'fields', 'start/end from match_start/match_end, text/value/is_ordinal from the parameters',
                  'Occurence fields are %s, expected %s' % (got, want), f.loc(s['sp']))
    # span closed after each number on every path
    closes = [s_[0] for s_ in x.mut_analysis()['sites'] if s_[1] == 'assign' and untag(pretty(s_[5])) == 'self.match_start'
              and untag(pretty(s_[3])) == 'self.match_end']
    rep.check(bool(closes) and qq.must_pass([0], closes), R, 'span-closed', 'match_start = match_end on every path of number_end',
              'some path through number_end leaves the span open (match_start != match_end): the next number inherits this start')
    # number_advanced
    qa = q(ctx, TRACKER + 'number_advanced')
    if qa is None:
        rep.anchor(R, 'number_advanced', 'not found')
    else:
        xa = qa.x
        asg = {(untag(pretty(s_[5])), untag(pretty(s_[3]))): s_[0] for s_ in xa.mut_analysis()['sites'] if s_[1] == 'assign'}
        ok_end = ('self.match_end', '(a2 + 1)') in asg and qa.must_pass([0], [asg.get(('self.match_end', '(a2 + 1)'))])
        rep.check(ok_end, R, 'number_advanced|end', 'match_end = pos + 1 on every path',
                  'match_end is not set to pos + 1 on every path (writes: %s)' % sorted(asg))
        st = asg.get(('self.match_start', 'a2'))
        ok_start = st is not None and '(self.match_end == self.match_start)' in qa.facts(st) or \
            (st is not None and '(self.match_start == self.match_end)' in qa.facts(st))
        rep.check(ok_start and len(asg) == 2, R, 'number_advanced|start', 'match_start = pos only when the span is empty',
                  'match_start is written outside the empty-span test (writes: %s)' % sorted(asg))
    # FindNumbers::number_end: provenance of the arguments
    qn = q(ctx, FN + 'number_end', expand=False)
    if qn is None:
        rep.anchor(R, 'FindNumbers::number_end', 'not found')
    else:
        io = qn.calls('WordToDigitParser::is_ordinal', r'\(self\.parser\)$')
        sv = qn.calls('WordToDigitParser::string_and_value', r'\(self\.parser\)$')
        ne = qn.calls('NumTracker::number_end')
        ok = len(io) == 1 and len(sv) == 1 and len(ne) == 1
        rep.check(ok, R, 'FindNumbers::number_end|calls', 'one is_ordinal, one string_and_value, one tracker.number_end',
                  'unexpected call structure: is_ordinal x%d, string_and_value x%d, number_end x%d' % (len(io), len(sv), len(ne)))
        if ok:
            rep.check(qn.x.dominates(io[0], sv[0]) and io[0] != sv[0], R, 'ordinal-read-before-reset',
                      'parser.is_ordinal() is read before string_and_value() (which resets the parser)',
                      'is_ordinal() is read after string_and_value(): the parser is already reset, the flag is always false',
                      _loc(ctx, qn, sv[0]))
            xe = q(ctx, FN + 'number_end', expand=True).x
            t = qn.term(ne[0])
            args = [untag(pretty(xe.desc_op(a))) for a in t['args']]
            want = ['self.tracker', 'WordToDigitParser::is_ordinal(self.parser)',
                    'WordToDigitParser::string_and_value(self.parser).0', 'WordToDigitParser::string_and_value(self.parser).1']
            rep.check(args[:4] == want, R, 'FindNumbers::number_end|args',
                      'is_ordinal, text and value come from the parser; text and value from the same string_and_value() result',
                      'tracker.number_end receives %s, expected %s' % (args[:4], want), _loc(ctx, qn, ne[0]))
    # constructor private, callers pass enumerate
    fn = f.fns.get(FN + 'new')
    if not fn:
        rep.anchor(R, 'FindNumbers::new', 'not found')
    else:
        rep.check(not fn['pub'] and not fn['exported'], R, 'new-private', 'FindNumbers::new is private',
                  'FindNumbers::new is public: callers can supply non-enumerate positions', f.loc(fn['sp']))
        cg = callgraph(ctx)
        for caller in cg.callers_of(FN + 'new'):
            qc = q(ctx, caller)
            for bi in qc.calls('FindNumbers::new'):
                d = qc.desc(bi)
                rep.check(d.startswith('FindNumbers::new(Iterator::enumerate(a1), a2, a3)'), R, 'new-args|' + caller.split('::')[-1],
                          'passes input.enumerate(), lang, threshold unchanged', 'constructs the scanner as `%s`' % d, _loc(ctx, qc, bi))


# ---------------------------------------------------------------------------------------
def rule_scanner_structure(ctx, rep):
    R = 'B14-SCANNER'
    rep.rule(R, 'FindNumbers::push: early returns touch no state; nan tokens never reach the parser; the separation hint '
                'substitutes ","; number_advanced only on Ok; Incomplete advances nothing; reject -> number_end -> retry with the '
                'token\'s own text; previous is updated on every other path')
    qq = q(ctx, FN + 'push')
    if qq is None:
        rep.anchor(R, 'push', 'FindNumbers::push not found')
        return
    x = qq.x
    f = ctx.facts
    muts = [s for s in x.mut_analysis()['sites'] if untag(pretty(s[5])).startswith('self')]
    # S1 early returns
    skip = ['!PartialEq::eq(Token::text(a3), "-")', '!word_to_digit::is_whitespace(Token::text(a3))']
    bad = [untag(pretty(s[3])) for s in muts if not all(k in qq.facts(s[0]) for k in skip)]
    rep.check(not bad and len(muts) >= 8, R, 'S1-skip-tokens', '"-" and whitespace tokens return before any state is touched (%d writes checked)' % len(muts),
              'state is modified for a "-" / whitespace token: %s' % bad[:3])
    # S2 nan path
    nan_edges = qq.edge_targets('Token::not_a_number_part(a3)')
    parser_push = qq.calls('WordToDigitParser::push')
    advanced = qq.calls('NumTracker::number_advanced')
    replace = qq.calls('Option::replace', r'^Option::replace\(self\.previous, a3\)$')
    if len(nan_edges) != 1:
        rep.anchor(R, 'S2-nan', 'no unique branch on token.not_a_number_part()')
    else:
        dst = nan_edges[0][1]
        reach = qq.reachable([dst])
        rep.check(not (reach & set(parser_push)) and not (reach & set(advanced)), R, 'S2-nan-never-parsed',
                  'a not-a-number-part token reaches neither parser.push nor number_advanced',
                  'a token that declares itself not a number part can reach parser.push / number_advanced', _loc(ctx, qq, nan_edges[0][0]))
        rep.check(qq.must_pass([dst], replace), R, 'S2-nan-previous', 'the nan path updates `previous`',
                  'the nan path returns without previous.replace(token)')
        ne = [b for b in qq.calls('FindNumbers::number_end') if b in reach]
        rep.check(len(ne) == 1 and 'WordToDigitParser::has_number(self.parser)' in qq.facts(ne[0]), R, 'S2-nan-ends-number',
                  'a nan token ends the number in progress', 'the nan path does not end the number in progress under has_number()')
    # S3 separation hint: the word presented to the parser by the first push
    first = [b for b in parser_push if not (qq.desc(b) or '').endswith('(self.parser, Token::text_lowercase(a3))')]
    retry = [b for b in parser_push if (qq.desc(b) or '').endswith('(self.parser, Token::text_lowercase(a3))')]
    rep.check(len(first) == 1 and len(retry) == 1 and len(parser_push) == 2, R, 'S3-two-pushes',
              'one push of the (possibly substituted) word, one retry with the token\'s own lowercase text',
              'parser.push calls are %s' % [qq.desc(b) for b in parser_push])
    test_defs = []
    if first:
        op = qq.term(first[0])['args'][1]
        tl = op['pl']['l'] if 'pl' in op else None
        for _ in range(6):
            ds = x.whole_defs(tl) if tl is not None else []
            if len(ds) == 1 and ds[0][0] == 'assign' and ds[0][3]['rv']['k'] in ('use', 'ref', 'copyforderef'):
                rv = ds[0][3]['rv']
                src = rv['op']['pl'] if rv['k'] == 'use' and 'pl' in rv['op'] else rv.get('pl')
                if src is None or any(p != 'deref' for p in src['p']):
                    break
                tl = src['l']
            else:
                break
        test_defs = [(d[1], untag(pretty(x.desc_rvalue(d[3]['rv'])))) for d in (x.whole_defs(tl) if tl is not None else []) if d[0] == 'assign']
    comma = [bi for bi, v in test_defs if v == '","']
    others = {v for bi, v in test_defs if v != '","'}
    rep.check(len(comma) == 1 and others == {'Token::text_lowercase(a3)'}, R, 'S3-test-values',
              'the word presented to the parser is the token\'s lowercase text or the constant ","',
              'the word presented to the parser can be %s' % sorted({v for _b, v in test_defs}))
    if comma:
        fc = qq.facts(comma[0])
        rep.check('WordToDigitParser::has_number(self.parser)' in fc and 'Token::nt_separated(a3, (self.previous as Some).0)' in fc,
                  R, 'S3-comma-guard', '"," is substituted exactly under has_number() && token.nt_separated(previous)',
                  '"," substitution is not guarded by has_number() && nt_separated(prev) (facts %s)' % fc)
    # S4 number_advanced only on Ok, with the unmodified position
    for i, b in enumerate(advanced):
        fa = qq.facts(b)
        ok = any(re.match(r'^discr\(WordToDigitParser::push\(.*\)\) == Ok$', z) or re.match(r'^Result::is_ok\(WordToDigitParser::push\(', z) for z in fa)
        rep.check(ok and qq.desc(b) == 'NumTracker::number_advanced(self.tracker, a2)', R, 'S4-advance-on-ok#%d' % i,
                  'span advanced only after an accepted word, with the enumerate position',
                  'number_advanced(%s) is reachable without an Ok from parser.push (facts %s)' % (qq.desc(b), fa[-3:]), _loc(ctx, qq, b))
    rep.check(len(advanced) == 2, R, 'S4-count', 'two advance sites (first try, retry)', 'expected 2 number_advanced sites, found %d' % len(advanced))
    # S5 Incomplete advances nothing
    inc = qq.edge_targets_re(r'^discr\(\(WordToDigitParser::push\(self\.parser, \w+\) as Err\)\.0\) == Incomplete$')
    if len(inc) != 1:
        rep.anchor(R, 'S5-incomplete', 'no unique Err(Incomplete) branch')
    else:
        reach = qq.reachable([inc[0][1]])
        forbidden = set(advanced) | set(qq.calls('FindNumbers::number_end')) | set(qq.calls('FindNumbers::outside_number'))
        rep.check(not (reach & forbidden), R, 'S5-incomplete-inert',
                  'a linking word (Incomplete) neither advances the span, nor ends the number, nor breaks the sequence',
                  'Err(Incomplete) can reach %s' % [qq.desc(b) for b in reach & forbidden])
    # S6 reject -> finish -> retry
    if retry:
        fr = qq.facts(retry[0])
        ne = [b for b in qq.calls('FindNumbers::number_end') if x.dominates(b, retry[0])]
        ok = bool(ne) and 'WordToDigitParser::has_number(self.parser)' in fr and \
            any(z.endswith('== Err') for z in fr) and any('!= Incomplete' in z for z in fr)
        rep.check(ok, R, 'S6-finish-before-retry', 'on a rejection with a number in progress number_end() precedes the retry',
                  'the retry is not preceded by number_end() under Err(!Incomplete) && has_number() (facts %s)' % fr[-4:], _loc(ctx, qq, retry[0]))
        # a failed retry / a rejection without number goes to outside_number
        on = qq.calls('FindNumbers::outside_number')
        rep.check(len(on) == 3, R, 'S6-outside-calls', 'outside_number on the nan path, failed retry and plain rejection',
                  'expected 3 outside_number call sites, found %d' % len(on))
    # S7 previous updated on every non-early-return path
    early = [dst for (_s, dst) in qq.edge_targets('PartialEq::eq(Token::text(a3), "-")') + qq.edge_targets('word_to_digit::is_whitespace(Token::text(a3))')]
    ok = bool(replace) and qq.must_pass([0], set(replace) | set(early))
    rep.check(ok and len(early) == 2, R, 'S7-previous-updated', 'every path except the two early returns ends in previous.replace(token)',
              'some path through push returns without updating `previous`')


def rule_iterator_structure(ctx, rep):
    R = 'B14-ITERATOR'
    rep.rule(R, 'lazy and batch drivers share push/finalize; the iterator checks for a ready occurrence after every token, '
                'reads nothing before the first next(), finalizes on exhaustion; both drain FIFO')
    f = ctx.facts
    qn = q(ctx, ITER_NEXT)
    qt = q(ctx, FN + 'track_numbers')
    if qn is None or qt is None:
        rep.anchor(R, 'bodies', 'Iterator::next / track_numbers not found')
        return
    inp = qn.calls('Iterator::next', r'^Iterator::next\(self\.input\)$')
    push = qn.calls('FindNumbers::push')
    hm = qn.calls('NumTracker::has_matches', r'\(self\.tracker\)$')
    pop = qn.calls('NumTracker::pop', r'\(self\.tracker\)$')
    fin = qn.calls('FindNumbers::finalize')
    rep.check(len(inp) == 1 and len(push) == 1 and len(fin) == 1, R, 'next|calls', 'one input.next(), one push, one finalize',
              'unexpected structure: input.next x%d push x%d finalize x%d' % (len(inp), len(push), len(fin)))
    if inp and push and hm:
        # N1: between a push and the following input.next() there is a has_matches test that returns when true
        ok = qn.must_pass(qn.x.succ[push[0]], hm, until=inp)
        rep.check(ok, R, 'N1-ready-check-per-token', 'after every pushed token has_matches() is tested before the next token is read',
                  'the iterator can read another token without checking for a ready occurrence (unbounded look-ahead)', _loc(ctx, qn, push[0]))
        for h in hm:
            tgt = [dst for (s, dst) in qn.edge_targets('NumTracker::has_matches(self.tracker)') if s in qn.reachable([h])]
        trues = qn.edge_targets('NumTracker::has_matches(self.tracker)')
        ok2 = bool(trues) and all(qn.must_pass([dst], pop, until=inp) and not (qn.reachable([dst], stop=pop) & set(inp)) for (_s, dst) in trues)
        rep.check(ok2 and len(trues) == 2, R, 'N1-ready-returns', 'has_matches() true returns tracker.pop() without reading input',
                  'a ready occurrence is not returned immediately')
        # the first thing next() does is the has_matches test (nothing is read before that)
        rep.check(any(qn.x.dominates(h, inp[0]) for h in hm), R, 'N1-entry-check', 'next() tests has_matches() before reading the input',
                  'next() reads the input before looking at already found occurrences')
        pd = qn.desc(push[0])
        rep.check(pd == 'FindNumbers::push(self, (Iterator::next(self.input) as Some).0.0, (Iterator::next(self.input) as Some).0.1)', R,
                  'next|push-args', 'the (position, token) pair of input.next() is pushed unchanged', 'push receives `%s`' % pd)
    # N2 exhaustion
    none_edges = qn.edge_targets_re(r'^discr\(Iterator::next\(self\.input\)\) == None$')
    ok = len(none_edges) == 1 and qn.must_pass([none_edges[0][1]], fin) and all(qn.must_pass(qn.x.succ[b], pop) for b in fin)
    rep.check(ok, R, 'N2-exhaustion', 'on exhaustion finalize() then pop()', 'exhaustion does not lead to finalize() followed by pop()')
    # N3 batch driver
    tin = qt.calls('Iterator::next', r'^Iterator::next\(self\.input\)$')
    tpush = qt.calls('FindNumbers::push')
    tfin = qt.calls('FindNumbers::finalize')
    ok = len(tin) == 1 and len(tpush) == 1 and len(tfin) == 1 and qt.must_pass([0], tfin)
    rep.check(ok, R, 'N3-batch', 'track_numbers pushes every token then finalizes', 'track_numbers structure changed')
    if tpush:
        rep.check(qt.desc(tpush[0]) == 'FindNumbers::push(self, (Iterator::next(self.input) as Some).0.0, (Iterator::next(self.input) as Some).0.1)',
                  R, 'N3-batch-push-args', 'same push call as the iterator', 'batch push is `%s`' % qt.desc(tpush[0]))
    rets = [v for _b, v in qt.return_values()]
    rep.check(rets == ['self.tracker'], R, 'N3-batch-returns-tracker', 'returns the tracker', 'returns %s' % rets)
    # N4 who reads the input iterator
    readers = set()
    for path, m in f.mir.items():
        if not path.startswith('word_to_digit::') and 'word_to_digit::' not in path:
            continue
        qq = q(ctx, path)
        if qq and qq.calls('Iterator::next', r'^Iterator::next\(self\.input\)$'):
            readers.add(path)
    rep.check(readers == {ITER_NEXT, FN + 'track_numbers'}, R, 'N4-input-readers', 'the token stream is read only by Iterator::next and track_numbers',
              'the token stream is also read in %s (e.g. eagerly in the constructor)' % sorted(readers - {ITER_NEXT, FN + 'track_numbers'}))
    qnew = q(ctx, FN + 'new')
    if qnew is not None:
        rep.check(not qnew.calls('Iterator::next'), R, 'N4-new-lazy', 'the constructor consumes nothing', 'FindNumbers::new consumes from the input')
    # N5 FIFO draining
    qp = q(ctx, TRACKER + 'pop')
    qv = q(ctx, TRACKER + 'into_vec')
    ok = qp is not None and [d for _b, _n, d, _t in qp.all_calls()] == ['VecDeque::pop_front(self.matches)']
    rep.check(ok, R, 'N5-pop-front', 'pop() is matches.pop_front()', 'pop() is not pop_front()')
    ok = qv is not None and [d for _b, _n, d, _t in qv.all_calls()] == ['Into::into(self.matches)']
    rep.check(ok, R, 'N5-into-vec', 'into_vec() converts the queue in order', 'into_vec() is not matches.into()')
    pushers = set()
    for path in f.mir:
        if 'word_to_digit' in path:
            qq = q(ctx, path)
            for _b, n, d, _t in qq.all_calls():
                if n.startswith('VecDeque::push') or n in ('VecDeque::insert', 'VecDeque::push_front'):
                    pushers.add(n)
    rep.check(pushers == {'VecDeque::push_back'}, R, 'N5-push-back-only', 'occurrences are only ever appended (push_back)',
              'the queue is filled by %s' % sorted(pushers))
    # finalize
    qf = q(ctx, FN + 'finalize')
    if qf is not None:
        ne = qf.calls('FindNumbers::number_end')
        rep.check(len(ne) == 1 and 'WordToDigitParser::has_number(self.parser)' in qf.facts(ne[0]), R, 'finalize',
                  'finalize ends the number in progress under has_number()', 'finalize does not end the pending number under has_number()')


def rule_shared_interpreter(ctx, rep):
    R = 'B15-SHARED-INTERPRETER'
    rep.rule(R, 'LangInterpreter::apply is called only from exec_group, WordToDigitParser::push, the facade, the apply_decimal '
                'forwarders and the annotation passes')
    f = ctx.facts
    callers = {}
    for path, m in f.mir.items():
        for b in m['blocks']:
            t = b.get('term') or {}
            if t.get('k') == 'call' and not b.get('cleanup'):
                c = t.get('callee') or ''
                if c in ('lang::LangInterpreter::apply', 'lang::LangInterpreter::apply_decimal'):
                    callers.setdefault(path, []).append(c.split('::')[-1])
    allowed = re.compile(r'^(lang::LangInterpreter::exec_group|word_to_digit::WordToDigitParser::<.*>::push|'
                         r'<lang::Language as lang::LangInterpreter>::(apply|apply_decimal)|'
                         r'<lang::\w+::\w+ as lang::LangInterpreter>::(apply_decimal|basic_annotate))$')
    for p in sorted(callers):
        rep.check(bool(allowed.match(p)), R, 'caller|' + p, 'expected caller of apply',
                  '`%s` interprets words directly: a second driver beside the validator and the scanner' % p)
    rep.floor(R, len(callers), 10, 'callers of apply / apply_decimal')
