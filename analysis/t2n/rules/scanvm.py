"""Scanner rules decided on the abstract machine (vm.py + scanmodel.py).

The public entry points find_numbers / find_numbers_iter (+ Iterator::next) / replace_numbers_in_stream are
interpreted from their MIR for *every* token script up to a bounded length over an alphabet of abstract token
classes, against the abstract language of scanmodel.  Each rule states a predicate of its property over those
complete case tables.  Nothing here looks at the shape of the code: helper functions, renamed locals, reordered
tests and equivalent conditions give the same tables.
"""
import itertools
import math
import os

from ..scanmodel import CARD, LINK, LWORDS, ORDS, SEPW, Input, ScanEnv, Tok
from ..vm import VM, Panic, Ref, Seq, Unsupported

FIND = 'word_to_digit::find_numbers'
FIND_ITER = 'word_to_digit::find_numbers_iter'
REPLACE_STREAM = 'word_to_digit::replace_numbers_in_stream'

# token classes: (text, nan, sep)
T = lambda text, nan=False, sep=False: (text, nan, sep)  # noqa: E731
FULL = [T('one'), T('twenty'), T('first'), T('zero'), T('and'), T('point'), T('the'), T('of'), T(','), T('.'), T('-'), T(' '),
        T('one', nan=True), T('one', sep=True), T('the', sep=True)]
CORE = [T('one'), T('twenty'), T('first'), T('and'), T('the'), T(','), T('.')]
LONE = CORE + [T('point')]      # V09: a decimal next to a lone digit (the separator word is answered Incomplete, like a linking word)
HOLD = [T('twenty'), T('first'), T('and'), T('the'), T(',')]   # a held number of three tokens ('twenty and first') is what it takes to shift later spans out of range


def show(script):
    return ' '.join(('%s%s%s' % (t[0] if t[0].strip() else '␣', '/nan' if t[1] else '', '/sep' if t[2] else '')) for t in script) or '(empty)'


def mk_tokens(script, upper=False):
    toks = []
    for i, (text, nan, sep) in enumerate(script):
        tk = Tok(text.upper() if upper else text, nan=nan, sep=sep, lower=text.lower())
        tk.pos = i
        toks.append(tk)
    return toks


def occ_tuple(o):
    f = o.fields
    return (f['start'], f['end'], f['text'], f['value'], f['is_ordinal'])


class Run:
    __slots__ = ('occs', 'events', 'error', 'kind', 'reads_at_return', 'reads_before_first', 'out_tokens', 'after_end')

    def __init__(self):
        self.occs = []
        self.events = []
        self.error = None
        self.kind = None
        self.reads_at_return = []
        self.reads_before_first = 0
        self.out_tokens = None
        self.after_end = None


def _iter_next_path(facts):
    c = [p for p in facts.mir if p.endswith('core::iter::traits::iterator::Iterator>::next') and p.startswith('<word_to_digit::FindNumbers')]
    return c[0] if len(c) == 1 else None


def run_batch(facts, script, th, upper=False):
    r = Run()
    env = ScanEnv()
    vm = VM(facts, env)
    try:
        res = vm.run(FIND, [Input(mk_tokens(script, upper), env), env.lang, th])
        r.occs = [occ_tuple(o) for o in res.items]
    except Panic as e:
        r.error, r.kind = 'panic: %s' % e, 'panic'
    except Unsupported as e:
        r.error, r.kind = str(e), 'unsupported'
    r.events = env.events
    return r


def run_lazy(facts, script, th):
    r = Run()
    env = ScanEnv()
    vm = VM(facts, env)
    nxt = _iter_next_path(facts)
    try:
        if nxt is None:
            raise Unsupported('no unique Iterator::next impl for FindNumbers')
        it = vm.run(FIND_ITER, [Input(mk_tokens(script), env), env.lang, th])
        vm.heap['it'] = it
        r.reads_before_first = sum(1 for e in env.events if e[0] in ('read', 'read-end'))
        for _ in range(len(script) + 3):
            o = vm.run(nxt, [Ref('heap', 'it')])
            if o.variant == 'None':
                break
            r.occs.append(occ_tuple(o.payload[0]))
            r.reads_at_return.append(sum(1 for e in env.events if e[0] == 'read'))
        else:
            raise Unsupported('iterator does not end')
        again = vm.run(nxt, [Ref('heap', 'it')])
        r.after_end = again.variant
    except Panic as e:
        r.error, r.kind = 'panic: %s' % e, 'panic'
    except Unsupported as e:
        r.error, r.kind = str(e), 'unsupported'
    r.events = env.events
    return r


def run_replace(facts, script, th):
    r = Run()
    env = ScanEnv()
    vm = VM(facts, env)
    try:
        toks = mk_tokens(script)
        out = vm.run(REPLACE_STREAM, [Seq(toks), env.lang, th])
        r.out_tokens = list(out.items)
    except Panic as e:
        r.error, r.kind = 'panic: %s' % e, 'panic'
    except Unsupported as e:
        r.error, r.kind = str(e), 'unsupported'
    r.events = env.events
    return r


def scripts(alphabet, depth):
    for n in range(0, depth + 1):
        for s in itertools.product(alphabet, repeat=n):
            yield s


_POOL_FACTS = None


def _work(job):
    mode, th, upper, chunk = job
    fn = {'batch': run_batch, 'lazy': run_lazy, 'replace': run_replace}[mode]
    if mode == 'batch':
        return [(s, fn(_POOL_FACTS, s, th, upper)) for s in chunk]
    return [(s, fn(_POOL_FACTS, s, th)) for s in chunk]


def run_many(facts, mode, th, script_list, upper=False):
    """script -> Run for a list of scripts (forked worker processes share the facts read-only)."""
    global _POOL_FACTS
    script_list = list(script_list)
    jobs_n = min(os.cpu_count() or 1, 16)
    if len(script_list) < 300 or jobs_n < 2 or os.environ.get('T2N_NO_FORK'):
        _POOL_FACTS = facts
        return dict(_work((mode, th, upper, script_list)))
    _POOL_FACTS = facts
    size = max(50, len(script_list) // (jobs_n * 4))
    chunks = [script_list[i:i + size] for i in range(0, len(script_list), size)]
    import multiprocessing
    mp = multiprocessing.get_context('fork')
    out = {}
    with mp.Pool(jobs_n) as pool:
        for part in pool.imap_unordered(_work, [(mode, th, upper, c) for c in chunks]):
            out.update(part)
    return {s: out[s] for s in script_list}


def _memo(ctx):
    return getattr(ctx, 'memo_disk', ctx.memo)


def table(ctx, name, alphabet, depth, th, mode='batch'):
    """Complete case table: script -> Run, memoised per check run."""
    key = ('scanvm', name, depth, repr(th), mode)
    return _memo(ctx)(key, lambda: run_many(ctx.facts, mode, th, scripts(alphabet, depth)))


def depth_for(ctx, quick, thorough):
    return thorough if ctx.tier == 'thorough' else quick


def _unsupported(rep, R, tab):
    """Fail closed when the scanner left the interpretable fragment."""
    bad = [(s, r) for s, r in tab.items() if r.kind == 'unsupported']
    if bad:
        s, r = bad[0]
        rep.anchor(R, 'machine', 'the abstract machine cannot interpret the scanner on `%s`: %s (%d scripts)' % (show(s), r.error, len(bad)))
    return not bad


# ---------------------------------------------------------------------------------------------------------
def rule_lazy_batch(ctx, rep):
    R = 'V15-LAZY-BATCH'
    rep.rule(R, 'for every token script (abstract token classes, bounded length) find_numbers_iter yields exactly the occurrences of '
                'find_numbers in the same order, then None (again None afterwards); it reads nothing before the first next() and, when it '
                'returns a number, has not read beyond the end of the second number after it')
    d = depth_for(ctx, 3, 4)
    n = 0
    for th in (10.0, 0.0):
        alpha = FULL if th == 10.0 else CORE
        bt = table(ctx, 'full' if th == 10.0 else 'core', alpha, d, th, 'batch')
        lt = table(ctx, 'full' if th == 10.0 else 'core', alpha, d, th, 'lazy')
        if not (_unsupported(rep, R, bt) and _unsupported(rep, R, lt)):
            return
        bad_eq, bad_first, bad_look, bad_end = [], [], [], []
        for s, b in bt.items():
            l = lt[s]
            n += 1
            if b.error or l.error:
                continue   # panics are C03's business
            if b.occs != l.occs:
                bad_eq.append((s, b.occs, l.occs))
            if l.reads_before_first:
                bad_first.append(s)
            if l.after_end != 'None':
                bad_end.append(s)
        bad_look = _lookahead_violations(lt)
        ent = 'threshold=%s' % th
        if bad_eq:
            s, bo, lo = bad_eq[0]
            rep.violation(R, ent + '|same-occurrences', 'on `%s` find_numbers reports %s but the iterator yields %s (%d scripts differ)' % (
                show(s), [o[:3] for o in bo], [o[:3] for o in lo], len(bad_eq)))
        else:
            rep.ok(R, ent + '|same-occurrences', '%d scripts: same occurrences, same order' % len(bt))
        rep.check(not bad_first, R, ent + '|lazy-start', 'nothing is read before the first next()',
                  'find_numbers_iter reads the token stream before the first next() (e.g. on `%s`)' % (show(bad_first[0]) if bad_first else ''))
        rep.check(not bad_end, R, ent + '|ends', 'after the last occurrence next() keeps returning None',
                  'after returning None the iterator yields again (e.g. on `%s`)' % (show(bad_end[0]) if bad_end else ''))
        if bad_look:
            s, occ, got, lim = bad_look[0]
            rep.violation(R, ent + '|look-ahead', 'on `%s` the iterator had read %d tokens when it returned %s; the second number after it ends after %d tokens '
                          '(unbounded look-ahead, %d scripts)' % (show(s), got, occ[:3], lim, len(bad_look)))
        else:
            rep.ok(R, ent + '|look-ahead', 'never reads beyond the second number after the one returned')
    # look-ahead needs room after the third number: small alphabet, longer scripts
    LOOK = [T('twenty'), T('one'), T('the'), T(',')]
    lt = table(ctx, 'look', LOOK, depth_for(ctx, 5, 6), 10.0, 'lazy')
    if _unsupported(rep, R, lt):
        bad = _lookahead_violations(lt)
        if bad:
            s, occ, got, lim = bad[0]
            rep.violation(R, 'long|look-ahead', 'on `%s` the iterator had read %d tokens when it returned %s; the second number after it ends after %d tokens '
                          '(unbounded look-ahead, %d scripts)' % (show(s), got, occ[:3], lim, len(bad)))
        else:
            rep.ok(R, 'long|look-ahead', '%d longer scripts: never reads beyond the second number after the one returned' % len(lt))
    for th in (float('nan'), float('inf'), -1.0):
        lt = table(ctx, 'core', CORE, 2, th, 'lazy')
        if _unsupported(rep, R, lt):
            early = [s for s, l in lt.items() if l.reads_before_first]
            rep.check(not early, R, 'threshold=%s|lazy-start' % th, 'nothing is read before the first next()',
                      'with threshold %s find_numbers_iter reads the stream before the first next()' % th)
    rep.floor(R, n, 3500, 'scripts compared')


def _lookahead_violations(lt):
    bad = []
    for s, l in lt.items():
        if l.error:
            continue
        reads = 0
        ends = []
        for e in l.events:
            if e[0] == 'read':
                reads += 1
            elif e[0] in ('format', 'format-dec'):
                ends.append((reads, e[-1][0]))
        used = -1
        for k, occ in enumerate(l.occs):
            j = next((j for j in range(used + 1, len(ends)) if ends[j][1] == occ[2] and ends[j][0] >= occ[1]), None)
            if j is None:
                continue
            used = j
            if j + 2 < len(ends) and l.reads_at_return[k] > ends[j + 2][0]:
                bad.append((s, occ, l.reads_at_return[k], ends[j + 2][0]))
    return bad


def _inside(occs, pos):
    return any(o[0] <= pos < o[1] for o in occs)


def rule_token_hints(ctx, rep):
    R = 'V15-TOKEN-HINTS'
    rep.rule(R, 'a token flagged not-a-number-part is never handed to the interpreter and never lies inside an occurrence; a token flagged '
                'separated-from-its-predecessor is never in the same occurrence as that predecessor and the result equals that of the '
                'script with a "," token inserted before it')
    d = depth_for(ctx, 3, 4)
    n = 0
    for th in (10.0,):
        bt = table(ctx, 'full', FULL, d, th, 'batch')
        if not _unsupported(rep, R, bt):
            return
        bad_nan, bad_nan_apply, bad_same, bad_comma = [], [], [], []
        for s, b in bt.items():
            if b.error:
                continue
            for i, (text, nan, sep) in enumerate(s):
                if nan:
                    n += 1
                    if _inside(b.occs, i):
                        bad_nan.append((s, i))
                if sep and not nan:
                    n += 1
                    prev = [j for j in range(i) if s[j][0].strip() and s[j][0] != '-']
                    if prev and any(o[0] <= prev[-1] and i < o[1] for o in b.occs):
                        bad_same.append((s, i))
                    # comma equivalence (needs the longer script to be inside the table: only when len(s) < depth)
                    if len(s) < d and prev:
                        s2 = s[:i] + (T(','), (text, nan, False)) + s[i + 1:]
                        b2 = bt.get(s2)
                        if b2 is not None and not b2.error:
                            shifted = [(o[0] + (o[0] >= i), o[1] + (o[1] > i), o[2], o[3], o[4]) for o in b.occs]
                            if shifted != b2.occs:
                                bad_comma.append((s, s2, b.occs, b2.occs))
            # nan tokens never reach apply: the number of apply events equals that of the script without them is too strong; check words
            live_ids = set()
            for e in b.events:
                if e[0] == 'format-ds':
                    live_ids.update(e[1])
            nan_words = {t[0] for t in s if t[1]}
            clean_words = {t[0] for t in s if not t[1]}
            for e in b.events:
                if e[0] in ('apply', 'apply_decimal') and e[1] in nan_words and e[1] not in clean_words and e[3] == 'Ok' and \
                        (len(e) <= 4 or e[4] in live_ids):
                    bad_nan_apply.append((s, e[1]))
        rep.check(not bad_nan, R, 'nan|outside-occurrences', 'never inside an occurrence',
                  'a not-a-number-part token lies inside an occurrence, e.g. `%s` (token %d)' % ((show(bad_nan[0][0]), bad_nan[0][1]) if bad_nan else ('', 0)))
        rep.check(not bad_nan_apply, R, 'nan|never-interpreted', 'never absorbed by a builder that ends up as a number',
                  'a not-a-number-part token is absorbed as a number word into a number that is reported, e.g. `%s`' % (show(bad_nan_apply[0][0]) if bad_nan_apply else ''))
        rep.check(not bad_same, R, 'sep|not-with-predecessor', 'never in the same occurrence as its predecessor',
                  'a token separated from its predecessor shares an occurrence with it, e.g. `%s` (token %d)' % ((show(bad_same[0][0]), bad_same[0][1]) if bad_same else ('', 0)))
        if bad_comma:
            s, s2, o1, o2 = bad_comma[0]
            rep.violation(R, 'sep|as-comma', '`%s` gives %s but `%s` gives %s: the separation hint does not behave like a spoken comma (%d scripts)' % (
                show(s), [o[:3] for o in o1], show(s2), [o[:3] for o in o2], len(bad_comma)))
        else:
            rep.ok(R, 'sep|as-comma', 'same result as with a "," token inserted')
    rep.floor(R, n, 500, 'hinted tokens inspected')


# ---------------------------------------------------------------------------------------------------------
def _words_of(script):
    return [i for i, t in enumerate(script) if t[0].strip() and t[0] != '-']


def rule_occurrence_wellformed(ctx, rep):
    R = 'V06-OCCURRENCES'
    rep.rule(R, 'on every token script: spans lie inside the stream, are strictly increasing and disjoint, begin and end on a word the '
                'interpreter accepted; text and value are the two halves of one formatter result for exactly the words accepted inside '
                'the span; the ordinal flag is that of the integer part at that moment')
    d = depth_for(ctx, 3, 4)
    n = 0
    bad = {}
    for th in (10.0, 0.0):
        bt = table(ctx, 'full' if th == 10.0 else 'core', FULL if th == 10.0 else CORE, d, th, 'batch')
        if not _unsupported(rep, R, bt):
            return
        for s, b in bt.items():
            if b.error:
                continue
            n += 1
            # numbers as the machine built them: accepted words (with positions = current read) until a format event
            reads = -1
            cur = []
            numbers = []
            live = None
            for e in b.events:
                if e[0] == 'read':
                    reads = e[1]
                elif e[0] in ('apply', 'apply_decimal') and e[3] == 'Ok':
                    cur.append((reads, e[4] if len(e) > 4 else None))
                elif e[0] == 'ds-reset':
                    pass
                elif e[0] == 'format-ds':
                    live = set(e[1])
                elif e[0] in ('format', 'format-dec'):
                    ordinal = e[2] if e[0] == 'format' else e[3]
                    # only the words absorbed by the builders that are formatted make up the number (a word tried on a scratch
                    # builder that is then dropped has no part in it)
                    numbers.append(([r_ for r_, ds_ in cur if live is None or ds_ is None or ds_ in live], e[-1], ordinal))
                    cur = []
                    live = None
            last_end = 0
            for o in b.occs:
                start, end, text, value, is_ord = o
                if not (0 <= start < end <= len(s)):
                    bad.setdefault('span-in-stream', (s, o))
                if start < last_end:
                    bad.setdefault('increasing-disjoint', (s, o))
                last_end = end
                match = [nm for nm in numbers if nm[0] and nm[0][0] == start and nm[0][-1] == end - 1]
                if not match:
                    bad.setdefault('span-on-accepted-words', (s, o))
                    continue
                words, (ftext, fval), ordinal = match[0]
                if (text, value) != (ftext, fval):
                    bad.setdefault('text-value-pair', (s, o))
                if is_ord != ordinal:
                    bad.setdefault('ordinal-flag', (s, o))
    # the occurrences handed out one by one by the lazy iterator obey the same span rules
    lt = table(ctx, 'full', FULL, d, 10.0, 'lazy')
    if not _unsupported(rep, R, lt):
        return
    for s, l in lt.items():
        if l.error:
            continue
        last_end = 0
        for o in l.occs:
            if not (0 <= o[0] < o[1] <= len(s)):
                bad.setdefault('span-in-stream', (s, o))
            if o[0] < last_end:
                bad.setdefault('increasing-disjoint', (s, ('find_numbers_iter',) + o))
            last_end = o[1]
    why = {'span-in-stream': 'a span lies outside the token stream', 'increasing-disjoint': 'spans are not strictly increasing and disjoint',
           'span-on-accepted-words': 'a span does not begin and end on the first and last word accepted for that number',
           'text-value-pair': 'text and value do not come from one formatter result of the words inside the span',
           'ordinal-flag': 'the ordinal flag differs from the state of the integer part when the number was formatted'}
    for k, msg in why.items():
        if k in bad:
            s, o = bad[k]
            rep.violation(R, k, '%s: on `%s` the occurrence %s' % (msg, show(s), o))
        else:
            rep.ok(R, k, msg.replace('a span lies outside', 'no span lies outside').replace('are not', 'are').replace('does not begin', 'begins').replace('do not come', 'come').replace('differs from', 'equals'))
    rep.floor(R, n, 3500, 'scripts inspected')


# ---------------------------------------------------------------------------------------------------------
def rule_fresh_start(ctx, rep):
    R = 'V10-FRESH-START'
    rep.rule(R, 'every number starts from scratch: the first word after a finished number is offered to apply() on an empty, non-ordinal '
                'integer builder in integer mode; rewriting A + [word word word .] + B equals rewriting A, then B, at every threshold; '
                'punctuation between two numbers keeps them apart')
    d = depth_for(ctx, 3, 4)
    bad_first = []
    n = 0
    for th in (10.0, 0.0):
        bt = table(ctx, 'full' if th == 10.0 else 'core', FULL if th == 10.0 else CORE, d, th, 'batch')
        if not _unsupported(rep, R, bt):
            return
        for s, b in bt.items():
            if b.error:
                continue
            n += 1
            after_format = True
            for e in b.events:
                if e[0] in ('format', 'format-dec'):
                    after_format = True
                elif e[0] in ('apply', 'apply_decimal') and after_format:
                    if e[0] != 'apply' or e[2] != ([], False):
                        bad_first.append((s, e))
                    if e[3] == 'Ok':
                        after_format = False
    if bad_first:
        s, e = bad_first[0]
        rep.violation(R, 'first-word-on-fresh-builder', 'on `%s` the word "%s" after a finished number is interpreted by %s on a builder holding %s: '
                      'the previous number leaks into the next (%d scripts)' % (show(s), e[1], e[0], e[2], len(bad_first)))
    else:
        rep.ok(R, 'first-word-on-fresh-builder', 'after each finished number the next word meets an empty integer builder')
    # A + separator + B
    sepr = (T('the'), T('the'), T('the'), T('.'))
    parts = [s for s in scripts([T('one'), T('twenty'), T('first'), T('and'), T(','), T('point')], 2)]
    # decimals, with and without spoken zeros in the fraction (an all-zero fraction is "null" but not empty: s7-C10)
    W = lambda *ws: tuple(T(w) for w in ws)        # noqa: E731
    parts += [W('one', 'point', 'one'), W('one', 'point', 'zero'), W('one', 'point', 'zero', 'zero'), W('twenty', 'point', 'zero', 'one'),
              W('zero', 'point', 'zero'), W('zero'), W('zero', 'zero', 'one'), W('one', 'point', 'one', 'point')]
    bad = []
    m = 0
    for th in (10.0, 0.0, 100.0):
        single = run_many(ctx.facts, 'batch', th, parts)
        wholes = run_many(ctx.facts, 'batch', th, [a + sepr + b_ for a in parts for b_ in parts])
        for a in parts:
            for b_ in parts:
                m += 1
                whole = wholes[a + sepr + b_]
                if whole.kind == 'unsupported' or single[a].kind == 'unsupported':
                    rep.anchor(R, 'machine', whole.error or single[a].error)
                    return
                if whole.error or single[a].error or single[b_].error:
                    continue
                off = len(a) + len(sepr)
                want = single[a].occs + [(o[0] + off, o[1] + off, o[2], o[3], o[4]) for o in single[b_].occs]
                if whole.occs != want:
                    bad.append((th, a, b_, whole.occs, want))
    if bad:
        th, a, b_, got, want = bad[0]
        rep.violation(R, 'independent-parts', 'threshold %s: `%s` + [the the the .] + `%s` gives %s, the parts alone give %s (%d cases)' % (
            th, show(a), show(b_), [o[:3] for o in got], [o[:3] for o in want], len(bad)))
    else:
        rep.ok(R, 'independent-parts', '%d (A, B, threshold) combinations' % m)
    # punctuation keeps apart
    for th in (0.0, 10.0):
        r = run_batch(ctx.facts, (T('twenty'), T(','), T(' '), T('one')), th)
        rep.check(not r.error and [o[:3] for o in r.occs] == [(0, 1, '20'), (3, 4, '1')], R, 'punctuation-keeps-apart|%s' % th, '"twenty, one" is 20 and 1',
                  '"twenty , one" gives %s' % ([o[:3] for o in r.occs] if not r.error else r.error))
    rep.floor(R, n, 3500, 'scripts inspected')


# ---------------------------------------------------------------------------------------------------------
def _is_breaker(tok):
    """Spec of 'what breaks a sequence': an alphabetic non-linking word or a lone period."""
    text, nan, sep = tok
    if not text.strip() or text == '-':
        return None            # invisible to the scanner
    alpha = any(c.isalpha() for c in text)
    if (not alpha and text.strip() != '.'):
        return False
    if text.lower() in LWORDS:
        return False
    return True


def rule_lone_policy(ctx, rep):
    R = 'V09-LONE-POLICY'
    rep.rule(R, 'the numbers recognised do not depend on the threshold; at threshold t the reported occurrences are exactly the recognised '
                'numbers minus those that are small (one digit or ordinal, value < t) and isolated (no number of the same kind directly '
                'before or after, ignoring spaces, non-period punctuation and linking words); thresholds 0, negative and NaN report all')
    d = depth_for(ctx, 4, 5)
    alpha = LONE
    ths = [0.0, 1.0, 2.0, 10.0, 21.0, 100.0, float('inf'), float('nan'), -1.0] if ctx.tier == 'thorough' else [0.0, 1.0, 10.0, 21.0, float('inf'), float('nan')]
    tabs = {repr(th): table(ctx, 'lone', alpha, d, th, 'batch') for th in ths}
    base = tabs[repr(0.0)]
    if not all(_unsupported(rep, R, t_) for t_ in tabs.values()):
        return
    n = 0
    bad_rec, bad_pol, bad_all = [], [], []
    n_dangling = 0
    for s, b0 in base.items():
        if b0.error:
            continue
        n += 1
        rec0 = [e[-1] for e in b0.events if e[0] in ('format', 'format-dec')]
        numbers = b0.occs   # at threshold 0 everything recognised is reported (checked below)
        if len(rec0) != len(numbers):
            bad_all.append((s, 0.0, numbers, rec0))
            continue
        # a separator word that ends up outside every number (`one point the`) is neither a linking word nor an ordinary word for
        # the statement; whether it keeps two numbers together is left open: the policy is compared on the other scripts only
        dangling = any(tk[0] == 'point' and not any(o[0] <= i < o[1] for o in numbers) for i, tk in enumerate(s))
        if dangling:
            n_dangling += 1
        for th in ths[1:]:
            b = tabs[repr(th)][s]
            if b.error:
                continue
            rec = [e[-1] for e in b.events if e[0] in ('format', 'format-dec')]
            if rec != rec0:
                bad_rec.append((s, th, rec0, rec))
                continue
            if dangling:
                continue
            # spec
            want = []
            for k, o in enumerate(numbers):
                start, end, text, value, is_ord = o
                decimal = '.' in text
                small = ((len(text) == 1) or is_ord) and (value < th) and not decimal
                def contiguous(a, b_):
                    lo, hi = (a, b_) if a[1] <= b_[0] else (b_, a)
                    if lo[4] != hi[4]:
                        return False
                    between = [_is_breaker(s[i]) for i in range(lo[1], hi[0])]
                    return not any(x for x in between if x)
                isolated = not ((k > 0 and contiguous(numbers[k - 1], o)) or (k + 1 < len(numbers) and contiguous(o, numbers[k + 1])))
                if not (small and isolated):
                    want.append(o)
            if b.occs != want:
                bad_pol.append((s, th, b.occs, want))
    if bad_all:
        s, th, occs, rec = bad_all[0]
        rep.violation(R, 'threshold-0-reports-all', 'at threshold 0 `%s` recognises %s but reports %s' % (show(s), [r[0] for r in rec], [o[:3] for o in occs]))
    else:
        rep.ok(R, 'threshold-0-reports-all', 'threshold 0 reports every recognised number')
    if bad_rec:
        s, th, r0, r1 = bad_rec[0]
        rep.violation(R, 'recognition-independent', 'on `%s` the recognised numbers are %s at threshold 0 but %s at threshold %s (%d cases)' % (
            show(s), [x[0] for x in r0], [x[0] for x in r1], th, len(bad_rec)))
    else:
        rep.ok(R, 'recognition-independent', 'same recognised numbers at thresholds %s' % ths)
    if bad_pol:
        s, th, got, want = bad_pol[0]
        rep.violation(R, 'small-and-isolated', 'threshold %s on `%s`: reported %s, the policy (hide exactly small isolated numbers) gives %s (%d cases)' % (
            th, show(s), [o[:3] for o in got], [o[:3] for o in want], len(bad_pol)))
    else:
        rep.ok(R, 'small-and-isolated', 'reported = recognised minus small isolated numbers, for %d scripts x %d thresholds' % (n, len(ths) - 1))
    # the lazy iterator applies the same policy (it drains the same tracker incrementally)
    bad_lazy = []
    for th in (10.0, float('inf')):
        lt = table(ctx, 'lone', alpha, d, th, 'lazy')
        if not _unsupported(rep, R, lt):
            return
        bt = tabs[repr(th)]
        for s, l in lt.items():
            b = bt[s]
            if l.error or b.error:
                continue
            if l.occs != b.occs:
                bad_lazy.append((s, th, l.occs, b.occs))
    if bad_lazy:
        s, th, lo, bo = bad_lazy[0]
        rep.violation(R, 'lazy-driver', 'threshold %s on `%s`: find_numbers_iter reports %s where the policy (and find_numbers) give %s (%d cases)' % (
            th, show(s), [o[:3] for o in lo], [o[:3] for o in bo], len(bad_lazy)))
    else:
        rep.ok(R, 'lazy-driver', 'find_numbers_iter hides and reports the same numbers')
    rep.floor(R, n, 2500, 'scripts inspected')
    # what breaks a sequence, token class by token class: [one X one] at threshold 10 reports both numbers iff X is no breaker
    probes = [(',', False), ('.', True), (' . ', True), ('..', False), ('...', False), ('7', False), ('x1', True), ('the', True), ('of', False), ('and', False),
              ('é', True), ('?!', False), ('\u00a0.\u2009', True), ('a.', True)]
    for text, breaks in probes:
        for upper in (False, True):
            sc = (T('one'), T(' '), T(text), T(' '), T('one'))
            r = run_batch(ctx.facts, sc, 10.0, upper=upper)
            ent = 'breaker|%r%s' % (text, '|upper' if upper else '')
            if r.kind == 'unsupported':
                rep.anchor(R, ent, r.error)
                continue
            got = [o[:3] for o in r.occs]
            want = [] if breaks else [(0, 1, '1'), (4, 5, '1')]
            rep.check(not r.error and got == want, R, ent, '%s a sequence' % ('breaks' if breaks else 'does not break'),
                      '`one %s one` at threshold 10 reports %s, expected %s: "%s" %s break a sequence of numbers' % (
                          text.upper() if upper else text, r.error or got, want, text, 'must' if breaks else 'must not'))


# ---------------------------------------------------------------------------------------------------------
def rule_replace_tokenwise(ctx, rep):
    R = 'V02-REPLACE-TOKENWISE'
    rep.rule(R, 'replace_numbers_in_stream on every token script: each input token is either kept (same object, same place) or handed exactly '
                'once, in order, to Replace::replace of the one occurrence covering it; the replacements are exactly the occurrences '
                'find_numbers reports (span and digit text)')
    cases = [('full', FULL, depth_for(ctx, 3, 4), 10.0), ('hold', HOLD, depth_for(ctx, 5, 6), 100.0), ('core', CORE, depth_for(ctx, 4, 5), 0.0)]
    n = 0
    for name, alpha, d, th in cases:
        bt = table(ctx, name, alpha, d, th, 'batch')
        rt = table(ctx, name, alpha, d, th, 'replace')
        if not (_unsupported(rep, R, bt) and _unsupported(rep, R, rt)):
            return
        bad_cons, bad_occ = [], []
        for s, r in rt.items():
            b = bt[s]
            if r.error or b.error:
                continue
            n += 1
            flat = []
            repl = []
            pos = 0
            for tk in r.out_tokens:
                if tk.made_from is not None:
                    ps = [c.pos for c in tk.made_from]
                    repl.append((ps[0] if ps else None, (ps[-1] + 1) if ps else None, tk.data))
                    flat.extend(ps)
                else:
                    flat.append(tk.pos)
            if flat != list(range(len(s))):
                bad_cons.append((s, flat))
            if repl != [(o[0], o[1], o[2]) for o in b.occs]:
                bad_occ.append((s, repl, b.occs))
        ent = '%s|threshold=%s' % (name, th)
        if bad_cons:
            s, flat = bad_cons[0]
            rep.violation(R, ent + '|conservation', 'on `%s` the output accounts for input tokens %s instead of 0..%d in order: tokens are lost, duplicated or '
                          'moved (%d scripts)' % (show(s), flat, len(s) - 1, len(bad_cons)))
        else:
            rep.ok(R, ent + '|conservation', 'every token kept or consumed exactly once, in order')
        if bad_occ:
            s, repl, occs = bad_occ[0]
            rep.violation(R, ent + '|replacements-are-occurrences', 'on `%s` the replacements are %s but find_numbers reports %s (%d scripts)' % (
                show(s), repl, [o[:3] for o in occs], len(bad_occ)))
        else:
            rep.ok(R, ent + '|replacements-are-occurrences', 'replacements = reported occurrences')
    rep.floor(R, n, 5000, 'scripts inspected')


# ---------------------------------------------------------------------------------------------------------
def rule_scanner_total(ctx, rep):
    R = 'V03-SCANNER-TOTAL'
    rep.rule(R, 'on every token script and threshold (incl. NaN, infinite, negative) the three stream entry points reach no panic site on the '
                'abstract machine (empty builder formatted, unwrap of None, out-of-range drain/insert/index, arithmetic overflow)')
    d = depth_for(ctx, 3, 4)
    n = 0
    bad = []
    for name, alpha, dd, th, mode in (('full', FULL, d, 10.0, 'batch'), ('full', FULL, d, 10.0, 'lazy'), ('full', FULL, d, 10.0, 'replace'),
                                      ('core', CORE, depth_for(ctx, 4, 5), float('nan'), 'batch'), ('core', CORE, depth_for(ctx, 4, 5), float('inf'), 'batch'),
                                      ('core', CORE, depth_for(ctx, 4, 5), -1.0, 'batch'), ('hold', HOLD, depth_for(ctx, 5, 6), 100.0, 'replace')):
        tb = table(ctx, name, alpha, dd, th, mode)
        if not _unsupported(rep, R, tb):
            return
        for s, r in tb.items():
            n += 1
            if r.kind == 'panic':
                bad.append((mode, th, s, r.error))
    if bad:
        mode, th, s, err = bad[0]
        rep.violation(R, 'no-panic', '%s at threshold %s on `%s`: %s (%d scripts)' % (mode, th, show(s), err, len(bad)))
    else:
        rep.ok(R, 'no-panic', '%d (script, threshold, entry point) cases reach no panic site' % n)
    rep.floor(R, n, 12000, 'cases')


# ---------------------------------------------------------------------------------------------------------
def rule_scanner_validator(ctx, rep):
    R = 'V07-SPAN-WORDS'
    rep.rule(R, 'a reported span contains only words the interpreter accepted or linking words it declared Incomplete, never a rejected '
                'word; it ends on an accepted word (no dangling conjunction); a rejected word is retried on a fresh builder, so at threshold 0 '
                'every word that is a number on its own (and not flagged) lies inside an occurrence')
    d = depth_for(ctx, 3, 4)
    bt = table(ctx, 'full0', FULL, d, 0.0, 'batch')
    if not _unsupported(rep, R, bt):
        return
    n = 0
    bad_in, bad_cover, bad_retry = [], [], []
    solo = set(CARD) | set(ORDS) | {'zero'}
    for s, b in bt.items():
        if b.error:
            continue
        n += 1
        reads = -1
        verdict = {}
        for e in b.events:
            if e[0] == 'read':
                reads = e[1]
            elif e[0] in ('apply', 'apply_decimal'):
                verdict.setdefault(reads, []).append((e[0], e[2], e[3]))
        for o in b.occs:
            for i in range(o[0], o[1]):
                text = s[i][0]
                if not text.strip() or text == '-':
                    continue
                vs = verdict.get(i, [])
                last = vs[-1][2] if vs else None
                if last not in ('Ok', 'Incomplete') and not (text == SEPW and '.' in o[2]):
                    bad_in.append((s, o, i))
            # ends on accepted word
            vs = verdict.get(o[1] - 1, [])
            if not vs or vs[-1][2] != 'Ok':
                bad_in.append((s, o, o[1] - 1))
        for i, (text, nan, sep) in enumerate(s):
            if text in solo and not nan and not _inside(b.occs, i):
                bad_cover.append((s, i))
            # a rejected word (not Incomplete) while a number is in progress must be retried on an empty builder
            vs = verdict.get(i, [])
            if vs and vs[0][2] not in ('Ok', 'Incomplete') and vs[0][1] != ([], False) and text not in (SEPW,):
                if not (len(vs) >= 2 and vs[1][1] == ([], False)):
                    bad_retry.append((s, i, vs))
    rep.check(not bad_in, R, 'span-words', 'spans hold accepted / linking words only and end on an accepted word',
              'on `%s` the occurrence %s contains or ends on token %d which the interpreter did not accept' % ((show(bad_in[0][0]), bad_in[0][1][:3], bad_in[0][2]) if bad_in else ('', '', 0)))
    rep.check(not bad_retry, R, 'reject-finish-retry', 'a word rejected in the middle of a number is offered again to an empty builder',
              'on `%s` token %d is rejected inside a number and not retried on a fresh builder (%s)' % ((show(bad_retry[0][0]), bad_retry[0][1], bad_retry[0][2]) if bad_retry else ('', 0, '')))
    rep.check(not bad_cover, R, 'threshold-0-covers', 'at threshold 0 every number word lies inside an occurrence',
              'at threshold 0 on `%s` the number word at %d is left unconverted' % ((show(bad_cover[0][0]), bad_cover[0][1]) if bad_cover else ('', 0)))
    rep.floor(R, n, 3500, 'scripts inspected')


# ---------------------------------------------------------------------------------------------------------
def rule_decimal_scanner(ctx, rep):
    R = 'V05-DECIMAL-SCAN'
    rep.rule(R, 'integer, separator word, fraction words form one occurrence spanning them, formatted by the decimal formatter from (integer '
                'builder, fraction builder); a separator without number before it, after an ordinal, or with nothing usable after it stays a word '
                'and the integer is reported alone')
    DEC = [T('twenty'), T('one'), T('zero'), T('point'), T('first'), T('the'), T(' ')]
    d = depth_for(ctx, 4, 5)
    bt = table(ctx, 'dec', DEC, d, 0.0, 'batch')
    if not _unsupported(rep, R, bt):
        return
    n = 0
    bad = []
    for s, b in bt.items():
        if b.error:
            continue
        n += 1
        # reference reading of the script
        want = _decimal_spec(s)
        got = [(o[0], o[1], o[2]) for o in b.occs]
        if got != want:
            bad.append((s, got, want))
    if bad:
        s, got, want = bad[0]
        rep.violation(R, 'decimal-reading', 'on `%s` the scanner reports %s, the decimal grammar gives %s (%d scripts)' % (show(s), got, want, len(bad)))
    else:
        rep.ok(R, 'decimal-reading', '%d scripts over {twenty, one, zero, point, first, the, space} read as specified' % n)
    rep.floor(R, n, 2500, 'scripts inspected')


def _decimal_spec(s):
    """Reference reading (threshold 0) of scripts over the DEC alphabet, written from the property, not from the code."""
    from ..scanmodel import DS, ScanEnv as _E
    env = _E()
    out = []
    i = 0
    words = [(k, t[0]) for k, t in enumerate(s) if t[0].strip()]
    k = 0
    while k < len(words):
        ds = DS()
        start = None
        end = None
        # integer part: longest run of accepted words
        while k < len(words) and env.apply(words[k][1], ds).variant == 'Ok':
            if start is None:
                start = words[k][0]
            end = words[k][0] + 1
            k += 1
        if start is None:
            k += 1
            continue
        frac = []
        if not ds.ordinal and k < len(words) and words[k][1] == SEPW:
            j = k + 1
            while j < len(words) and words[j][1] in ('one', 'zero'):
                frac.append(words[j])
                j += 1
            if frac:
                text = '%s.%s' % (_digits(ds), ''.join({'one': '1', 'zero': '0'}[w] for _p, w in frac))
                out.append((start, frac[-1][0] + 1, text))
                k = j
                continue
        text, _v = env.fmt(ds)
        out.append((start, end, text))
    return out


def _digits(ds):
    from ..scanmodel import digits_of
    return digits_of(ds)


# ---------------------------------------------------------------------------------------------------------
def _case_ws(ctx):
    def mk():
        d = 3
        bt = table(ctx, 'full', FULL, d, 10.0, 'batch')
        un = [(s, r) for s, r in bt.items() if r.kind == 'unsupported']
        if un:
            return ('unsupported', 'the abstract machine cannot interpret the scanner on `%s`: %s' % (show(un[0][0]), un[0][1].error))
        bad_case, bad_ws = [], []
        n = 0
        ups = run_many(ctx.facts, 'batch', 10.0, list(bt), upper=True)
        ws2 = {s: tuple(((' \t\n\u00a0', t[1], t[2]) if t[0] == ' ' else t) for t in s) for s in bt if any(t[0] == ' ' for t in s)}
        ws3 = {s: (T(' '),) + s + (T(' \n'),) for s in bt}
        # punctuation tokens that carry whitespace (the tokenizer glues separators): ". " vs ".\n\u00a0"
        pa = {s: tuple(((t[0] + ' ', t[1], t[2]) if t[0] in ('.', ',') else t) for t in s) for s in bt if any(t[0] in ('.', ',') for t in s)}
        pb = {s: tuple(((' \u2009' + t[0] + '\n\u00a0', t[1], t[2]) if t[0] in ('.', ',') else t) for t in s) for s in pa}
        ra = run_many(ctx.facts, 'batch', 10.0, list(pa.values()))
        rb = run_many(ctx.facts, 'batch', 10.0, list(pb.values()))
        r2 = run_many(ctx.facts, 'batch', 10.0, list(ws2.values()))
        r3 = run_many(ctx.facts, 'batch', 10.0, list(ws3.values()))
        for s, b in bt.items():
            if b.error:
                continue
            n += 1
            up = ups[s]
            if up.error or up.occs != b.occs:
                bad_case.append((s, b.occs, up.occs, up.error))
            if s in ws2:
                w = r2[ws2[s]]
                if w.error or w.occs != b.occs:
                    bad_ws.append((s, b.occs, w.occs, w.error))
            w = r3[ws3[s]]
            if w.error or [(o[0] - 1, o[1] - 1) + o[2:] for o in w.occs] != b.occs:
                bad_ws.append((s, b.occs, w.occs, w.error))
            if s in pa:
                wa, wb = ra[pa[s]], rb[pb[s]]
                if wa.error or wb.error or wa.occs != wb.occs:
                    bad_ws.append((pa[s], wa.occs, wb.occs, wa.error or wb.error))
        return ('ok', bad_case, bad_ws, n)
    return ctx.memo(('scanvm-case-ws',), mk)


def rule_case_scanner(ctx, rep):
    R = 'V11-CASE-SCAN'
    rep.rule(R, 'the scanner reports the same occurrences when every token text is upper-cased while its lowercase form stays the same: '
                'only the lowercase form reaches the interpreter and the linking-word test')
    res = _case_ws(ctx)
    if res[0] == 'unsupported':
        rep.anchor(R, 'machine', res[1])
        return
    _ok, bad_case, _bw, n = res
    if bad_case:
        s, o1, o2, err = bad_case[0]
        rep.violation(R, 'upper-case', 'on `%s` the lower-case text gives %s, the upper-case text gives %s (%d scripts)' % (show(s), [o[:3] for o in o1], err or [o[:3] for o in o2], len(bad_case)))
    else:
        rep.ok(R, 'upper-case', '%d scripts' % n)
    rep.floor(R, n, 3500, 'scripts compared')


def rule_ws_scanner(ctx, rep):
    R = 'V17-WS-SCAN'
    rep.rule(R, 'the scanner reports the same occurrences when whitespace tokens are replaced by other Unicode whitespace runs and when '
                'whitespace tokens are added at either end')
    res = _case_ws(ctx)
    if res[0] == 'unsupported':
        rep.anchor(R, 'machine', res[1])
        return
    _ok, _bc, bad_ws, n = res
    if bad_ws:
        s, o1, o2, err = bad_ws[0]
        rep.violation(R, 'whitespace', 'on `%s` the result is %s, with other whitespace %s (%d scripts)' % (show(s), [o[:3] for o in o1], err or [o[:3] for o in o2], len(bad_ws)))
    else:
        rep.ok(R, 'whitespace', '%d scripts' % n)
    rep.floor(R, n, 3500, 'scripts compared')


# ---------------------------------------------------------------------------------------------------------
class _ValidatorEnv(ScanEnv):
    """text2digits: the group interpreter is the boundary; its three possible answers are enumerated."""

    def __init__(self, answer):
        super().__init__()
        self.answer = answer
        self.words = None

    def call(self, vm, name, callee, resolved, args, t):
        if name == 'LangInterpreter::exec_group' and isinstance(vm.deref(args[0]), type(self.lang)):
            it = vm.deref(args[1])
            from ..vm import Iter, Enum
            self.words = list(it.rest()) if isinstance(it, Iter) else repr(it)
            from ..scanmodel import DS, ERR
            if self.answer == 'empty':
                return Enum('core::result::Result', 'Ok', [DS()])
            if self.answer == 'number':
                ds = DS()
                ds.words = ['twenty', 'one']
                return Enum('core::result::Result', 'Ok', [ds])
            if self.answer == 'ordinal':
                ds = DS()
                ds.words = ['first']
                ds.ordinal = True
                return Enum('core::result::Result', 'Ok', [ds])
            return ERR(self.answer)
        return super().call(vm, name, callee, resolved, args, t)


def rule_validator_entry(ctx, rep):
    R = 'V03-VALIDATOR-ENTRY'
    rep.rule(R, 'text2digits interpreted with the group interpreter as boundary, for each of its possible answers: an empty result is '
                'reported as an error (never formatted), a number is rendered by format_and_value of that same builder, an error is passed '
                'on unchanged; the words handed over are the lower-cased text split on Unicode whitespace')
    # (text, words the group interpreter must receive, which clause the text exercises)
    texts = [('', [], 'plain'), ('   ', [], 'ws'), ('twenty one', ['twenty', 'one'], 'plain'), ('Twenty ONE', ['twenty', 'one'], 'case'),
             ('ÉTÉ x', ['été', 'x'], 'case'), (' \ttwenty  one\n', ['twenty', 'one'], 'ws'),
             ('twenty\u00a0one\u2009\u3000two', ['twenty', 'one', 'two'], 'ws'), ('a-b', ['a-b'], 'plain')]
    for answer in ('empty', 'number', 'ordinal', 'NaN', 'Overlap', 'Incomplete', 'Frozen'):
        for text, words, clause in texts:
            env = _ValidatorEnv(answer)
            vm = VM(ctx.facts, env)
            ent = '%s|%r' % (answer, text)
            try:
                r = vm.run('word_to_digit::text2digits', [text, env.lang])
            except Panic as e:
                rep.violation(R, 'result|' + ent, 'text2digits(%r) reaches a panic site when the group interpreter answers %s: %s' % (text, answer, e))
                continue
            except Unsupported as e:
                rep.anchor(R, 'result|' + ent, 'cannot interpret text2digits: %s' % e)
                continue
            got = (r.variant, vm.deref(r.payload[0]))
            got = (got[0], got[1].variant if hasattr(got[1], 'variant') else got[1])
            want = {'empty': ('Err', 'NaN'), 'number': ('Ok', '21'), 'ordinal': ('Ok', '1st')}.get(answer, ('Err', answer))
            rep.check(got == want, R, 'result|' + ent, '%s -> %s' % (answer, want),
                      'text2digits(%r) with the group interpreter answering %s gives %s, expected %s' % (text, answer, got, want))
            if answer == 'number':
                rep.check(env.words == words, R, 'words|%s|%r' % (clause, text), 'words handed over: %s' % words,
                          'text2digits(%r) hands the words %s to the group interpreter, expected %s (lower-cased text split on Unicode whitespace)' % (text, env.words, words))


def _validate(facts, words):
    env = ScanEnv()
    vm = VM(facts, env)
    from ..vm import Iter
    r = vm.run('lang::LangInterpreter::exec_group', [env.lang, Iter(list(words))])
    if r.variant == 'Ok':
        ds = vm.deref(r.payload[0])
        return ('Ok', env.fmt(ds)[0] if ds.words else '')
    return ('Err', vm.deref(r.payload[0]).variant)


def rule_validator_scanner(ctx, rep):
    R = 'V07-VALIDATOR-SCANNER'
    rep.rule(R, 'the all-or-nothing group interpreter (exec_group) and the scanner, both interpreted against the same abstract language on every '
                'word script: the words of each non-decimal occurrence validate on their own to the same digit text; a script the validator '
                'accepts is reported by the scanner (threshold 0) as one occurrence over the whole script with that text; a script ending on a '
                'linking word is Incomplete')
    VW = [T('one'), T('twenty'), T('first'), T('zero'), T('and'), T('the')]
    d = depth_for(ctx, 4, 5)
    bt = table(ctx, 'valid', VW, d, 0.0, 'batch')
    if not _unsupported(rep, R, bt):
        return
    bad1, bad2, bad3 = [], [], []
    n = 0
    cache = {}

    def val(words):
        if words not in cache:
            cache[words] = _validate(ctx.facts, words)
        return cache[words]
    try:
        for s, b in bt.items():
            if b.error:
                continue
            n += 1
            words = tuple(t[0] for t in s)
            for o in b.occs:
                if '.' in o[2]:
                    continue
                v = val(words[o[0]:o[1]])
                if v != ('Ok', o[2]):
                    bad1.append((s, o, v))
            v = val(words)
            if v[0] == 'Ok' and v[1] != '':
                if [x[:3] for x in b.occs] != [(0, len(s), v[1])]:
                    bad2.append((s, v, b.occs))
            if words and words[-1] == 'and' and v[0] == 'Ok':
                bad3.append((s, v))
    except (Unsupported, Panic) as e:
        rep.anchor(R, 'machine', 'cannot interpret exec_group: %s' % e)
        return
    rep.check(not bad1, R, 'span-validates', 'every reported span validates to its own text',
              'the scanner reports %s on `%s` but validating those words gives %s (%d cases)' % ((bad1[0][1][:3], show(bad1[0][0]), bad1[0][2], len(bad1)) if bad1 else ('', '', '', 0)))
    rep.check(not bad2, R, 'accepted-is-one-number', 'an accepted script is one occurrence with the same text',
              '`%s` validates to %s but the scanner reports %s (%d cases)' % ((show(bad2[0][0]), bad2[0][1], [o[:3] for o in bad2[0][2]], len(bad2)) if bad2 else ('', '', '', 0)))
    rep.check(not bad3, R, 'no-dangling-link', 'a script ending on a linking word is not accepted',
              '`%s` ends on a linking word but validates to %s' % ((show(bad3[0][0]), bad3[0][1]) if bad3 else ('', '')))
    rep.floor(R, n, 1500, 'scripts compared')
