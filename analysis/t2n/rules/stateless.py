"""C-STATELESS (property C14): no state, no effects, Send + Sync."""
from .. import hir as H
from ..callees import classify, is_effectful
from ..facts import LANGS, TRAIT, interp_ty
from ..mir import strip_generics

# macros whose expansions may contain `unsafe` that is part of the dependency's own contract
TRUSTED_UNSAFE_MACROS = ('macro:bitflags', 'macro:phf_set', 'macro:phf_map', 'macro:__impl_bitflags',
                         'macro:__bitflags', 'macro:derive', 'macro:format', 'macro:format_args')


def rule_types(ctx, rep):
    f = ctx.facts
    R = 'C-STATELESS/types'
    rep.rule(R, 'the seven interpreters and Language are Freeze (no interior mutability), Send and Sync '
                '(trait-solver answers); every LangInterpreter method takes &self')
    types = [interp_ty(l) for l in sorted(LANGS)] + ['lang::Language']
    for t in types:
        a = f.adts.get(t)
        if not a:
            rep.anchor(R, t, 'type not found')
            continue
        for tr in ('freeze', 'send', 'sync'):
            if tr not in a:
                rep.anchor(R, '%s|%s' % (t, tr), 'no trait-solver answer (generic type?)')
                continue
            rep.check(a[tr], R, '%s|%s' % (t, tr), '%s: %s holds' % (t, tr.capitalize()),
                      '%s is not %s: %s' % (t, tr.capitalize(),
                                            'contains interior mutability (UnsafeCell)' if tr == 'freeze' else
                                            'cannot be shared/sent across threads'), f.loc(a['sp']))
    # field types of the interpreters, transitively local ADTs, must be Freeze as well (implied by the
    # answer above; listed for the reader)
    trait = next((t for t in f.items['traits'] if t['path'] == TRAIT), None)
    if not trait:
        rep.anchor(R, 'trait', 'LangInterpreter not found')
        return
    n = 0
    for it in trait['items']:
        if it['kind'] != 'Fn':
            continue
        fn = f.fns.get(it['path'])
        if not fn:
            rep.anchor(R, 'sig|' + it['name'], 'no signature')
            continue
        first = fn['inputs'][0] if fn['inputs'] else ''
        n += 1
        rep.check(first.startswith('&') and not first.startswith('&mut') and "mut Self" not in first, R, 'sig|' + it['name'],
                  '%s takes %s' % (it['name'], first), '%s takes `%s`: an interpreter method can modify the interpreter' % (it['name'], first),
                  f.loc(fn['sp']))
    rep.floor(R + '#sigs', n, 9, 'trait methods with checked receiver')


def rule_statics(ctx, rep):
    f = ctx.facts
    R = 'C-STATELESS/statics'
    rep.rule(R, 'no `static mut`, no static with interior mutability, no thread-local; no user-written unsafe')
    for s in f.items['statics']:
        ent = s['path']
        bad = []
        if s['mut']:
            bad.append('static mut')
        write_once = s['ty'].startswith(('std::sync::LazyLock<', 'std::sync::lazy_lock::LazyLock<')) and not s['mut']
        if not s['freeze'] and not write_once:
            bad.append('type %s has interior mutability' % s['ty'])
        if s['thread_local']:
            bad.append('thread-local')
        if bad:
            rep.violation(R, ent, 'global mutable state: ' + ', '.join(bad), f.loc(s['sp']))
        else:
            rep.ok(R, ent, ('write-once constant %s (the initialiser of a static captures nothing; its body is part of the effect inventory)' if write_once
                            else 'immutable %s') % s['ty'], f.loc(s['sp']))
    if not f.items['statics']:
        rep.ok(R, 'none', 'crate has no statics', nontrivial=False)
    # thread_local! expands to a const/static + LocalKey; catch by type mention
    for o in f.items['others']:
        if 'thread_local' in (o.get('exp') or ''):
            rep.violation(R, o['path'], 'thread_local! item', f.loc(o['sp']))
    # unsafe
    n_unsafe = 0
    for b in f.data['bodies']:
        for u in b.get('unsafe_blocks', []):
            n_unsafe += 1
            exp = u.get('exp') or ''
            if 'UserProvided' in u.get('rules', '') and not exp.startswith(TRUSTED_UNSAFE_MACROS):
                rep.violation(R, 'unsafe|' + b['path'], 'user-written unsafe block (outside std/phf/bitflags macro expansions)', f.loc(u['sp']))
    for fn in f.items['fns']:
        if fn['unsafe'] and not (fn.get('exp') or '').startswith(TRUSTED_UNSAFE_MACROS):
            rep.violation(R, 'unsafe-fn|' + fn['path'], 'user-written unsafe fn', f.loc(fn['sp']))
    rep.ok(R, 'unsafe-inventory', '%d unsafe blocks, all inside trusted macro expansions' % n_unsafe, nontrivial=False)


def rule_effects(ctx, rep):
    """No effectful callee in any body of the library (cfg(test) code is not part of the lib target)."""
    f = ctx.facts
    R = 'C-STATELESS/effects'
    rep.rule(R, 'no callee classified effectful (std::io incl. _print/_eprint, fs, env, time, process, net, '
                'thread, sync, cell, rand, raw pointers, FFI) in any library body; every callee classified')
    local = set(f.mir.keys())
    seen = {}
    n_sites = 0
    indirect = []
    for m in f.data['mir']:
        for b in m['blocks']:
            t = b.get('term') or {}
            k = t.get('k')
            if k == 'call':
                n_sites += 1
                cal, res = t.get('callee'), t.get('resolved')
                if t.get('indirect'):
                    # a call through a function pointer / closure value: its targets are the functions used as values
                    # somewhere in the crate (classified below) or code supplied by the caller
                    indirect.append((m['path'], t.get('fty'), t['sp']))
                    continue
                cls = classify(cal, res, local)
                key = strip_generics(res or cal)
                if cls == 'effect':
                    what = 'dbg!/eprint! output on stderr' if '_eprint' in key else ('print! output on stdout' if '_print' in key else 'effectful callee')
                    rep.violation(R, '%s|%s' % (m['path'], key), '%s: %s' % (what, key), f.loc(t['sp']))
                elif cls == 'unknown':
                    # local trait methods without a body here (Token::text, Replace::replace, ..) are
                    # calls into caller-supplied code, not effects of the library
                    if (cal or '').split('::')[0] in ('lang', 'word_to_digit', 'tokenizer', 'digit_string', 'error'):
                        seen[key] = 'caller-supplied trait method'
                    else:
                        rep.anchor(R, 'unclassified|' + key, 'callee `%s` is in no class of the callee table (first seen in %s)' % (key, m['path']), f.loc(t['sp']))
                else:
                    seen[key] = cls
            elif k == 'otherterm' and 'InlineAsm' in t.get('s', ''):
                rep.violation(R, 'asm|' + m['path'], 'inline assembly', f.loc(t['sp']))
        for b in m['blocks']:
            for s in b['stmts']:
                if s['k'] == 'assign' and s['rv']['k'] == 'tlref':
                    rep.violation(R, 'tlref|' + m['path'], 'thread-local access', f.loc(s['sp']))
    if indirect:
        from .. import hir as H
        reified = {}
        for b in f.data['bodies']:
            callee_nodes = set()
            for n in H.walk(b['value']):
                if n.get('k') == 'Call':
                    callee_nodes.add(id(H.peel(n['f'])))
            for n in H.walk(b['value']):
                if n.get('k') == 'Path' and id(n) not in callee_nodes and (n.get('res') or {}).get('t') == 'def' and \
                        (n['res'].get('kind') in ('Fn', 'AssocFn')):
                    reified.setdefault(n['res']['path'], b['path'])
        for m in f.data['mir']:
            for b in m['blocks']:
                ops = []
                for s_ in b['stmts']:
                    if s_['k'] == 'assign':
                        rv = s_['rv']
                        ops += [rv[k_] for k_ in ('op', 'a', 'b') if isinstance(rv.get(k_), dict)] + list(rv.get('ops', []))
                t = b.get('term') or {}
                if t.get('k') == 'call':
                    ops += list(t.get('args', []))
                for o in ops:
                    if o.get('k') == 'const' and o.get('fn'):
                        reified.setdefault(o['fn'], m['path'])
        bad = []
        for path, where in sorted(reified.items()):
            cls = classify(path, path, local)
            if cls == 'effect':
                bad.append((path, where))
            elif cls == 'unknown' and path.split('::')[0] not in ('lang', 'word_to_digit', 'tokenizer', 'digit_string', 'error') and path not in local:
                rep.anchor(R, 'unclassified|' + strip_generics(path), 'function `%s` is used as a value in %s and is in no class of the callee table' % (path, where))
        for path, where in bad:
            rep.violation(R, 'fn-value|' + strip_generics(path), 'effectful function `%s` is used as a value in %s and may be called indirectly' % (path, where))
        for (mp, fty, sp) in indirect:
            rep.ok(R, 'indirect|' + mp, 'call through %s: its targets are among the %d functions used as values in the crate (all classified) or caller-supplied' % (
                fty, len(reified)), f.loc(sp))
    rep.ok(R, 'inventory', '%d call sites, %d distinct callees, none effectful' % (n_sites, len(seen)))
    rep.floor(R + '#sites', n_sites, 1500, 'call sites classified')
    rep.floor(R + '#callees', len(seen), 150, 'distinct classified callees')
    rep.note('callee classes: ' + ', '.join('%s=%d' % (c, sum(1 for v in seen.values() if v == c)) for c in sorted(set(seen.values()))))
