"""Family C (type-level / inventory): C-DELEGATION, C-ISO (property C13)."""
from .. import hir as H
from ..facts import LANGS, TRAIT, interp_ty

# frozen tables (rule instances) -----------------------------------------------------------
CTOR_OF_LANG = {  # Language::<ctor>() -> variant, payload type
    'german': 'German', 'english': 'English', 'spanish': 'Spanish', 'french': 'French',
    'italian': 'Italian', 'dutch': 'Dutch', 'portuguese': 'Portuguese',
}
ISO = {'de': 'german', 'en': 'english', 'es': 'spanish', 'fr': 'french', 'it': 'italian',
       'nl': 'dutch', 'pt': 'portuguese'}
# other ISO 639 codes that designate the same seven languages (tolerated if they map to the
# right language; anything else that resolves is "a string that is not a language code")
ISO_ALIASES = {'deu': 'german', 'ger': 'german', 'eng': 'english', 'spa': 'spanish', 'fra': 'french',
               'fre': 'french', 'ita': 'italian', 'nld': 'dutch', 'dut': 'dutch', 'por': 'portuguese'}
TYPE_OF_VARIANT = {v: 'lang::%s::%s' % (k, v) for k, v in LANGS.items()}

FACADE = 'lang::Language'


def _single_expr(body_value):
    """Peel a fn body `{ expr }` to its only expression; None if it has statements."""
    e = body_value
    while e.get('k') in ('BlockExpr', 'Block'):
        blk = e['block'] if e['k'] == 'BlockExpr' else e
        if blk['stmts'] or not blk.get('expr'):
            return None
        e = blk['expr']
    return e


def rule_delegation(ctx, rep):
    f = ctx.facts
    R = 'C-DELEGATION'
    rep.rule(R, 'every trait method a concrete interpreter defines is forwarded by the facade, one arm per '
                'variant, to the same-named method of the payload with the facade\'s own arguments in order')
    trait = next((t for t in f.items['traits'] if t['path'] == TRAIT), None)
    if not trait:
        rep.anchor(R, 'trait', 'trait %s not found' % TRAIT)
        return
    methods = {i['name']: i for i in trait['items'] if i['kind'] == 'Fn'}
    required = {n for n, i in methods.items() if not i['has_default']}
    # provided methods overridden by some concrete interpreter
    overridden = set()
    concrete_impls = {}
    facade_impl = None
    for imp in f.items['impls']:
        if imp.get('trait') != TRAIT:
            continue
        if imp['self_ty'] == FACADE:
            facade_impl = imp
        else:
            concrete_impls[imp['self_ty']] = imp
            for it in imp['items']:
                if it['name'] in methods and methods[it['name']]['has_default']:
                    overridden.add(it['name'])
    for v, t in TYPE_OF_VARIANT.items():
        if t not in concrete_impls:
            rep.anchor(R, 'impl|' + t, 'no `impl LangInterpreter for %s` found' % t)
    if not facade_impl:
        rep.anchor(R, 'facade', 'no `impl LangInterpreter for Language`')
        return
    lang_adt = f.adts.get(FACADE)
    if not lang_adt:
        rep.anchor(R, 'adt', 'enum lang::Language not found')
        return
    variants = {}
    for v in lang_adt['variants']:
        if len(v['fields']) != 1:
            rep.violation(R, 'variant|' + v['name'], 'variant does not wrap exactly one interpreter', lang_adt['sp'])
            continue
        variants[v['name']] = v['fields'][0]['ty']
    for v, t in TYPE_OF_VARIANT.items():
        rep.check(variants.get(v) == t, R, 'variant-payload|' + v,
                  'Language::%s wraps %s' % (v, t),
                  'Language::%s wraps %s, expected %s' % (v, variants.get(v), t), f.loc(lang_adt['sp']))
    extra_variants = set(variants) - set(TYPE_OF_VARIANT)
    for v in sorted(extra_variants):
        rep.info(R, 'variant|' + v, 'additional Language variant (not one of the seven built-ins); delegation is still checked')
    facade_items = {i['name'] for i in facade_impl['items']}
    must = sorted(required | overridden)
    n_oblig = 0
    for m in must:
        if m not in facade_items:
            rep.violation(R, 'method|' + m,
                          'the facade does not define `%s`, which %s; facade users get the default body instead of the '
                          'language\'s own' % (m, 'is required' if m in required else 'some concrete interpreter overrides'),
                          f.loc(facade_impl['sp']))
            continue
        path = '<%s as %s>::%s' % (FACADE, TRAIT, m)
        body = f.body(path)
        if not body:
            rep.anchor(R, 'method|' + m, 'no body for ' + path)
            continue
        e = _single_expr(body['value'])
        if e is None or e.get('k') != 'Match':
            rep.anchor(R, 'method|' + m, 'facade method body is not a single `match self {..}` (unanalysable shape)', f.loc(body['sp']))
            continue
        self_b = H.param_binding(body, 0)
        if H.local_id(e['scrut']) != (self_b[0] if self_b else None):
            rep.violation(R, 'method|%s|scrutinee' % m, 'the match does not scrutinise `self`', f.loc(e['sp']))
            continue
        params = [H.param_binding(body, i) for i in range(1, len(body['params']))]
        seen = {}
        for arm in e['arms']:
            p = arm['pat']
            while p['k'] == 'Ref':
                p = p['p']
            loc = f.loc(arm['sp'])
            if p['k'] != 'TupleStruct' or p['res'].get('t') != 'def' or len(p['ps']) != 1 or p['ps'][0]['k'] != 'Binding':
                if H.pat_is_catchall(p):
                    rep.violation(R, 'method|%s|catch-all' % m, 'catch-all arm in the facade match: some variant is not '
                                  'forwarded to its own interpreter', loc)
                else:
                    rep.anchor(R, 'method|%s|arm' % m, 'arm pattern is not `Language::V(binding)`', loc)
                continue
            vpath = p['res'].get('ctor_of') or p['res']['path']
            vname = vpath.split('::')[-1]
            if not vpath.startswith(FACADE + '::'):
                rep.violation(R, 'method|%s|arm|%s' % (m, vname), 'arm matches a constructor outside Language', loc)
                continue
            n_oblig += 1
            ent = '%s|%s' % (m, vname)
            if vname in seen:
                rep.violation(R, ent + '|dup', 'variant matched twice', loc)
            seen[vname] = True
            if arm.get('guard'):
                rep.violation(R, ent, 'arm has a guard: delegation is conditional', loc)
                continue
            bid = p['ps'][0]['bid']
            call = H.peel(arm['body'])
            if call.get('k') != 'MethodCall':
                rep.violation(R, ent, 'arm body is not a method call on the payload: `%s`' % H.render(call), loc)
                continue
            problems = []
            if H.local_id(call['recv']) != bid:
                problems.append('receiver is `%s`, not the bound payload' % H.render(call['recv']))
            decl = call.get('callee')
            if decl != '%s::%s' % (TRAIT, m):
                problems.append('calls `%s`, expected `%s::%s`' % (decl, TRAIT, m))
            want_ty = variants.get(vname)
            recv_ty = (call['recv'].get('ty') or '').lstrip('&').strip()
            if recv_ty.startswith('mut '):
                recv_ty = recv_ty[4:]
            if recv_ty != want_ty:
                problems.append('payload type is %s, expected %s' % (recv_ty, want_ty))
            res = call.get('resolved')
            if res is not None and res != '<%s as %s>::%s' % (want_ty, TRAIT, m) and res != '%s::%s' % (TRAIT, m):
                problems.append('resolves to `%s`' % res)
            args = call['args']
            if len(args) != len(params):
                problems.append('passes %d arguments, the facade method has %d' % (len(args), len(params)))
            else:
                for i, (a, pb) in enumerate(zip(args, params)):
                    if pb is None or H.local_id(a) != pb[0]:
                        problems.append('argument %d is `%s`, expected the facade\'s own parameter `%s`' % (
                            i, H.render(a), pb[1] if pb else '?'))
            if problems:
                rep.violation(R, ent, '; '.join(problems), loc)
            else:
                rep.ok(R, ent, 'Language::%s(l) => l.%s(%s) on %s' % (vname, m, ', '.join(x[1] for x in params), want_ty), loc)
        for v in variants:
            if v not in seen:
                rep.violation(R, '%s|%s' % (m, v), 'no arm forwards Language::%s in `%s`' % (v, m), f.loc(e['sp']))
    rep.floor(R, n_oblig, 56, 'delegation obligations (methods x variants)')
    # exec_group: the shared provided method must only reach the language through self.apply
    eg = f.body(TRAIT + '::exec_group')
    if eg:
        bad = []
        for n in H.walk(eg['value']):
            if n.get('k') == 'MethodCall' and (n.get('callee') or '').startswith(TRAIT + '::') and n['name'] != 'apply':
                bad.append(n['name'])
        rep.check(not bad, R, 'exec_group|trait-calls', 'provided exec_group calls only self.apply',
                  'provided exec_group also calls %s' % bad, f.loc(eg['sp']))
    else:
        rep.anchor(R, 'exec_group', 'provided method exec_group not found')


def rule_constructors(ctx, rep):
    f = ctx.facts
    R = 'C-CTOR'
    rep.rule(R, 'Language::x() wraps <X as Default>::default() in variant X; X::new() is Default::default()')
    n = 0
    for ctor, variant in CTOR_OF_LANG.items():
        path = '%s::%s' % (FACADE, ctor)
        body = f.body(path)
        ent = 'Language::' + ctor
        if not body:
            rep.violation(R, ent, 'constructor %s missing' % path)
            continue
        e = _single_expr(body['value'])
        loc = f.loc(body['sp'])
        ok = False
        why = 'body is not `Language::%s(<%s>::default())`' % (variant, variant)
        if e is not None and e.get('k') == 'Call':
            fn = H.peel(e['f'])
            ctor_of = fn.get('res', {}).get('ctor_of') if fn.get('k') == 'Path' else None
            if ctor_of == '%s::%s' % (FACADE, variant) and len(e['args']) == 1:
                a = H.peel(e['args'][0])
                want = '<%s as core::default::Default>::default' % TYPE_OF_VARIANT[variant]
                want_new = '%s::new' % TYPE_OF_VARIANT[variant]
                got = H.callee(a) if a.get('k') in ('Call', 'MethodCall') else None
                if got in (want, want_new):
                    ok = True
                else:
                    why = 'payload is built by `%s`, expected %s' % (got, want)
            else:
                why = 'wraps variant %s, expected %s' % (ctor_of, variant)
        n += 1
        rep.check(ok, R, ent, 'returns Language::%s(%s::default())' % (variant, variant), why, loc)
    for lang, tyname in LANGS.items():
        t = interp_ty(lang)
        body = f.body(t + '::new')
        ent = tyname + '::new'
        if not body:
            rep.info(R, ent, 'no inherent new()')
            continue
        e = _single_expr(body['value'])
        got = H.callee(e) if e is not None and e.get('k') in ('Call', 'MethodCall') else None
        want = '<%s as core::default::Default>::default' % t
        n += 1
        rep.check(got == want, R, ent, 'is Default::default()', 'new() is `%s`, not %s' % (got, want), f.loc(body['sp']))
    rep.floor(R, n, 14, 'constructor obligations')


def rule_iso(ctx, rep):
    f = ctx.facts
    R = 'C-ISO'
    rep.rule(R, 'get_interpreter_for maps each ISO 639-1 code of the seven languages to that language, '
                'nothing else to a language, default arm None, no normalisation before the match')
    body = f.body('get_interpreter_for')
    if not body:
        rep.anchor(R, 'fn', 'get_interpreter_for not found')
        return
    e = _single_expr(body['value'])
    if e is None or e.get('k') != 'Match':
        rep.anchor(R, 'shape', 'body is not a single match on the code (unanalysable shape)', f.loc(body['sp']))
        return
    pb = H.param_binding(body, 0)
    rep.check(pb is not None and H.local_id(e['scrut']) == pb[0], R, 'scrutinee',
              'the parameter is matched as given (no normalisation: nothing but the exact codes can resolve)',
              'the scrutinee is `%s`, not the unmodified parameter' % H.render(e['scrut']), f.loc(e['sp']))
    mapping = {}
    default_none = False
    for arm in e['arms']:
        loc = f.loc(arm['sp'])
        lits = H.pat_literals(arm['pat'])
        body_e = H.peel(arm['body'])
        target = None  # ctor name or 'None' or '?'
        if body_e.get('k') == 'Call':
            fn = H.peel(body_e['f'])
            if fn.get('k') == 'Path' and (fn['res'].get('ctor_of') or '').endswith('Option::Some') and len(body_e['args']) == 1:
                inner = H.peel(body_e['args'][0])
                c = H.callee(inner) if inner.get('k') in ('Call', 'MethodCall') else None
                if c and c.startswith(FACADE + '::'):
                    target = c.split('::')[-1]
                else:
                    target = '?' + H.render(inner)
        elif body_e.get('k') == 'Path' and (body_e['res'].get('path') or '').endswith('Option::None'):
            target = 'None'
        if target is None:
            target = '?' + H.render(body_e)
        if arm.get('guard'):
            rep.anchor(R, 'arm|guard', 'guarded arm in the code table (unanalysable)', loc)
            continue
        if lits is None:
            rep.anchor(R, 'arm|pattern', 'non-literal pattern in the code table', loc)
            continue
        if not lits:
            default_none = (target == 'None')
            rep.check(default_none, R, 'default', 'default arm returns None',
                      'default arm returns `%s`: unknown strings resolve to a language' % target, loc)
            continue
        for t, v in lits:
            mapping[v] = (target, loc)
    for code, ctor in ISO.items():
        got = mapping.get(code)
        if got is None:
            rep.violation(R, code, 'ISO 639-1 code "%s" has no arm: get_interpreter_for("%s") is None although %s is built in' % (
                code, code, CTOR_OF_LANG[ctor]), f.loc(e['sp']))
        else:
            rep.check(got[0] == ctor, R, code, '"%s" => Some(Language::%s())' % (code, ctor),
                      '"%s" resolves to Language::%s(), expected Language::%s()' % (code, got[0], ctor), got[1])
    for code, (target, loc) in mapping.items():
        if code in ISO:
            continue
        if target == 'None':
            rep.ok(R, 'extra|' + code, 'explicit None arm')
        elif ISO_ALIASES.get(code) == target:
            rep.info(R, 'alias|' + code, 'ISO 639-2 alias of the same language')
        else:
            rep.violation(R, 'extra|' + code, '"%s" is not an ISO 639-1 code of a built-in language but resolves to %s' % (code, target), loc)
    if not any(H.pat_literals(a['pat']) == [] for a in e['arms']):
        rep.anchor(R, 'default', 'no default arm found')


def rule_no_downcast(ctx, rep):
    """The generic API touches the language only through trait methods (no Any/TypeId)."""
    f = ctx.facts
    R = 'C-NO-DOWNCAST'
    rep.rule(R, 'no callee from core::any (downcast / TypeId) anywhere in the crate')
    hits = []
    total = 0
    for m in f.data['mir']:
        for b in m['blocks']:
            t = b.get('term') or {}
            if t.get('k') == 'call':
                total += 1
                c = (t.get('resolved') or t.get('callee') or '')
                if 'core::any::' in c or 'std::any::' in c:
                    hits.append((m['path'], c, f.loc(t['sp'])))
    for p, c, loc in hits:
        rep.violation(R, '%s|%s' % (p, c), 'type-identity based dispatch', loc)
    if not hits:
        rep.ok(R, 'crate', 'no core::any callee among %d call sites' % total)
