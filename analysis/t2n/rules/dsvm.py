"""The digit builder (src/digit_string.rs) on the abstract machine: bounded exhaustive case tables.

Every sequence of public building operations up to a bounded length, over an argument alphabet that contains one
representative of every case the code distinguishes (empty / zero / zeros / one digit / several digits / digits longer
than the buffer; positions 0, inside, at and beyond the length), is interpreted from the MIR of the methods themselves.
After every step all public queries are evaluated.  The clauses of C12 are predicates over those tables.  This is a
bounded, exhaustive exploration of an abstraction-free model (the builder is small enough to be interpreted exactly);
what it cannot show is the absence of violations beyond the bound — the MIR dataflow rules B1/B3/B4/B6 remain for that.
"""
import itertools
import os

from ..vm import VM, Enum, Panic, Ref, Seq, Slice, Struct, Unsupported

P = 'digit_string::DigitString::'


def B(b):
    return Seq(list(b))


DIGITS = [b'', b'0', b'00', b'1', b'10', b'12', b'100', b'123', b'7000']
OPS = ([('put', d) for d in DIGITS] + [('fput', d) for d in (b'', b'0', b'5', b'80', b'123')] + [('push', d) for d in (b'', b'0', b'5', b'12')] +
       [('put_digit_at', (dg, pos)) for dg in (48, 51) for pos in (0, 1, 2, 5)] + [('shift', p) for p in (0, 1, 2, 3, 6)] + [('freeze', None), ('reset', None), ('set-flags', 5), ('set-marker', 'th')])
OPS_SMALL = [('put', b'0'), ('put', b'1'), ('put', b'20'), ('put', b'100'), ('fput', b'80'), ('push', b'5'), ('put_digit_at', (51, 1)), ('put_digit_at', (52, 3)),
             ('shift', 2), ('shift', 3), ('freeze', None), ('reset', None)]
OPS_QUICK = [('put', b'0'), ('put', b'1'), ('put', b'20'), ('fput', b'80'), ('push', b'5'), ('put_digit_at', (51, 1)), ('put_digit_at', (52, 3)), ('shift', 2),
             ('shift', 3), ('freeze', None)]
MUTATORS = ('put', 'fput', 'push', 'put_digit_at', 'shift')


def show_op(op):
    name, arg = op
    if arg is None:
        return '%s()' % name
    if isinstance(arg, bytes):
        return '%s(b"%s")' % (name, arg.decode())
    if isinstance(arg, tuple):
        return "%s(b'%s', %d)" % (name, chr(arg[0]), arg[1])
    if name == 'set-flags':
        return 'flags = %d' % arg
    if name == 'set-marker':
        return 'marker = Ordinal("%s")' % arg
    return '%s(%d)' % (name, arg)


def show_seq(seq):
    return 'new().' + '.'.join(show_op(o) for o in seq) if seq else 'new()'


def call_op(vm, R, op):
    name, arg = op
    if name == 'set-flags':                 # `flags` and `marker` are public fields: users (the interpreters) write them directly
        vm.deref(R).fields['flags'] = arg
        return ()
    if name == 'set-marker':
        vm.deref(R).fields['marker'] = Enum('lang::MorphologicalMarker', 'Ordinal', [arg])
        return ()
    if arg is None:
        args = []
    elif isinstance(arg, bytes):
        args = [B(arg)]
    elif isinstance(arg, tuple):
        args = list(arg)
    else:
        args = [arg]
    return vm.run(P + name, [R] + args)


QUERY_GRID = [('to_string', ()), ('len', ()), ('is_empty', ()), ('is_null', ()), ('is_ordinal', ())] + \
    [('peek', (n,)) for n in (0, 1, 2, 5)] + [('is_free', (n,)) for n in (0, 1, 2, 5)] + \
    [('is_position_free', (n,)) for n in (0, 1, 3, 9)] + [('is_range_free', (a, b)) for a, b in ((0, 0), (0, 2), (1, 3), (3, 5), (2, 1), (6, 8), (0, 20))]


def observe(vm, R):
    """All public queries + public fields; a panic is recorded as the observation."""
    out = []
    for q, args in QUERY_GRID:
        try:
            v = vm.deref(vm.run(P + q, [R] + list(args)))
            if isinstance(v, (Seq, Slice)):
                v = bytes(v.items)
            out.append(v)
        except Panic as e:
            out.append('PANIC %s%s: %s' % (q, args, e))
    ds = vm.deref(R)
    out.append(('flags', ds.fields.get('flags')))
    out.append(('marker', repr(ds.fields.get('marker'))))
    try:
        m = vm.facts.mir_body('<digit_string::DigitString as core::ops::deref::Deref>::deref')
        if m is not None:
            v = vm.deref(vm.run(m, [R]))
            out.append(('deref', bytes(v.items)))
    except Panic as e:
        out.append('PANIC deref: %s' % e)
    return tuple(out)


_FACTS = None


def _explore_from(job):
    """All sequences with the given first op, depth-first with snapshots.  Returns list of step records."""
    first, ops, depth = job
    facts = _FACTS
    vm = VM(facts)
    recs = []
    try:
        vm.heap['ds'] = vm.run(P + 'new', [])
        R = Ref('heap', 'ds')
        fresh_obs = observe(vm, R)
        root = vm.snapshot()

        def rec(prefix, depth_left, before_obs):
            snap = vm.snapshot()
            for op in (ops if prefix else [first]):
                vm.restore(snap)
                seq = prefix + (op,)
                try:
                    r = call_op(vm, R, op)
                    res = r.variant if isinstance(r, Enum) else 'unit'
                    err = r.payload[0].variant if isinstance(r, Enum) and r.variant == 'Err' else None
                    after = observe(vm, R)
                    recs.append((seq, res, err, before_obs, after))
                    if depth_left > 1:
                        rec(seq, depth_left - 1, after)
                except Panic as e:
                    recs.append((seq, 'PANIC', str(e), before_obs, None))
        rec((), depth, fresh_obs)
        return ('ok', recs, fresh_obs)
    except Unsupported as e:
        return ('unsupported', str(e), None)


def explore(ctx, ops, depth, name):
    def mk():
        global _FACTS
        _FACTS = ctx.facts
        jobs = [(op, ops, depth) for op in ops]
        out = []
        n = min(os.cpu_count() or 1, 16)
        if n < 2 or os.environ.get('T2N_NO_FORK') or depth < 3:
            res = [_explore_from(j) for j in jobs]
        else:
            import multiprocessing
            with multiprocessing.get_context('fork').Pool(n) as pool:
                res = pool.map(_explore_from, jobs, chunksize=1)
        fresh = None
        for r in res:
            if r[0] == 'unsupported':
                return ('unsupported', r[1])
            out.extend(r[1])
            fresh = r[2]
        return ('ok', out, fresh)
    return getattr(ctx, 'memo_disk', ctx.memo)(('dsvm', name, depth), mk)


def _value(text):
    return int(text) if text else 0


def _verdicts(ctx):
    res = explore(ctx, OPS, 3 if ctx.tier == 'thorough' else 2, 'full')
    res2 = explore(ctx, OPS_SMALL if ctx.tier == 'thorough' else OPS_QUICK, 5 if ctx.tier == 'thorough' else 4, 'small')
    for r in (res, res2):
        if r[0] == 'unsupported':
            return ('unsupported', r[1])
    recs = res[1] + res2[1]
    fresh = res[2]
    bad = {}
    I = {q: i for i, q in enumerate(QUERY_GRID)}
    TS, LEN, EMPTY, NULL = I[('to_string', ())], I[('len', ())], I[('is_empty', ())], I[('is_null', ())]
    n = 0
    for seq, result, err, before, after in recs:
        n += 1
        op, arg = seq[-1]
        if result == 'PANIC':
            bad.setdefault('no-panic', (seq, 'the operation panics: %s' % err))
            continue
        qp = [x for x in after if isinstance(x, str) and x.startswith('PANIC')]
        if qp:
            bad.setdefault('no-panic', (seq, 'then the query %s' % qp[0][6:]))
            continue
        text, length = after[TS], after[LEN]
        if not (isinstance(text, str) and all(c in '0123456789' for c in text) and len(text) == length):
            bad.setdefault('rendering', (seq, 'renders %r with reported length %r' % (text, length)))
        pushed_any = any(o[0] in ('push', 'fput') for o in seq)
        if after[EMPTY] != (length == 0) or (not pushed_any and after[NULL] != (text.strip('0') == '')):
            bad.setdefault('emptiness', (seq, 'renders %r but is_empty() = %s, is_null() = %s' % (text, after[EMPTY], after[NULL])))
        btext = before[TS] if isinstance(before[TS], str) else ''
        frozen_before = _frozen(seq[:-1])
        if result == 'Err':
            if after != before:
                diff = [(QUERY_GRID[i] if i < len(QUERY_GRID) else 'field', before[i], after[i]) for i in range(len(after)) if before[i] != after[i]][:2]
                bad.setdefault('error-changes-nothing', (seq, 'reports Err(%s) but changes %s' % (err, diff)))
        if op in MUTATORS and frozen_before and result != 'Err':
            bad.setdefault('frozen-refuses', (seq, 'succeeds on a frozen builder'))
        if op in MUTATORS and frozen_before and result == 'Err' and err != 'Frozen':
            bad.setdefault('frozen-refuses', (seq, 'a frozen builder answers Err(%s), expected Err(Frozen)' % err))
        if result == 'Ok' and op in MUTATORS:
            nz_before = [c for c in btext if c != '0']
            it = iter(text)
            if op != 'fput' and not all(c in it for c in nz_before):
                bad.setdefault('digits-kept', (seq, 'turns %r into %r: a placed non-zero digit is lost or reordered' % (btext, text)))
            pushed = pushed_any
            if op == 'put' and not pushed:
                d = arg.decode()
                bval = btext.lstrip('0')
                if d == '0':
                    if bval != '' or text != btext + '0':
                        bad.setdefault('zeros', (seq, 'put(b"0") on %r gives %r' % (btext, text)))
                elif d.strip('0') == '':
                    bad.setdefault('zeros', (seq, 'put(b"%s") (no non-zero digit) succeeds on %r giving %r' % (d, btext, text)))
                else:
                    lead = len(btext) - len(bval)
                    want = (btext[:lead] + d) if bval == '' else None
                    if bval != '':
                        ok_free = len(bval) >= len(d) and bval[len(bval) - len(d):].strip('0') == ''
                        want = btext[:len(btext) - len(d)] + d if ok_free else 'an error'
                    if text != want:
                        bad.setdefault('put-value', (seq, 'put(b"%s") on %r gives %r, documented result: %s' % (d, btext, text, want)))
            if op == 'put_digit_at' and not pushed:
                dg, pos = arg
                bval = btext.lstrip('0')
                lead = btext[:len(btext) - len(bval)]
                want_v = _value(bval) + int(chr(dg)) * 10 ** pos
                if text != lead + str(want_v):
                    bad.setdefault('put-digit-value', (seq, 'put_digit_at(b\'%s\', %d) on %r gives %r, documented result %r' % (chr(dg), pos, btext, text, lead + str(want_v))))
            if op == 'shift' and not pushed and arg > 0:
                bval = btext.lstrip('0')
                lead = btext[:len(btext) - len(bval)]
                v = _value(bval)
                g = v % (10 ** arg)
                want_v = v + 10 ** arg if g == 0 else v - g + g * 10 ** arg
                if text != lead + str(want_v):
                    bad.setdefault('shift-value', (seq, 'shift(%d) on %r gives %r, documented result %r' % (arg, btext, text, lead + str(want_v))))
        if result == 'Err' and op == 'put' and not frozen_before and not pushed_any:
            d = arg.decode()
            bval = btext.lstrip('0')
            if d == '0' and bval == '':
                bad.setdefault('zeros', (seq, 'a leading zero is refused on %r' % btext))
            if d.strip('0') != '' and (bval == '' or (len(bval) >= len(d) and bval[len(bval) - len(d):].strip('0') == '')):
                bad.setdefault('put-value', (seq, 'put(b"%s") is refused on %r although the positions are free' % (d, btext)))
        if result == 'Err' and op == 'put_digit_at' and not frozen_before and not pushed_any:
            dg, pos = arg
            bval = btext.lstrip('0')
            free = pos >= len(bval) or bval[len(bval) - 1 - pos] == '0'
            if dg != 48 and free:
                bad.setdefault('put-digit-value', (seq, 'put_digit_at(b\'%s\', %d) is refused on %r although that position is free' % (chr(dg), pos, btext)))
        if result == 'Ok' and op == 'put_digit_at' and arg[0] == 48:
            bad.setdefault('put-digit-value', (seq, 'put_digit_at accepts the digit 0'))
        if op == 'push' and not frozen_before and isinstance(btext, str):
            d = arg.decode()
            if result != 'Ok' or text != btext + d:
                bad.setdefault('push-appends', (seq, 'push(b"%s") on %r gives %s %r, documented result: Ok %r (digits are appended as dictated)' % (
                    d, btext, result if result != 'Err' else 'Err(%s)' % err, text, btext + d)))
        if op == 'reset' and after != fresh:
            diff = [(QUERY_GRID[i] if i < len(QUERY_GRID) else 'field', fresh[i], after[i]) for i in range(len(after)) if fresh[i] != after[i]][:2]
            bad.setdefault('reset-is-new', (seq, 'after reset() the builder differs from new(): %s' % diff))
    return ('ok', bad, n)


def verdicts(ctx):
    """('ok', {clause: (sequence, why)}, steps) or ('unsupported', message); memoised."""
    return ctx.memo(('dsvm-verdicts',), lambda: _verdicts(ctx))


def rule_builder_cases(ctx, rep):
    R_ = 'V12-BUILDER-CASES'
    rep.rule(R_, 'every sequence of building operations (bounded length, argument alphabet covering each case the code distinguishes): the rendering '
                 'is ASCII digits of the reported length; a step that reports an error changes no query result and no field; a successful step keeps '
                 'all previously placed non-zero digits in order; put adds its digits into free positions; shift(p) multiplies the rightmost p-digit '
                 'group (or an implicit 1) by 10^p; a frozen builder refuses every mutator; zeros are accepted by put only while the value is zero and '
                 'are kept; reset gives the state of new(); no operation or query reaches a panic site')
    v = verdicts(ctx)
    if v[0] == 'unsupported':
        rep.anchor(R_, 'machine', 'the abstract machine cannot interpret the digit builder: %s' % v[1])
        return
    _ok, bad, n = v
    msgs = {'no-panic': 'no operation or query reaches a panic site', 'rendering': 'rendering = ASCII digits of the reported length',
            'emptiness': 'is_empty / is_null agree with the rendering', 'error-changes-nothing': 'an Err step changes no query result and no field',
            'frozen-refuses': 'a frozen builder refuses every mutator with Err(Frozen)', 'digits-kept': 'successful steps keep placed non-zero digits in order',
            'zeros': 'put accepts zeros exactly while the value is zero and keeps them', 'put-value': 'put places its digits into free positions, else fails',
            'put-digit-value': 'put_digit_at(d, p) adds d x 10^p when that position is free, else fails',
            'push-appends': 'push appends its digits (fraction digits are kept as dictated)',
            'shift-value': 'shift(p) multiplies the rightmost p-digit group or an implicit 1 by 10^p', 'reset-is-new': 'reset() gives the state of new()'}
    for k, msg in msgs.items():
        if k in bad:
            seq, why = bad[k]
            rep.violation(R_, k, '%s: %s' % (show_seq(seq), why))
        else:
            rep.ok(R_, k, msg)
    rep.floor(R_, n, 11000, 'operation steps inspected')


def _frozen(seq):
    fz = False
    for op, _a in seq:
        if op == 'freeze':
            fz = True
        elif op == 'reset':
            fz = False
    return fz
