"""Family A, evaluation-based: every check evaluates the *source* of the interpreter (apply, apply_decimal,
lemmatize, get_morph_marker, basic_annotate) on constants of the reference lexicon / grammar tables, with the
digit builder abstracted to a state (digits, leading zeros, marker, flags) that answers queries and logs the
operations issued.  No rule in this module looks at the syntactic shape of the code, so refactorings that keep
behaviour keep the verdicts.
"""
import re

from ..armtable import Compound, Splitter
from ..lexvm import LexVM as LexEvaluator
from ..facts import LANGS, interp_method, interp_ty
from ..peval import Builder, Closure, Flags, Marker, Res, Tok, Unanalysable
from .lexical import (ALL_LANGS, expected_ops, lexicon, spell, spell_ordinal, SCALE_CONTEXTS)
from .. import hir as H


def evaluator(ctx, lang):
    return ctx.memo(('lexev', lang), lambda: LexEvaluator(ctx.facts, lang))


def real_evaluator(ctx, lang):
    """Same evaluator with the crate's own DigitString interpreted exactly (its state persists between words)."""
    return ctx.memo(('lexev-real', lang), lambda: LexEvaluator(ctx.facts, lang, real=True))


class Out:
    def __init__(self, r, b, b0):
        self.ok = isinstance(r, Res) and r.ok
        self.err = None if self.ok else (r.payload if isinstance(r, Res) else repr(r))
        self.ops = [o for o in b.ops if o[0] in ('put', 'fput', 'push', 'shift', 'put_digit_at')]
        self.marker = b.marker
        self.frozen = b.frozen
        self.flags = b.flags.bits if isinstance(b.flags, Flags) else b.flags
        self.marker_written = any(w[0] == 'marker' and w[1] != b0.marker for w in b.writes)
        self.froze = any(o[0] == 'freeze' for o in b.ops)

    def sig(self):
        return ['%s(%s)' % (o[0], ', '.join(('b"%s"' % x.decode('latin-1')) if isinstance(x, bytes) else str(x) for x in o[1:])) for o in self.ops]

    def show(self):
        return ('Ok' if self.ok else 'Err(%s)' % self.err) + ' ' + str(self.sig())


def state(digits=b'', lz=0, marker=None, flags=0):
    return Builder(digits=digits, leading_zeroes=lz, marker=Marker('Ordinal', marker) if marker else None, flags=flags)


def run(ctx, lang, word, st=None, method='apply', ev=None):
    """Evaluate <lang>::<method>(word, builder state).  Records non-inert rejections for A8b."""
    e = ev or evaluator(ctx, lang)
    b0 = st or Builder()
    snap = Builder(digits=b0.digits, leading_zeroes=b0.leading_zeroes, marker=b0.marker, flags=b0.flags)
    r = e.call_fn(interp_method(lang, method), [e.self_value, word, b0])
    return Out(r, b0, snap)


# The blocking flags are a private encoding of the interpreters (a bitflags type today); the rules never name its constants.
# A flag state is obtained the way the library obtains it: by evaluating the word that stores it.
FLAG_PRODUCERS = {
    ('fr', 'UN'): ('vingt', b''), ('de', 'TENS'): ('ein', b''), ('nl', 'TENS'): ('een', b''),
    ('pt', 'CONJUNCTION'): ('e', b'20'), ('pt', 'ONLY_MULTIPLIERS'): ('cem', b''),
}


def flag_bits(ctx, lang, name):
    """The value of `flags` the interpreter itself leaves after the word that sets restriction `name`."""
    def mk():
        w, d = FLAG_PRODUCERS[(lang, name)]
        return run(ctx, lang, w, state(d)).flags
    return ctx.memo(('flag-bits', lang, name), mk)


def digits_after(out):
    """Digits a fresh builder holds after the single logged placing operation of `out`."""
    if len(out.ops) != 1:
        return None
    o = out.ops[0]
    if o[0] in ('put', 'fput', 'push'):
        return bytes(o[1])
    if o[0] == 'put_digit_at':
        return bytes([o[1]]) + b'0' * o[2]
    if o[0] == 'shift':
        return b'1' + b'0' * o[1]
    return None


def _safe(rep, R, ent, fn):
    try:
        return fn()
    except Compound:
        rep.violation(R, ent, 'an atomic number word is split by the word splitter')
    except Unanalysable as e:
        rep.anchor(R, ent, 'left the analysable fragment: %s' % e.what)
    return None


# ---------------------------------------------------------------------------------------
def rule_lex_card(ctx, rep, langs=ALL_LANGS):
    R = 'A1-LEX-CARD'
    rep.rule(R, 'every core cardinal form of the reference lexicon, evaluated through the interpreter\'s own apply on the builder '
                'state its class requires, is accepted and issues exactly the instruction prescribed for its value')
    n = 0
    for lang in langs:
        lx = lexicon(lang)
        for c in lx['cardinals']:
            w, v, cls, tier = c['w'], c['v'], c['class'], c['tier']
            ent = '%s|%s' % (lang, w)
            want = sorted(expected_ops(lang, cls, v))
            cases = []   # (state, expected op signature)
            if cls in ('unit', 'teen', 'ten', 'ten_unit', 'hundred_lex', 'thousand_lex', 'hundred_unit'):
                cases = [(None, want[0])]
            elif cls == 'vig_teen':
                x = v - 10
                cases = [(None, 'put(b"1%d")' % x), (state(b'60'), 'fput(b"7%d")' % x), (state(b'80'), 'fput(b"9%d")' % x)]
            elif cls == 'vig_vingt':
                cases = [(None, 'put(b"20")'), (state(b'4'), 'fput(b"80")'), (state(b'104'), 'fput(b"80")')]
            else:
                # scale words: a multiplier the grammar allows for every language (2 .. for plural forms, fresh otherwise)
                cases = [(state(b'2'), want[0])]
                if (lang, w) in (('it', 'milione'), ('it', 'miliardo'), ('it', 'bilione'), ('es', 'millón'), ('pt', 'milhão'), ('pt', 'bilhão'), ('pt', 'bilião')):
                    cases = [(state(b'1'), want[0])]
            bad = None
            for st, exp in cases:
                o = _safe(rep, R, ent, lambda: run(ctx, lang, w, st))
                if o is None:
                    bad = 'x'
                    break
                n += 1
                if not (o.ok and o.sig() == [exp]):
                    bad = '"%s" (%d, class %s)%s gives %s, expected Ok [%s]' % (
                        w, v, cls, (' on builder %s' % st.digits.decode()) if st is not None and st.digits else '', o.show(), exp)
                    break
            if bad == 'x':
                continue
            if bad:
                if tier == 'core':
                    rep.violation(R, ent, bad + ': the standard spelling of every number containing it is rejected, split or mis-valued')
                else:
                    rep.info(R, ent, 'variant form: ' + bad)
            else:
                rep.ok(R, ent, '"%s" -> %s' % (w, [c2[1] for c2 in cases]))
    rep.floor(R, n, 345, 'cardinal evaluations')


def rule_lex_ord(ctx, rep, langs=ALL_LANGS):
    R = 'A2-LEX-ORD'
    rep.rule(R, 'every core ordinal form and inflection, evaluated through apply on a fresh builder (es "segundo" after an ordinal), '
                'is accepted with the instruction of its cardinal, receives the expected marker and freezes the builder where the language does')
    n = 0
    for lang in langs:
        lx = lexicon(lang)
        for o_ in lx['ordinals']:
            w, v, mk, cls, tier = o_['w'], o_['v'], o_['marker'], o_['class'], o_['tier']
            ent = '%s|%s' % (lang, w)
            pre = o_.get('after')
            st = state(pre['digits'].encode(), marker=pre['marker']) if pre else None
            o = _safe(rep, R, ent, lambda: run(ctx, lang, w, st))
            if o is None:
                continue
            n += 1
            exp = {'vig_teen': 'put(b"%d")' % v, 'vig_vingt': 'put(b"20")'}.get(cls) or sorted(expected_ops(lang, cls, v))[0]
            problems = []
            if not o.ok:
                problems.append('apply returns Err(%s)' % o.err)
            else:
                if o.sig() != [exp]:
                    problems.append('places %s, expected [%s]' % (o.sig(), exp))
                if o.marker != Marker('Ordinal', mk):
                    problems.append('marker is %r, expected Ordinal(%r)' % (o.marker, mk))
                if lx['freezes_ordinals'] and not o.frozen:
                    problems.append('the builder is not frozen after the ordinal')
            if problems:
                msg = 'ordinal "%s" (rank %d): %s' % (w, v, '; '.join(problems))
                if tier == 'core':
                    rep.violation(R, ent, msg + ': that rank is not converted to digits + marker')
                else:
                    rep.info(R, ent, 'variant: ' + msg)
            else:
                rep.ok(R, ent, '"%s" -> %s + marker %s' % (w, exp, mk))
    rep.floor(R, n, 700, 'ordinal evaluations')


# ---------------------------------------------------------------------------------------
ZERO_STATES = [(b'', 0), (b'', 2), (b'5', 0), (b'10', 0), (b'100', 0), (b'21', 1)]


def rule_zero_arm(ctx, rep, langs=ALL_LANGS):
    R = 'A6-ZERO-ARM'
    rep.rule(R, 'the zero word(s) issue put(b"0") whatever the builder holds (the builder, not the interpreter, decides whether a zero '
                'is still allowed); synonyms behave identically, in apply and in digit-by-digit apply_decimal')
    n = 0
    for lang in langs:
        lx = lexicon(lang)
        for z in lx['zero']:
            ent = '%s|%s' % (lang, z)
            bad = []
            for d, lz in ZERO_STATES:
                o = _safe(rep, R, ent, lambda: run(ctx, lang, z, state(d, lz)))
                if o is None:
                    bad = None
                    break
                n += 1
                if not (o.ok and o.sig() == ['put(b"0")'] and o.marker.kind == 'None' and not o.froze):
                    bad.append('on builder %r+%d zeros: %s' % (d.decode(), lz, o.show()))
            if bad is None:
                continue
            rep.check(not bad, R, ent, 'put(b"0") in every state', 'zero word "%s" is not a plain put(b"0"): %s' % (z, '; '.join(bad[:3])))
    rep.floor(R, n, 40, 'zero evaluations')


CONJ_AFTER = {
    'en': ['twenty', 'ninety', 'hundred', 'thousand', 'million'],
    'fr': ['vingt', 'trente', 'quarante', 'cinquante', 'soixante', 'septante', 'huitante', 'octante', 'nonante'],
    'es': ['treinta', 'cuarenta', 'cincuenta', 'sesenta', 'setenta', 'ochenta', 'noventa'],
    'pt': ['vinte', 'trinta', 'noventa', 'cento', 'duzentos', 'mil'],
    'it': ['venti', 'cento'],
    'de': ['ein', 'zwei', 'neun'],
    'nl': ['een', 'twee', 'negen'],
}


def rule_conj(ctx, rep, langs=ALL_LANGS):
    R = 'A10-CONJ'
    rep.rule(R, 'the conjunction word, evaluated after each word it may follow, is Err(Incomplete) and issues nothing; on an empty '
                'builder it is not a number part (except de/nl where it is always a connector)')
    n = 0
    for lang in langs:
        lx = lexicon(lang)
        cj = lx.get('conjunction')
        if not cj:
            continue
        for f1 in CONJ_AFTER.get(lang, []):
            ent = '%s|%s %s' % (lang, f1, cj)

            def go():
                o1 = run(ctx, lang, f1)
                d = digits_after(o1)
                if not o1.ok or d is None:
                    raise Unanalysable('first word "%s" not accepted on a fresh builder (%s)' % (f1, o1.show()))
                return run(ctx, lang, cj, state(d, flags=o1.flags))
            o = _safe(rep, R, ent, go)
            if o is None:
                continue
            n += 1
            rep.check((not o.ok) and o.err == 'Incomplete' and not o.ops, R, ent, 'Err(Incomplete), nothing placed',
                      '"%s" after "%s" gives %s, expected Err(Incomplete): "%s %s .." can no longer be read as one number' % (cj, f1, o.show(), f1, cj))
        o = _safe(rep, R, '%s|%s alone' % (lang, cj), lambda: run(ctx, lang, cj))
        if o is not None:
            n += 1
            if lx['conjunction_guard'] == 'none':
                rep.check(o.err == 'Incomplete', R, '%s|%s alone' % (lang, cj), 'connector', '"%s" alone gives %s' % (cj, o.show()))
            else:
                rep.check(o.err == 'NaN' and not o.ops, R, '%s|%s alone' % (lang, cj), 'not a number part on an empty builder',
                          '"%s" on an empty builder gives %s, expected Err(NaN)' % (cj, o.show()))
    rep.floor(R, n, 35, 'conjunction evaluations')


# ---------------------------------------------------------------------------------------
def _units(lx):
    return [c['w'] for c in lx['cardinals'] if c['class'] == 'unit' and c['tier'] == 'core']


NEG = {
    # lang: [(description, builder digits, flags name or None, words selector, reason)]
    'en': [('unit after a teen/ten', [b'10', b'110', b'1010'], None, 'unit', 'ten five')],
    'es': [('unit after diez / veinte', [b'10', b'20', b'120'], None, 'unit', 'diez cinco / veinte uno')],
    'it': [('unit after dieci', [b'10', b'110'], None, 'unit', 'dieci cinque')],
    'pt': [('unit after dez (also after "e")', [b'10', b'110'], 'CONJUNCTION', 'unit', 'dez e cinco'),
           ('teen/ten after a number without "e"', [b'100', b'1000'], None, 'teen,ten', 'cento vinte'),
           ('smaller number after "cem"', [b'100'], 'ONLY_MULTIPLIERS', 'unit,teen,ten,hundred_lex', 'cem um')],
    'de': [('unit after an occupied units/tens slot', [b'20', b'15', b'7'], None, 'unit', 'zwanzig eins')],
    'nl': [('unit after an occupied units/tens slot', [b'20', b'15', b'7'], None, 'unit', 'twintig een')],
    'fr': [],
}
NEG_SCALE = [('thousand', [b'1000', b'21000', b'999000']), ('million', [b'1000000', b'21000000'])]


def rule_neg_contexts(ctx, rep, langs=ALL_LANGS):
    R = 'A7-NEG-CONTEXTS'
    rep.rule(R, 'the guards that keep adjacent numbers apart really refuse: each unit / teen / tens / scale word, evaluated on the '
                'builder states in which the language forbids it (units after a teen, a second thousand, ..), is not accepted')
    n = 0
    for lang in langs:
        lx = lexicon(lang)
        by_cls = {}
        for c in lx['cardinals']:
            if c['tier'] == 'core':
                by_cls.setdefault(c['class'], []).append(c['w'])
        for desc, states, flagname, sel, example in NEG.get(lang, []):
            flags = flag_bits(ctx, lang, flagname) if flagname else 0
            for cls in sel.split(','):
                for w in by_cls.get(cls, []):
                    for d in states:
                        ent = '%s|%s after %s%s' % (lang, w, d.decode(), ('+' + flagname) if flagname else '')
                        o = _safe(rep, R, ent, lambda: run(ctx, lang, w, state(d, flags=flags)))
                        if o is None:
                            continue
                        n += 1
                        rep.check(not o.ok, R, ent, 'refused (%s)' % desc,
                                  '"%s" is accepted on a builder holding %s (%s): two numbers said one after the other are fused (as in "%s")' % (
                                      w, d.decode(), o.show(), example))
        for cls, states in NEG_SCALE:
            for w in by_cls.get(cls, []):
                for d in states:
                    ent = '%s|%s after %s' % (lang, w, d.decode())
                    o = _safe(rep, R, ent, lambda: run(ctx, lang, w, state(d)))
                    if o is None:
                        continue
                    n += 1
                    rep.check(not o.ok, R, ent, 'refused (that scale is already occupied)',
                              '"%s" is accepted on a builder holding %s (%s): a second %s would be merged into the first' % (w, d.decode(), o.show(), cls))
        # ordinal stems that must start a number
        if lang == 'it':
            for w in ('primo', 'secondo', 'terzo', 'nono'):
                o = _safe(rep, R, 'it|%s after 20' % w, lambda: run(ctx, lang, w, state(b'20')))
                if o is not None:
                    n += 1
                    rep.check(not o.ok, R, 'it|%s after 20' % w, 'refused', '"%s" after 20 is accepted (%s)' % (w, o.show()))
        if lang == 'fr':
            for w in ('premier', 'première'):
                o = _safe(rep, R, 'fr|%s after 20' % w, lambda: run(ctx, lang, w, state(b'20')))
                if o is not None:
                    n += 1
                    rep.check(not o.ok, R, 'fr|%s after 20' % w, 'refused', '"%s" after 20 is accepted (%s)' % (w, o.show()))
    rep.floor(R, n, 250, 'negative contexts evaluated')


def rule_flags_lifecycle(ctx, rep, langs=ALL_LANGS):
    R = 'A7c-FLAGS-LIFECYCLE'
    rep.rule(R, 'blocking flags are stored on success and cleared on failure (fr/de/nl); Portuguese stores the restriction of the word '
                'on success, CONJUNCTION on "e", nothing on any other failure')
    for lang in langs:
        if lang in ('fr', 'de', 'nl'):
            probe = {'fr': ('vingt', 'UN', 'deux'), 'de': ('ein', 'TENS', 'hundert'), 'nl': ('een', 'TENS', 'honderd')}[lang]
            w, flag, plain = probe
            ent = lang + '|success-stores'
            o = _safe(rep, R, ent, lambda: run(ctx, lang, w))
            if o is not None:
                rep.check(o.ok and o.flags != 0, R, ent, '"%s" stores a restriction (%s)' % (w, flag),
                          'after "%s" the flags are %s: no restriction is stored' % (w, o.flags))
            ent = lang + '|success-overwrites'
            o = _safe(rep, R, ent, lambda: run(ctx, lang, plain, state(b'2', flags=flag_bits(ctx, lang, flag))))
            if o is not None:
                rep.check(o.ok and o.flags == 0, R, ent, 'a word without restriction clears the previous one',
                          'after "%s" the flags are %s, expected 0' % (plain, o.flags))
            ent = lang + '|failure-clears'
            o = _safe(rep, R, ent, lambda: run(ctx, lang, 'xyzzy', state(b'20', flags=flag_bits(ctx, lang, flag))))
            if o is not None:
                rep.check((not o.ok) and o.flags == 0, R, ent, 'a rejected word clears the flags',
                          'after a rejected word the flags are %s, expected 0' % o.flags)
        if lang == 'pt':
            CJ, OM = flag_bits(ctx, 'pt', 'CONJUNCTION'), flag_bits(ctx, 'pt', 'ONLY_MULTIPLIERS')
            rep.check(CJ != 0 and OM != 0 and CJ != OM, R, 'pt|distinct', '"e" and "cem" store distinct restrictions (%s, %s)' % (CJ, OM),
                      '"e" stores %s and "cem" stores %s: the two restrictions cannot be told apart' % (CJ, OM))
            for ent, w, st, want in (('pt|dois', 'dois', state(b'20', flags=CJ), 0), ('pt|rejected', 'xyzzy', state(b'20', flags=CJ), 0),
                                     ('pt|rejected-after-cem', 'xyzzy', state(b'100', flags=OM), 0)):
                o = _safe(rep, R, ent, lambda: run(ctx, lang, w, st))
                if o is not None:
                    rep.check(o.flags == want, R, ent, 'flags become %s' % want, 'after "%s" the flags are %s, expected %s' % (w, o.flags, want))


# ---------------------------------------------------------------------------------------
def rule_dec_table(ctx, rep, langs=ALL_LANGS):
    R = 'A4-DEC-TABLE'
    rep.rule(R, 'apply_decimal: English and German append each spoken digit with push(b"d") (zero synonyms alike, anything else NaN); '
                'the other languages read the fraction with apply itself')
    for lang in langs:
        lx = lexicon(lang)
        if 'decimal_digits' in lx:
            for w, d in sorted(lx['decimal_digits'].items()):
                ent = '%s|%s' % (lang, w)
                bad = []
                for st in (None, state(b'5'), state(b'05')):
                    o = _safe(rep, R, ent, lambda: run(ctx, lang, w, st, 'apply_decimal'))
                    if o is None:
                        bad = None
                        break
                    if not (o.ok and o.sig() == ['push(b"%d")' % d]):
                        bad.append(o.show())
                if bad is None:
                    continue
                rep.check(not bad, R, ent, 'push(b"%d")' % d, 'decimal digit "%s" gives %s, expected push(b"%d"): fractions containing it are cut or wrong' % (w, bad[:2], d))
            for w in ('ten', 'zehn', 'and', 'xyzzy', lx['decimal_sep']):
                o = _safe(rep, R, '%s|non-digit|%s' % (lang, w), lambda: run(ctx, lang, w, state(b'5'), 'apply_decimal'))
                if o is not None:
                    rep.check((not o.ok) and not o.ops, R, '%s|non-digit|%s' % (lang, w), 'refused', '"%s" is accepted as a fractional digit (%s)' % (w, o.show()))
        else:
            words = [c['w'] for c in lx['cardinals'] if c['tier'] == 'core'][:40] + lx['zero'] + ['xyzzy']
            diffs = []
            for w in words:
                for st in ((b'', 0, 0), (b'5', 0, 0), (b'', 1, 0)):
                    try:
                        a = run(ctx, lang, w, state(st[0], st[1], flags=st[2]), 'apply_decimal')
                        b = run(ctx, lang, w, state(st[0], st[1], flags=st[2]), 'apply')
                    except Compound:
                        continue
                    except Unanalysable as e:
                        rep.anchor(R, lang + '|forwarder', 'apply_decimal left the analysable fragment: %s' % e.what)
                        diffs = None
                        break
                    if (a.ok, a.err, a.sig(), repr(a.marker), a.flags) != (b.ok, b.err, b.sig(), repr(b.marker), b.flags):
                        diffs.append('%s: %s vs %s' % (w, a.show(), b.show()))
                if diffs is None:
                    break
            if diffs is not None:
                rep.check(not diffs, R, lang + '|forwarder', 'apply_decimal behaves as apply on %d words x 3 states' % len(words),
                          'apply_decimal differs from apply: %s' % diffs[:3])


# ---------------------------------------------------------------------------------------
def splitter_model(ctx, lang):
    ev = evaluator(ctx, lang)
    return ev.splitter


def rule_split_closure(ctx, rep, langs=('de', 'it', 'nl')):
    R = 'A3-SPLIT-CLOSURE'
    rep.rule(R, 'the compound splitter and the word table agree: patterns are non-empty and distinct, every compounding word of the '
                'grammar is a pattern, and every piece of every generated compound spelling is a word the interpreter knows')
    limit = 9999 if ctx.tier == 'thorough' else 999
    for lang in langs:
        if lang not in ('de', 'it', 'nl'):
            continue
        lx = lexicon(lang)
        try:
            sp = splitter_model(ctx, lang)
        except Unanalysable as e:
            rep.anchor(R, lang, 'splitter patterns not analysable: %s' % e.what)
            continue
        if sp is None:
            rep.anchor(R, lang, 'no WordSplitter patterns found for %s' % lang)
            continue
        pats = sp.patterns
        rep.check(all(pats) and len(set(pats)) == len(pats), R, lang + '|distinct', '%d non-empty, pairwise distinct patterns' % len(pats),
                  'splitter patterns are empty or duplicated (WordSplitter::new(..).unwrap() panics): %s' % [p for p in pats if pats.count(p) > 1 or not p])
        for w in lx.get('compounding', []):
            rep.check(w in pats, R, '%s|compounding|%s' % (lang, w), 'is a splitter pattern',
                      '"%s" must be a splitter pattern (compounds containing it cannot be split) but is not in the list' % w)
        known = {}

        def knows(piece):
            if piece not in known:
                ok = False
                for st in (None, state(b'1'), state(b'2'), state(b'21')):
                    try:
                        o = run(ctx, lang, piece, st)
                    except Compound:
                        ok = True
                        break
                    except Unanalysable:
                        ok = False
                        break
                    if o.ok or o.err != 'NaN':
                        ok = True
                        break
                known[piece] = ok
            return known[piece]
        for p in pats:
            rep.check(knows(p), R, '%s|pattern|%s' % (lang, p), 'pattern is a known word',
                      'splitter pattern "%s" is not a word of the table: every compound containing it is rejected' % p)
        ev = evaluator(ctx, lang)
        lemfn = 'lang::%s::lemmatize' % lang
        has_lem = ctx.facts.body(lemfn) is not None
        bad = {}
        checked = 0
        words = [(n, spell(lang, n)) for n in list(range(1, limit + 1)) + [k * 1000 for k in (1, 2, 21, 100, 999)]]
        if ctx.tier == 'thorough':
            words += [(n, spell_ordinal(lang, n)) for n in range(1, limit + 1)]
        for n, w in words:
            checked += 1
            try:
                lem = ev.call_fn(lemfn, [w]) if has_lem else w
            except Unanalysable:
                lem = w
            pieces = sp.split(lem) if sp.is_splittable(lem) else [w]
            for pc in pieces:
                if not knows(pc):
                    bad.setdefault(pc, (n, w))
        for pc, (n, w) in sorted(bad.items()):
            rep.violation(R, '%s|piece|%s' % (lang, pc), 'the standard spelling "%s" of %d splits into a piece "%s" that is not a known word: the number is rejected' % (w, n, pc))
        rep.ok(R, lang + '|closure', '%d compound spellings (n <= %d) split into known words' % (checked, limit))
        rep.floor(R + '#' + lang, checked, 999, 'compound spellings checked')


# ---------------------------------------------------------------------------------------
INERT_STATES = [(b'', 0, None), (b'10', 0, None), (b'20', 0, None), (b'21', 0, None), (b'100', 0, None), (b'1000', 0, None), (b'5', 0, 'th'), (b'', 2, None),
                (b'1000000', 0, None), (b'1000000000', 0, None), (b'1000000000000', 0, None), (b'2000000000000000', 0, None)]


_SW_FACTS = None


def _sweep_lang(lang):
    """All lexicon words x INERT_STATES x {apply, apply_decimal} for one language (worker process)."""
    class _C:
        def __init__(self, f):
            self.facts = f
            self._c = {}

        def memo(self, k, fn):
            if k not in self._c:
                self._c[k] = fn()
            return self._c[k]
    ctx = _C(_SW_FACTS)
    lx = lexicon(lang)
    words = [c['w'] for c in lx['cardinals']] + [o['w'] for o in lx['ordinals']] + lx['zero'] + [lx.get('conjunction') or 'x', lx['decimal_sep']]
    words += ['xyzzy', 'the', 'último', 'besten', 'goede', 'ultimo', 'second', 'seconde']
    out = {'n': 0, 'rej': 0, 'violations': [], 'errors': {}, 'baddigits': [], 'words': len(set(words))}
    seen = set()
    for method in ('apply', 'apply_decimal'):
        for w in dict.fromkeys(words):
            for d, lz, mk in INERT_STATES:
                try:
                    o = run(ctx, lang, w, state(d, lz, mk), method)
                except Compound:
                    continue
                except Unanalysable as e:
                    out['errors'].setdefault(method, (w, e.what))
                    continue
                out['n'] += 1
                ent = '%s|%s|%s' % (lang, method, w)
                for op in o.ops:
                    for x in op[1:]:
                        if isinstance(x, (bytes, bytearray)) and not (x and all(0x30 <= c <= 0x39 for c in x)):
                            out['baddigits'].append((ent, o.sig()))
                    if op[0] == 'put_digit_at' and not (isinstance(op[1], int) and 0x31 <= op[1] <= 0x39):
                        out['baddigits'].append((ent, o.sig()))
                if o.ok:
                    if len(o.ops) != 1 and ent not in seen:
                        seen.add(ent)
                        out['violations'].append((ent, '%s("%s") on builder "%s" is accepted but issues %s: with more than one operation a failure of the '
                                                  'second leaves the digits of the first behind (and none leaves the word unconverted)' % (method, w, d.decode(), o.sig())))
                else:
                    out['rej'] += 1
                    if (o.ops or o.marker_written or o.froze) and ent not in seen:
                        seen.add(ent)
                        out['violations'].append((ent, '%s("%s") on builder "%s" returns Err(%s) but %s: a rejected word leaves a trace in the number being built' % (
                            method, w, d.decode(), o.err,
                            ', '.join(x for x in ['issued %s' % o.sig() if o.ops else '', 'wrote the marker %r' % (o.marker,) if o.marker_written else '',
                                                  'froze the builder' if o.froze else ''] if x))))
    return lang, out


def sweep(ctx):
    """{lang: stats} of the word x state sweep, memoised; one worker per language."""
    def mk():
        global _SW_FACTS
        _SW_FACTS = ctx.facts
        import os
        if (os.cpu_count() or 1) < 2 or os.environ.get('T2N_NO_FORK'):
            return dict(_sweep_lang(l) for l in ALL_LANGS)
        import multiprocessing
        with multiprocessing.get_context('fork').Pool(min(7, os.cpu_count() or 1)) as pool:
            return dict(pool.map(_sweep_lang, ALL_LANGS, chunksize=1))
    return ctx.memo(('lex-sweep',), mk)


def rule_reject_inert(ctx, rep, langs=ALL_LANGS):
    R = 'A8b-REJECT-INERT'
    rep.rule(R, 'every word of the lexicon (plus non-number probes), evaluated on a table of builder states through apply and '
                'apply_decimal: an accepted word issues exactly one builder operation; a rejected word issues none, writes no marker and '
                'does not freeze — a refused word leaves no trace in the number being built')
    sw = sweep(ctx)
    n = rej = 0
    for lang in langs:
        st = sw[lang]
        n += st['n']
        rej += st['rej']
        for method, (w, what) in st['errors'].items():
            rep.anchor(R, '%s|%s' % (lang, method), '%s("%s") left the analysable fragment: %s' % (method, w, what))
        for ent, msg in st['violations']:
            rep.violation(R, ent, msg)
        rep.ok(R, lang + '|inventory', '%d words x %d states x 2 entry points evaluated' % (st['words'], len(INERT_STATES)))
    rep.floor(R, n, 26000, 'evaluations')
    rep.floor(R + '#rejected', rej, 12000, 'rejected evaluations inspected')


def rule_digit_ops(ctx, rep, langs=ALL_LANGS):
    R = 'A8c-DIGIT-OPS'
    rep.rule(R, 'every builder operation the interpreters issue in the word x state sweep carries ASCII digits only (non-empty digit strings; '
                'put_digit_at a digit 1-9): the rendering stays a numeral and the float parse of the formatters cannot fail')
    sw = sweep(ctx)
    n = 0
    for lang in langs:
        st = sw[lang]
        n += st['n']
        for method, (w, what) in st['errors'].items():
            rep.anchor(R, '%s|%s' % (lang, method), '%s("%s") left the analysable fragment: %s' % (method, w, what))
        bd = st['baddigits']
        rep.check(not bd, R, lang, 'digit arguments only', '%s issues %s: not a digit string' % (bd[0] if bd else ('', '')))
    rep.floor(R, n, 26000, 'evaluations')


# ---------------------------------------------------------------------------------------
O_CASES = [
    # (tokens, index of the "o" token, expected nan mark)  -- neighbours skip whitespace only
    (['o', ' ', 'eight'], 0, False), (['eight', ' ', 'o'], 2, False), (['nine', ' ', 'o', ' ', 'five'], 2, False),
    (['o'], 0, True), (['hello', ' ', 'o'], 2, True), (['o', ' ', 'hello'], 0, True), (['hello', ' ', 'o', ' ', 'world'], 2, True),
    (['hello', ' ', 'o', ' ', 'eight'], 2, False), (['eight', ' ', 'o', ' ', 'world'], 2, False),
    (['eight', ', ', 'o'], 2, True), (['o', ', ', 'eight'], 0, True), (['eight', ',', ' ', 'o'], 3, True),
    (['eight', '\u00a0', 'o'], 2, False), (['eight', ' \t\n', 'o'], 2, False), (['eight', '\u2009', 'o', '\u2009', 'x'], 2, False),
    (['o', ' ', 'o'], 0, False), (['o', ' ', 'o'], 2, False), (['x', ' ', 'o', ' ', 'o', ' ', 'y'], 2, False),
    (['twenty', ' ', 'o', ' ', 'one'], 2, False), (['a', ' ', 'b', ' ', 'o'], 4, True), (['zero', ' ', 'o'], 2, False),
    (['first', ' ', 'o'], 2, False), (['.', ' ', 'o', ' ', '.'], 2, True),
    # no "o" at all: nothing may be marked
    (['zero'], None, None), (['hello', ' ', 'zero', ' ', 'world'], None, None), (['one', ' ', 'two'], None, None), (['nought'], None, None),
    (['oh', ' ', 'no'], None, None), (['zero', ' ', 'zero'], None, None), (['a', ' ', 'on', ' ', 'of'], None, None),
]


O_MULTI = [
    (['twenty', ' ', 'o', ' ', 'x', ' ', 'o', ' ', 'twenty'], {2: False, 6: False}),
    (['o', ' ', 'twenty', ' ', 'x', ' ', 'y', ' ', 'o', ' ', 'twenty'], {0: False, 8: False}),
    (['nine', ' ', 'o', ' ', 'x', ' ', 'o', ' ', 'nine'], {2: False, 6: False}),
    (['one', ' ', 'o', ' ', 'x', ' ', 'o', ' ', 'y'], {2: False, 6: True}),
    (['x', ' ', 'o', ' ', 'y', ' ', 'hundred', ' ', 'o'], {2: True, 8: False}),
]


def rule_o_annotate(ctx, rep):
    R = 'A-O-ANNOTATE'
    rep.rule(R, 'English::basic_annotate, evaluated on a table of neighbour combinations (number word / ordinary word / punctuation / '
                'text boundary, any whitespace between), marks "o" as not-a-number exactly when neither nearest non-whitespace token is a '
                'number word; nothing else is marked; "o" behaves as "zero" in apply and apply_decimal')
    ev = real_evaluator(ctx, 'en')
    path = interp_method('en', 'basic_annotate')
    n = 0
    # several "o" in one text: what the pass learnt about one must not change the verdict on the next (shared scratch builder)
    for toks, marks in O_MULTI:
        ent = 'en|multi|%s' % '|'.join(t.replace(' ', '_') for t in toks)
        try:
            tl = [Tok(t) for t in toks]
            ev.call_fn(path, [ev.self_value, tl])
        except (Unanalysable, Compound) as e:
            rep.anchor(R, ent, 'basic_annotate left the analysable fragment: %s' % getattr(e, 'what', e))
            continue
        got = {i: tl[i].nan for i in marks}
        rep.check(got == marks, R, ent, 'each "o" judged by its own neighbours', 'in %r the "o" tokens are marked %s, expected %s: an earlier word of the text '
                  'changes how a later "o" is read' % (toks, got, marks))
    for toks, idx, want in O_CASES:
        ent = 'en|%s@%s' % ('|'.join(t.replace(' ', '_').replace('\t', '\\t').replace('\n', '\\n') for t in toks), idx)
        try:
            tl = [Tok(t) for t in toks]
            ev.call_fn(path, [ev.self_value, tl])
        except (Unanalysable, Compound) as e:
            rep.anchor(R, ent, 'basic_annotate left the analysable fragment: %s' % getattr(e, 'what', e))
            continue
        n += 1
        others = [i for i, t in enumerate(tl) if t.nan and t.lower != 'o']
        if idx is None:
            rep.check(not others, R, ent, 'nothing marked', 'in %r (no "o") the tokens %s are marked not-a-number: number words are hidden from the scanner' % (toks, others))
            continue
        rep.check(tl[idx].nan == want and not others, R, ent, '"o" %s' % ('left as a word' if want else 'kept as a zero candidate'),
                  'in %r the token "o" at %d is %s, expected %s%s' % (toks, idx, 'marked not-a-number' if tl[idx].nan else 'a zero candidate',
                                                                  'marked' if want else 'a candidate', ('; other tokens marked: %s' % others) if others else ''))
    rep.floor(R, n, 28, 'neighbour combinations evaluated')
    for method in ('apply', 'apply_decimal'):
        for st in (None, state(b'5'), state(b'', 2)):
            try:
                a = run(ctx, 'en', 'o', st, method)
                z = run(ctx, 'en', 'zero', state(st.digits, st.leading_zeroes) if st else None, method)
            except (Unanalysable, Compound) as e:
                rep.anchor(R, 'o=zero|' + method, str(e))
                continue
            rep.check((a.ok, a.err, a.sig()) == (z.ok, z.err, z.sig()), R, 'o=zero|%s|%s' % (method, st.digits.decode() if st else 'fresh'),
                      '"o" is treated exactly like "zero"', '"o" gives %s but "zero" gives %s in %s' % (a.show(), z.show(), method))


# ---------------------------------------------------------------------------------------
def rule_sep_mark(ctx, rep, langs=ALL_LANGS):
    R = 'A5-SEP-MARK'
    rep.rule(R, 'is_decimal_sep is true exactly on the separator word; format_decimal_and_value, evaluated on two distinct builders, '
                'renders {int}<mark>{dec} (leading zeros kept) with value {int}.{dec}; format_and_value renders the digits, '
                'digits+marker for ordinals (es: 1/digits with the reciprocal value for fractions)')
    for lang in langs:
        lx = lexicon(lang)
        ev = evaluator(ctx, lang)
        sep = lx['decimal_sep']
        try:
            fn = interp_method(lang, 'is_decimal_sep')
            yes = ev.call_fn(fn, [ev.self_value, sep])
            others = [lx['zero'][0], lx.get('conjunction') or 'x', 'point', 'virgule', 'coma', 'komma', 'vírgula', 'virgola', ',', '.', '', 'und', 'and']
            no = [w for w in others if w != sep and ev.call_fn(fn, [ev.self_value, w])]
            rep.check(yes is True and not no, R, lang + '|separator', '"%s" and nothing else is the decimal separator' % sep,
                      'is_decimal_sep("%s") = %s; also true for %s' % (sep, yes, no))
        except Unanalysable as e:
            rep.anchor(R, lang + '|separator', 'is_decimal_sep not analysable: %s' % e.what)
        mark = lx['decimal_mark']
        fn = interp_method(lang, 'format_decimal_and_value')
        bad = []
        try:
            big = b'9' * 26
            for i, ilz, d, dlz in ((b'3', 0, b'14', 0), (b'12', 0, b'5', 2), (b'', 1, b'7', 0), (b'1000', 0, b'25', 1), (big, 0, big, 0), (b'1' + b'0' * 320, 0, b'5', 0)):
                got = ev.call_fn(fn, [ev.self_value, state(i, ilz), state(d, dlz)])
                si, sd = '0' * ilz + i.decode(), '0' * dlz + d.decode()
                want = (si + mark + sd, float(si + '.' + sd))
                if not (isinstance(got, tuple) and len(got) == 2 and got[0] == want[0] and got[1] == want[1]):
                    bad.append('(%s, %s) gives %r, expected %r' % (si, sd, got, want))
            rep.check(not bad, R, lang + '|decimal-template', 'text {int}%s{dec}, value {int}.{dec}' % mark,
                      'format_decimal_and_value: %s' % '; '.join(bad[:2]))
        except Unanalysable as e:
            rep.anchor(R, lang + '|decimal-template', 'format_decimal_and_value not analysable: %s' % e.what)
        fn = interp_method(lang, 'format_and_value')
        bad = []
        try:
            cases = [(state(b'21'), ('21', 21.0)), (state(b'7', 2), ('007', 7.0)), (state(b'21', marker='st'), ('21st', 21.0)),
                     (state(b'3', marker='º'), ('3º', 3.0)), (state(b'100', marker='ème'), ('100ème', 100.0)),
                     # the builder has no upper bound (scale words stack): values beyond u64 / beyond f64 must still be formatted
                     (state(b'2' + b'0' * 19), ('2' + '0' * 19, 2e19)), (state(b'9' * 26), ('9' * 26, float('9' * 26))),
                     (state(b'1' + b'0' * 320), ('1' + '0' * 320, float('inf'))), (state(b'9' * 26, marker='th'), ('9' * 26 + 'th', float('9' * 26)))]
            if lang == 'es':
                b = Builder(digits=b'12', marker=Marker('Fraction', 'avo'))
                cases.append((b, ('1/12', 1.0 / 12.0)))
            for st, want in cases:
                got = ev.call_fn(fn, [ev.self_value, st])
                if not (isinstance(got, tuple) and len(got) == 2 and got[0] == want[0] and got[1] == want[1]):
                    bad.append('digits %s marker %r gives %r, expected %r' % (st.digits.decode(), st.marker, got, want))
            rep.check(not bad, R, lang + '|ordinal-template', 'text = digits (+ marker for ordinals%s), value = the digits read as a number' % (
                ', 1/digits for fractions' if lang == 'es' else ''), 'format_and_value: %s' % '; '.join(bad[:2]))
        except Unanalysable as e:
            rep.anchor(R, lang + '|ordinal-template', 'format_and_value not analysable: %s' % e.what)


# ---------------------------------------------------------------------------------------
NEUF_CASES = [
    # (tokens, {index of "neuf": expected not-a-number mark})
    (['un', ' ', 'ordinateur', ' ', 'neuf'], {4: True}),
    (['le', ' ', 'numéro', ' ', 'neuf'], {4: False}),
    (['le', ' ', 'vingt', ' ', 'neuf'], {4: False}),
    (['un', ' ', 'livre', ' ', 'neuf', ' ', 'cent'], {4: False}),
    (['neuf'], {0: False}), (['vingt', '-', 'neuf'], {2: False}), (['il', ' ', 'a', ' ', 'neuf', ' ', 'ans'], {4: False}),
    (['du', ' ', 'matériel', ' ', 'neuf', ' ', 'et', ' ', 'cher'], {4: True}),
    (["l'", 'appareil', ' ', 'neuf', '.'], {3: True}),
    (['un', ' ', 'beau', ' ', 'vélo', ' ', 'neuf'], {6: True}),
    (['le', ' ', 'x', ' ', 'y', ' ', 'z', ' ', 'neuf'], {8: False}),
    # two ambiguous words: the first context leaves digits in the scratch builder unless it is reset
    (['le', ' ', 'vingt', ' ', 'neuf', ' ', 'un', ' ', 'ordinateur', ' ', 'neuf', ' ', 'vingt'], {4: False, 10: False}),
    (['le', ' ', 'cent', ' ', 'neuf', ' ', 'du', ' ', 'pain', ' ', 'neuf', ' ', 'cent'], {4: False, 10: False}),
    (['un', ' ', 'truc', ' ', 'neuf', ' ', 'mille', ' ', 'un', ' ', 'truc', ' ', 'neuf', ' ', 'mille'], {4: False, 12: False}),
]


def rule_neuf_annotate(ctx, rep):
    R = 'A-NEUF-ANNOTATE'
    rep.rule(R, 'French::basic_annotate, evaluated with the crate\'s own digit builder on a table of contexts: "neuf" after a determiner + noun is '
                'marked not-a-number exactly when neither neighbour is a number word ("numéro neuf" excepted), nothing else is marked, and the '
                'verdict on one "neuf" does not depend on an earlier one (shared scratch builder)')
    ev = real_evaluator(ctx, 'fr')
    path = interp_method('fr', 'basic_annotate')
    n = 0
    for toks, marks in NEUF_CASES:
        ent = 'fr|%s%s' % ('multi|' if len(marks) > 1 else '', '|'.join(t.replace(' ', '_') for t in toks))
        try:
            tl = [Tok(t) for t in toks]
            ev.call_fn(path, [ev.self_value, tl])
        except (Unanalysable, Compound) as e:
            rep.anchor(R, ent, 'basic_annotate left the analysable fragment: %s' % getattr(e, 'what', e))
            continue
        n += 1
        got = {i: tl[i].nan for i in marks}
        others = [i for i, t in enumerate(tl) if t.nan and i not in marks]
        rep.check(got == marks and not others, R, ent, 'marks as expected', 'in %r "neuf" is marked %s, expected %s%s' % (
            toks, got, marks, ('; other tokens marked: %s' % others) if others else ''))
    rep.floor(R, n, 12, 'contexts evaluated')


# ---------------------------------------------------------------------------------------
def rule_group_inert(ctx, rep, langs=ALL_LANGS):
    R = 'A8d-GROUP-INERT'
    rep.rule(R, 'grouped tokens (hyphen groups en/fr, compound words de/nl/it) evaluated with the crate\'s own digit builder: when apply reports an '
                'error — including Incomplete for a group that ends on the conjunction — the builder it was given is exactly as before (digits, '
                'zeros, marker, flags, frozen); an accepted group changes it once')
    from ..spellers import spellings
    n = 0
    for lang in langs:
        lx = lexicon(lang)
        cj = lx.get('conjunction') or ''
        ev = real_evaluator(ctx, lang)
        toks = []
        if lx.get('group_syntax') == '-':
            for a in (20, 21, 60, 100, 120):
                head = '-'.join(spellings(lang, a)[0]).replace(' ', '-')
                toks += [head, head + '-' + cj, head + '-xyzzy', cj + '-' + head, head + '-' + head]
        elif lang in ('de', 'nl', 'it'):
            for a in (21, 32, 100, 120, 2005):
                w = spellings(lang, a)[0][0]
                toks += [w, w + cj, w + 'xyzzy', cj + w, w + w]
        else:
            continue
        for tok in dict.fromkeys(toks):
            for d, lz in ((b'', 0), (b'', 2), (b'1000', 0), (b'5', 0)):
                st = state(d, lz)
                snap = (st.digits, st.leading_zeroes, st.marker, st.frozen)
                ent = '%s|%s|%s' % (lang, tok, d.decode() or ('0' * lz) or 'fresh')
                try:
                    r = ev.call_fn(interp_method(lang, 'apply'), [ev.self_value, tok, st])
                except Unanalysable as e:
                    rep.anchor(R, ent, 'apply("%s") left the analysable fragment: %s' % (tok, e.what))
                    continue
                n += 1
                after = (st.digits, st.leading_zeroes, st.marker, st.frozen)
                flags_after = st.flags.bits if hasattr(st.flags, 'bits') else st.flags
                if not r.ok:
                    rep.check(after == snap, R, ent, 'rejected, builder untouched',
                              'apply("%s") on builder %r returns Err(%s) but leaves it as digits=%r zeros=%d marker=%r frozen=%s: a refused group leaves a trace' % (
                                  tok, d.decode(), r.payload, after[0].decode(), after[1], after[2], after[3]))
                else:
                    ops = [o for o in st.ops if o[0] in ('put', 'fput', 'push', 'shift', 'put_digit_at')]
                    rep.check(len(ops) == 1, R, ent, 'accepted with one operation on the caller\'s builder',
                              'apply("%s") is accepted but issues %s on the caller\'s builder' % (tok, ops))
    rep.floor(R, n, 300, 'group evaluations')
