"""B1 PANIC-SITES: inventory of every panic-capable site in the library's MIR and its discharge.

Discharge classes (DESIGN §2/B1):
  D1  guard dominance, proved by the difference-constraint prover from dominating edge facts
  D2  a - min(a, x)                         (subsumed by the prover's built-in min rule)
  D3  constant arguments at every in-crate call site (not acceptable for C12's public-API claim)
  D4  non-empty dominance for the float parse in format_and_value / format_decimal_and_value
  D5  constant constructor input (WordSplitter::new(..).unwrap())
  D6  named instance from tables/panic_sites.json, with the guards it relies on checked to dominate
  SIZE  additions on lengths / enumerate indices / the zero counter (cannot reach usize::MAX)
"""
import json
import os
import re

from ..callees import is_partial
from ..callgraph import CallGraph
from ..linear import Constraints, lin, split_call, split_top, _split_args
from ..mirx import X, alpha, pretty, short_callee, untag

TABLE = os.path.join(os.path.dirname(os.path.dirname(os.path.dirname(os.path.dirname(os.path.abspath(__file__))))),
                     'tables', 'panic_sites.json')

DS = 'digit_string::DigitString'
FORMAT_FNS = ('format_and_value', 'format_decimal_and_value')


def xs(ctx, path):
    """(plain X, expanded X) for a body."""
    def mk():
        m = ctx.facts.mir_body(path)
        if not m:
            return None
        a = X(m, ctx.facts)
        b = X(m, ctx.facts)
        b.expand_named = True
        return (a, b)
    return ctx.memo(('XX', path), mk)


def callgraph(ctx):
    return ctx.memo('callgraph', lambda: CallGraph(ctx.facts))


class Site:
    def __init__(self, fn, bi, kind, term, xp, xe):
        self.fn = fn
        self.bi = bi
        self.kind = kind      # 'assert' | 'call'
        self.term = term
        if kind == 'assert':
            self.desc_p = 'assert %s %s' % (term['msg'], ' , '.join(xp.desc_op(o) for o in term['ops']))
            self.desc_e = 'assert %s %s' % (term['msg'], ' , '.join(xe.desc_op(o) for o in term['ops']))
            self.ops_e = [xe.desc_op(o) for o in term['ops']]
        else:
            self.desc_p = xp.desc_call(term, 60, frozenset())
            self.desc_e = xe.desc_call(term, 60, frozenset())
            self.ops_e = [xe.desc_op(o) for o in term['args']]
        self.key_desc = untag(alpha([self.desc_p])[0])
        self.loc = term.get('sp')

    @property
    def key(self):
        return '%s|%s' % (self.fn, self.key_desc)


def enumerate_sites(ctx):
    """All panic-capable sites of all local bodies (cleanup blocks excluded)."""
    def mk():
        out = []
        for path in sorted(ctx.facts.mir):
            pair = xs(ctx, path)
            if pair is None:
                continue
            xp, xe = pair
            for bi in range(xp.n):
                if xp.is_cleanup(bi):
                    continue
                t = xp.term(bi)
                if t.get('k') == 'assert':
                    out.append(Site(path, bi, 'assert', t, xp, xe))
                elif t.get('k') == 'call' and is_partial(t.get('callee'), t.get('resolved')):
                    out.append(Site(path, bi, 'call', t, xp, xe))
        return out
    return ctx.memo('panic_sites', mk)


# ---------------------------------------------------------------------------------------
# local discharge

_SIZE_PATTERNS = (
    re.compile(r'^Vec::len\('), re.compile(r'^slice::len\('), re.compile(r'^str::len\('), re.compile(r'^String::len\('),
    re.compile(r'^self\.leading_zeroes$'),
    re.compile(r'^\(Iterator::next\(.*enumerate.*\) as Some\)\.0\.0$'),
    re.compile(r'^\(Iterator::next\(.*\) as Some\)\.0$'),   # elements of a Vec<usize> of indices: see note
)


def _is_size(term):
    b, _o = lin(term)
    if b == '0':
        return True
    return any(p.match(b) for p in _SIZE_PATTERNS[:6])


def _constraints(xe, bi, extra=()):
    c = Constraints()
    for f in xe.facts_at(bi):
        p = pretty(f)
        c.add_fact(p)
        # emptiness tests speak about lengths
        m = re.match(r'^(!?)(Vec|slice|str|String)::is_empty\((.*)\)$', p)
        if m:
            c.add_fact('%s::len(%s) %s 0' % (m.group(2), m.group(3), '!=' if m.group(1) else '=='))
    for f in extra:
        c.add_fact(f)
    return c


def _len_terms(c, xe, site_bi, vec_desc):
    """Terms of the constraint system that denote the *current* length of the Vec `vec_desc` at the site:
    `Vec::len(V)` possibly with an epoch tag, such that no write through V lies between that len() call
    and the site."""
    out = []
    want = 'Vec::len(%s)' % vec_desc
    for term in sorted(c.terms):
        if untag(term) != want:
            continue
        m = re.search(r'@bb(\d+)$', term)
        if m:
            blocks = [int(m.group(1))]
        else:
            blocks = [b for b, t in xe.calls() if untag(pretty(xe.desc_call(t, 60, frozenset()))) == want]
        if blocks and all(_no_resize_between(xe, lb, site_bi, vec_desc) for lb in blocks):
            out.append(term)
    return out


def _no_resize_between(xe, lb, site_bi, vec_desc):
    vd = untag(vec_desc)
    for (mb, kind, target, detail, si, root) in xe.mut_analysis()['sites']:
        r = untag(pretty(root))
        if not (r == vd or vd.startswith(r + '.') or r.startswith(vd + '.')):
            continue
        if mb == site_bi or mb == lb:
            continue
        # element writes do not change the length
        if kind == 'assign' and untag(pretty(target)).startswith('IndexMut::index_mut('):
            continue
        if kind == 'call' and re.match(r'^slice::(copy_from_slice|swap_with_slice)\(', pretty(detail)):
            continue
        if xe.reaches(lb, mb) and xe.reaches(mb, site_bi):
            return False
    return True


def _current_len_ok(xe, site_bi, vec_desc):
    want = 'Vec::len(%s)' % vec_desc
    blocks = [b for b, t in xe.calls() if untag(pretty(xe.desc_call(t, 60, frozenset()))) == want]
    return bool(blocks) and all(_no_resize_between(xe, lb, site_bi, vec_desc) for lb in blocks)


def discharge_local(ctx, site, extra_facts=()):
    """-> (class, reason) or None.  extra_facts: equalities on parameters (D3)."""
    xp, xe = xs(ctx, site.fn)
    t = site.term
    bi = site.bi
    if 'false' in [pretty(z) for z in xe.facts_at(bi)]:
        return ('DEAD', 'the site is guarded by a constant-false condition (cfg!(debug_assertions) in this configuration)')
    c = _constraints(xe, bi, extra_facts)
    if site.kind == 'assert':
        msg = t['msg']
        a = pretty(site.ops_e[0]) if site.ops_e else ''
        b = pretty(site.ops_e[1]) if len(site.ops_e) > 1 else ''
        if msg == 'Overflow:Sub':
            if c.entails_ge(a, b, 0):
                return ('D1', '%s >= %s follows from the dominating guards' % (a, b))
            return None
        if msg in ('Overflow:Add', 'Overflow:Mul'):
            # values bounded by a collection size (<= isize::MAX) plus/times a small constant
            vals = []
            for o in (a, b):
                base, off = lin(o)
                if base == '0':
                    vals.append(('const', off))
                elif _is_size(o):
                    vals.append(('size', o))
                else:
                    # a parameter pinned by an extra fact, or bounded by a size
                    lbz = c.lower_bound('0', base)   # 0 - base >= k  => base <= -k
                    if lbz is not None:
                        vals.append(('const', -lbz + off))
                    else:
                        ub = None
                        for term in list(c.terms):
                            if _is_size(term) and term != '0' and c.entails_ge(term, base, 0):
                                ub = term
                                break
                        if ub:
                            vals.append(('size', ub))
                        else:
                            return None
            consts = [v for k, v in vals if k == 'const']
            if msg == 'Overflow:Add' and all(abs(v) < 2 ** 40 for v in consts):
                return ('SIZE', 'operands are collection sizes/indices (<= isize::MAX) or small constants: no usize overflow')
            if msg == 'Overflow:Mul' and len(consts) == 2 and consts[0] * consts[1] < 2 ** 60:
                return ('SIZE', 'constant product')
            if msg == 'Overflow:Mul' and len(consts) == 1 and consts[0] <= 2:
                return ('SIZE', '2 * size <= 2 * isize::MAX < usize::MAX')
            return None
        return None
    # calls
    name = short_callee(t.get('callee'))
    args = [pretty(a) for a in site.ops_e]
    if name in ('Index::index', 'IndexMut::index_mut') and len(args) == 2:
        recv, idx = args
        recv_ty = xe.m['locals'][t['args'][0]['pl']['l']]['ty'] if 'pl' in t['args'][0] else ''
        if 'str' in recv_ty and 'Vec' not in recv_ty:
            return None  # str slicing needs char boundaries: named instances only
        # the indexed collection and its current-length term(s)
        if 'Vec<' not in recv_ty:
            return None
        c.terms.add('Vec::len(%s)' % recv)
        for L in _len_terms(c, xe, bi, recv):
            sc = split_call(idx)
            if sc and sc[0] == 'RangeFrom' and len(sc[1]) == 1:
                if c.entails_ge(L, sc[1][0], 0):
                    return ('D1', 'range start %s <= %s' % (sc[1][0], L))
            elif sc and sc[0] == 'Range' and len(sc[1]) == 2:
                s_, e_ = sc[1]
                if c.entails_ge(e_, s_, 0) and c.entails_ge(L, e_, 0):
                    return ('D1', '%s <= %s <= %s' % (s_, e_, L))
            elif sc and sc[0] in ('RangeTo',) and len(sc[1]) == 1:
                if c.entails_ge(L, sc[1][0], 0):
                    return ('D1', 'range end within length')
            elif sc is None or sc[0] not in ('RangeInclusive', 'RangeToInclusive', 'RangeFull'):
                if c.entails_ge(L, idx, 1):
                    return ('D1', 'index %s < %s' % (idx, L))
        return None
    if name == 'slice::split_at_mut' and len(args) == 2:
        m = re.match(r'^DerefMut::deref_mut\((.*)\)$', args[0])
        if m and _current_len_ok(xe, bi, m.group(1)):
            L = 'Vec::len(%s)' % m.group(1)
            if c.entails_ge(L, args[1], 0):
                return ('D1', 'split point %s <= %s' % (args[1], L))
        return None
    if name == 'slice::copy_from_slice' and len(args) == 2:
        # dst = index_mut(V, RangeFrom((L - P))) has P elements when P <= L; src must have P elements
        m = split_call(args[0])
        if m and m[0] == 'IndexMut::index_mut' and len(m[1]) == 2:
            v, rng = m[1]
            r = split_call(rng)
            if r and r[0] == 'RangeFrom':
                sp = split_top(r[1][0], ('-',))
                L = 'Vec::len(%s)' % v
                if sp and pretty(sp[0]) == L and sp[2] == 'slice::len(%s)' % args[1] and _current_len_ok(xe, bi, v):
                    return ('D1', 'destination buffer[len - n ..] and source both have n = %s elements' % sp[2])
        return None
    return None


# ---------------------------------------------------------------------------------------
# D3: constant arguments at in-crate call sites

def caller_param_facts(ctx, fn_path):
    """[(caller, loc, [fact strings 'aK == c'])] for every in-crate call site of fn_path; None in the
    fact list position means some argument is not a constant."""
    cg = callgraph(ctx)
    out = []
    for (caller, tgt), terms in cg.sites.items():
        if tgt != fn_path:
            continue
        pair = xs(ctx, caller)
        xe = pair[1]
        for t in terms:
            facts = []
            for i, a in enumerate(t['args']):
                d = pretty(xe.desc_op(a))
                if re.match(r'^-?\d+$', d):
                    facts.append('a%d == %s' % (i + 1, d))
            out.append((caller, t.get('sp'), facts, [pretty(xe.desc_op(a)) for a in t['args']]))
    return out


# ---------------------------------------------------------------------------------------

def load_table():
    with open(TABLE) as fh:
        return json.load(fh)


def check_named(ctx, site, entry):
    """D6: every guard the entry relies on must be among the facts that dominate the site."""
    xp, xe = xs(ctx, site.fn)
    guards = entry.get('guards', [])
    if entry.get('expanded'):
        if not re.search(entry['expanded'], untag(pretty(site.desc_e))):
            return False, 'the site no longer has the shape the argument relies on (expected /%s/, got `%s`)' % (
                entry['expanded'], untag(pretty(site.desc_e)))
    if not guards:
        return True, ''
    facts_p = xp.facts_at(site.bi)
    facts_e = xe.facts_at(site.bi)
    # joint alpha-normalisation of the site descriptor with each fact
    for g in guards:
        found = False
        for f in facts_p + facts_e:
            norm = alpha([site.desc_p, f])
            if untag(norm[1]) == g or untag(pretty(f)) == g:
                found = True
                break
        if not found:
            return False, 'guard `%s` no longer dominates the site (dominating facts: %s)' % (
                g, [untag(alpha([site.desc_p, f])[1]) for f in facts_p])
    return True, ''


def _direct_callers(ctx, fn):
    """Functions of the crate whose MIR (or whose closures' MIR) calls `fn`."""
    import re as _re

    def build():
        rev = {}
        for path, m in ctx.facts.mir.items():
            owner = _re.sub(r'(::\{closure#\d+\})+$', '', path.split('::{promoted')[0])
            for bb in m['blocks']:
                t = bb['term']
                if t.get('k') == 'call':
                    for tgt in {t.get('resolved'), t.get('callee')}:
                        if tgt:
                            rev.setdefault(tgt, set()).add(owner)
        return rev
    return sorted(ctx.memo(('rev-callgraph',), build).get(fn, ()))


def bounded_no_panic(ctx, fn, _depth=0):
    """Fallback evidence for a site the prover cannot discharge: the bounded case tables of the abstract machine
    that cover `fn` reach no panic site at all.  Returns (covered, clean, text)."""
    from . import dsvm, scanvm, textvm
    import re as _re0
    fn = _re0.sub(r'(::\{closure#\d+\})+$', '', fn)
    mod = fn.lstrip('<').split('::')[0]
    if mod == 'lang' and not _re0.search(r'lang::(\w\w)::', fn) and _depth < 3:
        # a helper shared by the languages (`lang::format_with_suffix`): covered when every function that calls it is
        callers = [c for c in _direct_callers(ctx, fn) if c != fn]
        if not callers:
            return False, False, 'no bounded table covers ' + fn
        parts = [bounded_no_panic(ctx, c, _depth + 1) for c in callers]
        if not all(p[0] for p in parts):
            return False, False, 'no bounded table covers a caller of ' + fn
        return True, all(p[1] for p in parts), 'the tables of its %d callers (%s)' % (len(callers), parts[0][2])
    try:
        if mod == 'get_interpreter_for':
            from . import facadevm
            tb, _l = facadevm.iso_table(ctx)
            return True, all(r[0] == 'ok' for r in tb.values()), 'get_interpreter_for interpreted on %d concrete strings' % len(tb)
        if mod == 'digit_string':
            r1 = dsvm.explore(ctx, dsvm.OPS, 3 if ctx.tier == 'thorough' else 2, 'full')
            r2 = dsvm.explore(ctx, dsvm.OPS_SMALL if ctx.tier == 'thorough' else dsvm.OPS_QUICK, 5 if ctx.tier == 'thorough' else 4, 'small')
            if r1[0] != 'ok' or r2[0] != 'ok':
                return False, False, 'builder not interpretable'
            recs = r1[1] + r2[1]
            bad = [x for x in recs if x[1] == 'PANIC' or any(isinstance(o, str) and o.startswith('PANIC') for o in (x[4] or ()))]
            return True, not bad, '%d builder operation steps (+ all queries after each) on the abstract machine' % len(recs)
        if mod == 'word_to_digit':
            n = 0
            for name, alpha, dd, th, mode in (('full', scanvm.FULL, scanvm.depth_for(ctx, 3, 4), 10.0, 'batch'), ('full', scanvm.FULL, scanvm.depth_for(ctx, 3, 4), 10.0, 'lazy'),
                                              ('full', scanvm.FULL, scanvm.depth_for(ctx, 3, 4), 10.0, 'replace')):
                tb = scanvm.table(ctx, name, alpha, dd, th, mode)
                n += len(tb)
                if any(r.kind for r in tb.values()):
                    return True, False, 'scanner tables contain a panic / uninterpretable case'
            return True, True, '%d scanner cases on the abstract machine' % n
        if mod == 'tokenizer' and 'WordSplit' in fn:
            res = textvm.split_all(ctx, scanvm.depth_for(ctx, 5, 6))
            return True, not any(err for _w, _p, _s, err in res), '%d words split on the abstract machine' % len(res)
        if mod == 'lang':
            import re as _re
            from . import lexeval
            from ..engine import Report
            m_ = _re.search(r'lang::(\w\w)::', fn)
            if not m_:
                return False, False, 'no bounded table covers ' + fn
            lang = m_.group(1)
            sub = Report('fallback')
            if 'basic_annotate' in fn:
                if lang == 'en':
                    lexeval.rule_o_annotate(ctx, sub)
                elif lang == 'fr':
                    lexeval.rule_neuf_annotate(ctx, sub)
                else:
                    return False, False, 'no bounded table covers ' + fn
                what = 'the annotation pass evaluated on its table of token contexts'
            elif 'format_' in fn:
                lexeval.rule_sep_mark(ctx, sub, [lang])
                what = 'the formatters evaluated on their table of builders'
            else:
                st = lexeval.sweep(ctx)[lang]
                if st['errors']:
                    return True, False, 'the word x state sweep of %s left the evaluable fragment' % lang
                return True, True, '%d evaluations of apply / apply_decimal (%s) over the lexicon x builder states' % (st['n'], lang)
            anchors = [i for i in sub.instances if i.verdict == 'anchor']
            return True, not anchors, what
        if mod == 'tokenizer' and 'Tokenize' in fn or fn == 'tokenizer::tokenize':
            res = textvm.tokenize_all(ctx, scanvm.depth_for(ctx, 4, 5))
            return True, not any(err for _t, err in res.values()), '%d tokenized strings on the abstract machine' % len(res)
    except Exception as e:   # the fallback must never turn an alarm into a pass by accident
        return False, False, 'fallback failed: %r' % (e,)
    return False, False, 'no bounded table covers ' + fn


def rule_panic_sites(ctx, rep, scope):
    """scope: 'C03' (whole library, D3 allowed) or 'C12' (DigitString public API, symbolic arguments)."""
    R = 'B1-PANIC-SITES'
    rep.rule(R, 'every panic-capable site (MIR Assert terminators and calls to partial callees) is discharged by a '
                'dominating guard (prover), constant call-site arguments, non-empty dominance, constant constructor '
                'input, or a named instance whose guards are checked to dominate')
    f = ctx.facts
    table = load_table()
    named = {}
    for e in table['sites']:
        named.setdefault((e['fn'], e['site']), e)
    sites = enumerate_sites(ctx)
    if scope == 'C12':
        sites = [s for s in sites if s.fn.startswith(DS + '::') or s.fn.startswith('<%s as' % DS)]
    n_by_class = {}
    used_named = set()
    for s in sites:
        loc = f.loc(s.loc)
        ent = s.key
        res = discharge_local(ctx, s)
        if res is None and s.kind == 'call':
            res = _special(ctx, s, scope, rep)
        if res is None:
            e = named.get((s.fn, s.key_desc))
            if e is not None and (scope != 'C12' or e.get('public_ok', True)):
                ok, why = check_named(ctx, s, e)
                if ok:
                    res = ('D6', e['why'])
                    used_named.add((s.fn, s.key_desc))
                else:
                    cov, clean, txt = bounded_no_panic(ctx, s.fn)
                    if cov and clean:
                        n_by_class['bounded'] = n_by_class.get('bounded', 0) + 1
                        rep.ok(R, ent, 'BOUNDED: the named guards are not recognised (%s); no panic on %s' % (why, txt), loc)
                        continue
                    rep.violation(R, ent, 'named instance (%s): %s' % (e['why'], why), loc)
                    continue
        if res is None and scope == 'C03':
            # D3: re-try with the constant arguments of every in-crate call site
            callers = caller_param_facts(ctx, s.fn)
            if callers and any(c[2] for c in callers):
                fails = []
                for (caller, cloc, facts, argd) in callers:
                    if discharge_local(ctx, s, facts) is None and not _panic_guard_const(ctx, s, facts):
                        fails.append('%s @ %s with args %s' % (caller.split('::')[-1], f.loc(cloc), argd))
                if not fails:
                    res = ('D3', 'holds for the constant arguments of all %d in-crate call sites' % len(callers))
                elif bounded_no_panic(ctx, s.fn)[:2] == (True, True):
                    res = ('bounded', 'BOUNDED: ' + bounded_no_panic(ctx, s.fn)[2])
                else:
                    rep.violation(R, ent, 'site `%s` is not discharged for the call(s): %s' % (pretty(s.desc_p), '; '.join(fails[:3])), loc)
                    continue
        if res is None:
            cov, clean, txt = bounded_no_panic(ctx, s.fn)
            if cov and clean:
                n_by_class['bounded'] = n_by_class.get('bounded', 0) + 1
                rep.ok(R, ent, 'BOUNDED: not discharged by the prover; no panic on %s' % txt, loc)
                continue
            rep.violation(R, ent, 'undischarged panic site `%s` in %s (dominating facts: %s)' % (
                pretty(s.desc_p), s.fn, [pretty(x) for x in xs(ctx, s.fn)[0].facts_at(s.bi)]), loc)
            continue
        n_by_class[res[0]] = n_by_class.get(res[0], 0) + 1
        rep.ok(R, ent, '%s: %s' % res, loc)
    rep.note('panic sites by discharge class: %s' % n_by_class)
    rep.floor(R, len(sites), 10 if scope == 'C12' else 50, 'panic-capable sites enumerated')
    return sites


def _panic_guard_const(ctx, site, facts):
    """debug_assert!(start < end): the panic block is reached only if the assertion fails; with the
    constant arguments of a call site the failing branch is infeasible."""
    if site.kind != 'call' or 'panicking::panic' not in short_callee(site.term.get('callee')):
        return False
    xp, xe = xs(ctx, site.fn)
    c = Constraints()
    for fa in facts:
        c.add_fact(fa)
    # the facts dominating the panic block must contradict the call-site constants
    for fact in xe.facts_at(site.bi):
        from ..mirx import _split_rel
        sp = _split_rel(pretty(fact))
        if not sp:
            continue
        a, op, b = sp
        # fact says a <= b (or <); constants say b < a (or <=): contradiction
        if op == '<=' and c.entails_ge(a, b, 1):
            return True
        if op == '<' and c.entails_ge(a, b, 0):
            return True
    return False


def _special(ctx, s, scope, rep):
    """D4, D5 and the digit-content rule."""
    f = ctx.facts
    name = short_callee(s.term.get('callee'))
    d = pretty(s.desc_e)
    fn_name = s.fn.rsplit('::', 1)[-1]
    if name == 'Result::unwrap' and fn_name in FORMAT_FNS and 'str::parse(' in d:
        # D4 is established at the call sites of the format functions (rule_nonempty_format)
        ok = ctx.memo('nonempty_format_ok', lambda: None)
        return ('D4', 'float parse of a non-empty digit string; non-emptiness is established at every call site '
                      '(rule B1/D4-NONEMPTY)')
    if name == 'Result::unwrap' and d.startswith('Result::unwrap(WordSplitter::new(array['):
        pats = re.findall(r'"((?:[^"\\]|\\.)*)"', d)
        if pats and all(pats) and len(set(pats)) == len(pats):
            return ('D5', 'constant, non-empty, pairwise distinct patterns (%d)' % len(pats))
        return None
    return None


def rule_nonempty_format(ctx, rep):
    """D4: every call of format_and_value / format_decimal_and_value passes non-empty builders."""
    R = 'B1/D4-NONEMPTY'
    rep.rule(R, 'each DigitString handed to format_and_value / format_decimal_and_value is known non-empty at the call '
                'site (dominating !is_empty test, or the has_number precondition chain of the scanner)')
    f = ctx.facts
    cg = callgraph(ctx)
    n = 0
    # preconditions (frozen, confirmed by reading): function -> fact assumed at entry
    PRE = {
        "word_to_digit::WordToDigitParser::<'a, T>::string_and_value": '!DigitString::is_empty(self.int_part)',
        "word_to_digit::FindNumbers::<'a, L, T, I>::number_end": 'WordToDigitParser::has_number(self.parser)',
    }
    # has_number must be exactly !int_part.is_empty()
    hn = xs(ctx, "word_to_digit::WordToDigitParser::<'a, T>::has_number")
    if hn is None:
        rep.anchor(R, 'has_number', 'WordToDigitParser::has_number not found')
    else:
        xe = hn[1]
        rets = [pretty(xe.desc_rvalue(rv)) for _b, _s, pl, rv in xe.assignments() if pl['l'] == 0 and not pl['p']]
        rep.check(rets == ['!DigitString::is_empty(self.int_part)'], R, 'has_number',
                  'has_number() == !int_part.is_empty()', 'has_number() returns %s' % rets, f.loc(xe.m['sp']))
    for path in sorted(f.mir):
        if path.startswith('<lang::Language as'):
            continue  # the facade forwards its own parameters; its callers are the sites checked here
        pair = xs(ctx, path)
        if pair is None:
            continue
        xp, xe = pair
        for bi, t in xe.calls():
            cal = t.get('callee') or ''
            mname = cal.rsplit('::', 1)[-1]
            if mname in FORMAT_FNS and 'LangInterpreter' in cal:
                n += 1
                facts = _current_facts(xe, bi)
                pre = PRE.get(path)
                for a in t['args'][1:]:
                    ad = untag(pretty(xe.desc_op(a)))
                    want = '!DigitString::is_empty(%s)' % ad
                    ent = '%s|%s(%s)' % (path, mname, alpha([xe.desc_op(a)])[0])
                    loc = f.loc(t['sp'])
                    if want in facts:
                        rep.ok(R, ent, 'dominated by %s' % want, loc)
                    elif pre == want and not _mutated_before(xe, bi, ad):
                        rep.ok(R, ent, 'by the precondition of %s (established by all callers) and no reset before the call' % path.split('::')[-1], loc)
                    else:
                        rep.violation(R, ent, '`%s` is formatted (parse().unwrap()) without a dominating non-emptiness test; '
                                      'an empty builder renders "" and the float parse panics' % ad, loc)
    # the preconditions themselves
    for fn, pre in PRE.items():
        callers = [(c, terms) for (c, tgt), terms in cg.sites.items() if tgt == fn]
        if not callers:
            rep.anchor(R, 'pre|' + fn, 'function with a precondition has no callers / was not found')
            continue
        for caller, terms in callers:
            xp, xe = xs(ctx, caller)
            for t in terms:
                bi = next(b for b, tt in xe.calls() if tt is t or tt.get('sp') == t.get('sp'))
                facts = _current_facts(xe, bi)
                recv = untag(pretty(xe.desc_op(t['args'][0])))
                ent = 'pre|%s<-%s' % (fn.split('::')[-1], caller.split('::')[-1])
                n += 1
                if fn.endswith('string_and_value'):
                    need = 'WordToDigitParser::has_number(%s)' % recv
                    cpre = PRE.get(caller)
                    ok = need in facts or (cpre == need and not _mutated_before(xe, bi, recv))
                else:
                    need = pre.replace('self.parser', recv + '.parser') if recv != 'self' else pre
                    ok = need in facts
                rep.check(ok, R, ent + '@' + str(sum(1 for i in rep.instances if i.entity.startswith(ent))),
                          'call site establishes `%s`' % need,
                          'call of %s is not dominated by `%s` (facts: %s)' % (fn.split('::')[-1], need, facts), f.loc(t['sp']))
    rep.floor(R, n, 6, 'format call sites / preconditions checked')


def _current_facts(xe, site_bi):
    """Dominating facts with epoch tags removed, keeping a tagged fact only if nothing was written through
    a &mut between the tagged call and the site (so the observation is still current)."""
    out = []
    muts = xe.mut_analysis()['sites']
    for fct in xe.facts_at(site_bi):
        p = pretty(fct)
        tags = [int(x) for x in re.findall(r'@bb(\d+)', p)]
        stale = False
        for tb in tags:
            for (mb, kind, target, detail, si, root) in muts:
                if mb != site_bi and (mb == tb or xe.reaches(tb, mb)) and xe.reaches(mb, site_bi) and mb != tb:
                    stale = True
        if not stale:
            out.append(untag(p))
    return out


def _mutated_before(xe, site_bi, root_desc):
    """Is there a write through `root_desc` on some path from entry to the site?"""
    for (mb, kind, target, detail, si, root) in xe.mut_analysis()['sites']:
        r = untag(pretty(root))
        if r == root_desc or root_desc.startswith(r + '.') or r.startswith(root_desc + '.'):
            if mb != site_bi and xe.reaches(mb, site_bi) or mb == 0 and site_bi != 0:
                if mb == site_bi:
                    continue
                return True
    return False


def rule_digit_args(ctx, rep):
    """D3-digits: in-crate writers only pass ASCII digit literals / other builders / small positions."""
    R = 'B1/D3-DIGIT-ARGS'
    rep.rule(R, 'every in-crate call of put/fput/push passes an ASCII-digit byte-string literal or another builder; '
                'put_digit_at a non-zero digit and a small position; shift a small literal; is_range_free literals s < e')
    f = ctx.facts
    cg = callgraph(ctx)
    n = 0
    for (caller, tgt), terms in sorted(cg.sites.items()):
        if not tgt.startswith(DS + '::'):
            continue
        m = tgt.rsplit('::', 1)[-1]
        if caller.startswith(DS + '::') or caller.startswith('<%s as' % DS):
            continue
        xp, xe = xs(ctx, caller)
        for t in terms:
            args = [pretty(xe.desc_op(a)) for a in t['args']]
            loc = f.loc(t['sp'])
            ent = '%s|%s(%s)' % (caller, m, ', '.join(args[1:]))
            if m in ('put', 'fput', 'push'):
                n += 1
                a = args[1]
                lit = re.match(r'^b"([0-9]+)"$', a)
                other = re.match(r'^Deref::deref\((.*)\)$', a)
                ok = bool(lit) or (other is not None and _is_ds_deref(xe, t['args'][1]))
                rep.check(ok, R, ent, 'digits argument is %s' % ('a digit literal' if lit else 'another builder\'s digits'),
                          'argument `%s` of %s is neither an ASCII digit literal nor a DigitString' % (a, m), loc)
            elif m == 'put_digit_at':
                n += 1
                ok = re.match(r'^(4[9]|5[0-7])$', args[1]) and re.match(r'^\d$', args[2])
                rep.check(bool(ok), R, ent, 'digit b\'%s\' at literal position %s' % (chr(int(args[1])) if ok else '?', args[2]),
                          'put_digit_at(%s, %s): digit must be a literal b\'1\'..b\'9\' and the position a small literal' % (args[1], args[2]), loc)
            elif m == 'shift':
                n += 1
                ok = re.match(r'^\d{1,2}$', args[1])
                rep.check(bool(ok), R, ent, 'shift by literal %s' % args[1], 'shift amount `%s` is not a small literal' % args[1], loc)
            elif m == 'is_range_free':
                n += 1
                ok = re.match(r'^\d+$', args[1]) and re.match(r'^\d+$', args[2]) and int(args[1]) < int(args[2])
                rep.check(bool(ok), R, ent, 'literal range %s < %s' % (args[1], args[2]),
                          'is_range_free(%s, %s) violates the precondition start < end (debug assertion / slice order)' % (args[1], args[2]), loc)
    rep.floor(R, n, 350, 'in-crate builder call sites')


def _is_ds_deref(xe, op):
    """The operand is the result of <DigitString as Deref>::deref."""
    if 'pl' not in op:
        return False
    l = op['pl']['l']
    for _ in range(6):
        ds = xe.whole_defs(l)
        if len(ds) != 1:
            return False
        d = ds[0]
        if d[0] == 'call':
            t = d[2]
            return short_callee(t.get('callee')) == 'Deref::deref' and t.get('self_ty') == DS
        rv = d[3]['rv']
        if rv['k'] == 'use' and 'pl' in rv['op']:
            l = rv['op']['pl']['l']
        elif rv['k'] in ('ref', 'copyforderef'):
            l = rv['pl']['l']
        else:
            return False
    return False


def _root_local(xe, op):
    """Local index at the root of an operand after following single-definition copies/calls' first arg."""
    seen = 0
    cur = op
    while seen < 20 and cur is not None and 'pl' in cur:
        l = cur['pl']['l']
        if 1 <= l <= xe.arg_count:
            return l
        ds = xe.whole_defs(l)
        if len(ds) != 1:
            return l
        d = ds[0]
        if d[0] == 'call':
            if d[2]['args']:
                cur = d[2]['args'][0]
            else:
                return l
        else:
            rv = d[3]['rv']
            if rv['k'] == 'use' and 'pl' in rv['op']:
                cur = rv['op']
            elif rv['k'] in ('ref', 'copyforderef'):
                cur = {'pl': rv['pl']}
            else:
                return l
        seen += 1
    return op['pl']['l'] if op and 'pl' in op else 0
