"""Rules on the digit builder (src/digit_string.rs): B3 FAIL-ATOMIC, B4 FROZEN-FIRST,
B5 WRITE-GUARDED, B6 FIELD-COVERAGE."""
from ..mirx import X, pretty, alpha

DS = 'digit_string::DigitString'


def _x(ctx, path):
    """X with named single-definition locals expanded to their definitions (rename-robust)."""
    def mk():
        m = ctx.facts.mir_body(path)
        if not m:
            return None
        x = X(m, ctx.facts)
        x.expand_named = True
        return x
    return ctx.memo(('Xe', path), mk)


def mutators(ctx):
    """&mut self -> Result methods of DigitString."""
    out = []
    for fn in ctx.facts.items['fns']:
        if fn.get('self_ty') == DS and fn.get('parent_kind', '').startswith('Impl') and not fn.get('trait'):
            if fn['inputs'] and fn['inputs'][0].startswith('&mut ') and 'Result' in fn['output']:
                out.append(fn)
    return sorted(out, key=lambda f: f['path'])


def err_blocks(x):
    """{block: descriptor} of blocks assigning an Err to the return place."""
    out = {}
    for bi, si, pl, rv in x.assignments():
        if pl['l'] == 0 and not pl['p']:
            d = x.desc_rvalue(rv)
            if d.startswith('Err('):
                out[bi] = (d, si)
    for bi, t in x.calls():
        if t['dest']['l'] == 0 and 'from_residual' in (t.get('callee') or ''):
            out[bi] = ('Err(?)', 10 ** 6)
    return out


def self_sites(x):
    """Mutation sites that write state reachable from `self`."""
    ma = x.mut_analysis()
    return [s for s in ma['sites'] if s[5] == 'self' or s[5].startswith('self.')]


def _bounded(ctx, clause):
    """Fallback for a write the dominance argument cannot clear: the builder's bounded case table (V12) shows the
    clause on every operation sequence up to the bound.  Returns text or None."""
    try:
        from . import dsvm
        v = dsvm.verdicts(ctx)
    except Exception:
        return None
    if v[0] != 'ok' or clause in v[1] or 'no-panic' in v[1]:
        return None
    return 'BOUNDED: the dominance argument does not apply (helper call / reference returned by a helper); the case table of %d builder steps shows the clause' % v[2]


def rule_fail_atomic(ctx, rep):
    R = 'B3-FAIL-ATOMIC'
    rep.rule(R, 'in every &mut self -> Result method of DigitString no write through self can be followed by an Err exit')
    f = ctx.facts
    ms = mutators(ctx)
    if len(ms) < 5:
        rep.anchor(R, 'methods', 'expected the mutators put, put_digit_at, push, fput, shift; found %s' % [m['name'] for m in ms])
    n = 0
    for fn in ms:
        x = _x(ctx, fn['path'])
        if x is None:
            rep.anchor(R, fn['name'], 'no MIR')
            continue
        errs = err_blocks(x)
        sites = self_sites(x)
        if not sites:
            rep.ok(R, fn['name'] + '|no-writes', 'method performs no write', f.loc(fn['sp']), nontrivial=False)
        for (bi, kind, target, detail, si, root) in sites:
            n += 1
            ent = '%s|%s' % (fn['name'], alpha([detail if kind == 'call' else '%s = %s' % (target, detail)])[0])
            bad = []
            for eb, (ed, esi) in errs.items():
                if eb == bi:
                    if si is not None and esi > si:
                        bad.append((eb, ed))
                    continue
                if x.reaches(bi, eb):
                    bad.append((eb, ed))
            loc = f.loc((x.blocks[bi]['stmts'][si] if si is not None else x.term(bi))['sp'])
            if not bad:
                rep.ok(R, ent, 'no Err exit reachable after the write', loc)
                continue
            # the one named exception: shift's implicit-one push on an empty buffer
            if fn['name'] == 'shift' and pretty(detail) == 'Vec::push(self.buffer, 49)':
                ok, why = _shift_push_exception(x, bi, errs)
                if ok:
                    rep.ok(R, ent, 'Err exits after the implicit-one push are infeasible: ' + why, loc)
                    continue
                bt = _bounded(ctx, 'error-changes-nothing')
                if bt:
                    rep.ok(R, ent, bt, loc)
                    continue
                rep.violation(R, ent, 'implicit-one push can be followed by an Err exit and the premises of the '
                              'infeasibility argument no longer hold (%s)' % why, loc)
                continue
            bt = _bounded(ctx, 'error-changes-nothing')
            if bt:
                rep.ok(R, ent, bt, loc)
                continue
            rep.violation(R, ent, 'write `%s` can be followed by the error exit `%s` (bb%d): a failed operation '
                          'leaves the builder modified' % (pretty(detail if kind == 'call' else target + ' = ' + detail),
                                                           pretty(bad[0][1]), bad[0][0]), loc)
    rep.floor(R, n, 4, 'write sites in DigitString mutators')


def _shift_push_exception(x, push_block, errs):
    facts = [pretty(s) for s in x.facts_at(push_block)]
    if 'Vec::is_empty(self.buffer)' not in facts:
        return False, 'push is not guarded by buffer.is_empty()'
    if '(0 != a2)' not in facts:
        return False, 'positions == 0 does not return before the push'
    # the switch on `l <= positions` with l = Vec::len(self.buffer) computed after the push
    for bi in x.reachable_after(push_block):
        sf = x.switch_facts(bi)
        for dst, fs in sf.items():
            for fact in fs:
                if pretty(fact) != '(a2 < Vec::len(self.buffer))':
                    continue
                # the len() call feeding the comparison must come after the push
                len_blocks = [b for b, t in x.calls() if pretty(x.desc_call(t, 60, frozenset())) == 'Vec::len(self.buffer)']
                if not len_blocks or any(b not in x.reachable_after(push_block) for b in len_blocks):
                    return False, 'the buffer length is not re-read after the push'
                reach = x.reachable_from(push_block, avoid=[dst])
                if not any(e in reach for e in errs):
                    return True, 'after the push len == 1 <= positions (positions != 0), so the `l <= positions` branch returns Ok'
                return False, 'an Err exit is reachable from the push without passing the `positions < l` edge'
    return False, 'no `l <= positions` test on the buffer length after the push'


def rule_frozen_first(ctx, rep):
    R = 'B4-FROZEN-FIRST'
    rep.rule(R, 'every mutator tests self.frozen and returns Err(Frozen) on an edge that dominates every write')
    f = ctx.facts
    n = 0
    for fn in mutators(ctx):
        x = _x(ctx, fn['path'])
        if x is None:
            continue
        sites = self_sites(x)
        # the frozen switch
        frozen_ret = False
        for bi in range(x.n):
            sf = x.switch_facts(bi)
            for dst, fs in sf.items():
                if 'self.frozen' in [pretty(s) for s in fs]:
                    # dst must return Err(Frozen) without writing
                    for b2 in x.reachable_from(dst):
                        for s in x.blocks[b2]['stmts']:
                            if s['k'] == 'assign' and s['pl']['l'] == 0 and pretty(x.desc_rvalue(s['rv'])) == 'Err(Frozen)':
                                frozen_ret = True
        for (bi, kind, target, detail, si, root) in sites:
            n += 1
            ent = '%s|%s' % (fn['name'], alpha([detail if kind == 'call' else '%s = %s' % (target, detail)])[0])
            loc = f.loc((x.blocks[bi]['stmts'][si] if si is not None else x.term(bi))['sp'])
            facts = [pretty(s) for s in x.facts_at(bi)]
            if '!self.frozen' in facts and frozen_ret:
                rep.ok(R, ent, 'dominated by the not-frozen edge; the frozen edge returns Err(Frozen)', loc)
            else:
                bt = _bounded(ctx, 'frozen-refuses')
                if bt:
                    rep.ok(R, ent, bt, loc)
                    continue
                rep.violation(R, ent, 'write `%s` in `%s` is not dominated by a `self.frozen` test: a frozen builder '
                              'can still be modified' % (pretty(detail if kind == 'call' else target + ' = ' + detail), fn['name']), loc)
    rep.floor(R, n, 4, 'write sites checked for the frozen guard')
    # who-writes frozen
    _who_writes(ctx, rep, R, 'frozen', {'new', 'reset', 'freeze'})


def _who_writes(ctx, rep, R, field, allowed):
    f = ctx.facts
    writers = set()
    for path, m in f.mir.items():
        if not path.startswith('digit_string::') and DS not in path:
            continue
        for b in m['blocks']:
            for s in b['stmts']:
                if s['k'] != 'assign':
                    continue
                names = [p.get('name') for p in s['pl']['p'] if isinstance(p, dict) and 'f' in p and p.get('of', '').endswith('DigitString')]
                if field in names:
                    writers.add(path.split('::')[-1])
                rv = s['rv']
                if rv['k'] == 'agg' and rv.get('adt') == DS:
                    writers.add(path.split('::')[-1])
                if rv['k'] == 'ref' and rv.get('bk') == 'mut':
                    names = [p.get('name') for p in rv['pl']['p'] if isinstance(p, dict) and 'f' in p and p.get('of', '').endswith('DigitString')]
                    if field in names:
                        writers.add(path.split('::')[-1])
    extra = writers - allowed
    if extra and field == 'frozen' and _bounded(ctx, 'frozen-refuses'):
        rep.ok(R, 'who-writes|' + field, _bounded(ctx, 'frozen-refuses') + ' (writers: %s)' % sorted(writers))
        return
    rep.check(not extra, R, 'who-writes|' + field, '`%s` is written only in %s' % (field, sorted(writers)),
              '`%s` is also written in %s (allowed: %s)' % (field, sorted(extra), sorted(allowed)))


def rule_write_guarded(ctx, rep):
    R = 'B5-WRITE-GUARDED'
    rep.rule(R, 'overwrites of existing buffer positions are dominated by the free-slot test; zero counting only on an '
                'empty buffer for the digit "0"; all-zero input refused otherwise')
    f = ctx.facts
    x = _x(ctx, DS + '::put')
    if x is None:
        rep.anchor(R, 'put', 'DigitString::put not found')
        return
    found = {'copy': 0, 'lz': 0, 'extend': 0}
    for (bi, kind, target, detail, si, root) in self_sites(x):
        facts = [pretty(s) for s in x.facts_at(bi)]
        p = pretty(detail)
        loc = f.loc((x.blocks[bi]['stmts'][si] if si is not None else x.term(bi))['sp'])
        if 'copy_from_slice' in p:
            found['copy'] += 1
            # slice::copy_from_slice(IndexMut::index_mut(self.buffer, R), a2)
            inner = p[len('slice::copy_from_slice(IndexMut::index_mut('):]
            rng = inner[len('self.buffer, '):inner.rindex('), ')] if inner.startswith('self.buffer, ') else None
            want = 'digit_string::all_zeros(Index::index(self.buffer, %s))' % rng
            rep.check(rng is not None and want in facts and '!digit_string::all_zeros(a2)' in facts, R, 'put|overwrite',
                      'copy into buffer[%s] dominated by all_zeros of the same range and by !all_zeros(digits)' % rng,
                      'overwrite `%s` is not dominated by `all_zeros` of the same target range (facts: %s)' % (p, facts), loc)
        elif target == 'self.leading_zeroes' or pretty(target) == 'self.leading_zeroes':
            found['lz'] += 1
            rep.check('Vec::is_empty(self.buffer)' in facts and 'PartialEq::eq(a2, b"0")' in facts and p == '(self.leading_zeroes + 1)',
                      R, 'put|leading_zeroes', 'leading_zeroes += 1 only under buffer.is_empty() && digits == b"0"',
                      'leading zero counted without the guards buffer.is_empty() && digits == b"0" (facts: %s, write: %s)' % (facts, p), loc)
        elif 'extend_from_slice' in p:
            found['extend'] += 1
            rep.check('Vec::len(self.buffer) == 0' in facts and '!digit_string::all_zeros(a2)' in facts, R, 'put|first-digits',
                      'first digits appended only to an empty buffer and never all zeros',
                      'append `%s` not guarded by len == 0 and !all_zeros(digits) (facts: %s)' % (p, facts), loc)
        else:
            rep.violation(R, 'put|' + alpha([detail])[0], 'unrecognised write in put: `%s`' % p, loc)
    for k, v in found.items():
        if v != 1:
            rep.anchor(R, 'put|shape|' + k, 'expected exactly one %s write in put, found %d' % (k, v))
    # the zero branch returns Ok right after counting (zero never placed into the buffer)
    x2 = _x(ctx, DS + '::put_digit_at')
    if x2 is None:
        rep.anchor(R, 'put_digit_at', 'not found')
    else:
        n = 0
        for (bi, kind, target, detail, si, root) in self_sites(x2):
            facts = [pretty(s) for s in x2.facts_at(bi)]
            t = pretty(target)
            loc = f.loc((x2.blocks[bi]['stmts'][si] if si is not None else x2.term(bi))['sp'])
            if t.startswith('IndexMut::index_mut(self.buffer, '):
                n += 1
                idx = t[len('IndexMut::index_mut(self.buffer, '):-1]
                want = '(48 == Index::index(self.buffer, %s))' % idx
                rep.check(want in facts and '(48 != a2)' in facts, R, 'put_digit_at|overwrite',
                          'digit written at %s only when that position holds b\'0\' and the digit is not zero' % idx,
                          'overwrite of position %s is not dominated by the == b\'0\' test of the same position (facts %s)' % (idx, facts), loc)
            elif t == 'self.buffer':
                n += 1
                rep.check('(Vec::len(self.buffer) <= a3)' in facts and '(48 != a2)' in facts, R, 'put_digit_at|grow',
                          'buffer replaced only when position >= len (new leading digit)',
                          'buffer replaced without the position >= len guard (facts %s)' % facts, loc)
            else:
                rep.violation(R, 'put_digit_at|' + alpha([target])[0], 'unrecognised write `%s = %s`' % (t, pretty(detail)), loc)
        if n != 2:
            rep.anchor(R, 'put_digit_at|shape', 'expected 2 writes, found %d' % n)
    _who_writes(ctx, rep, R, 'leading_zeroes', {'new', 'reset', 'put'})


def _fields_touched(x, root_local=1):
    """(read fields, written fields) of *self by name, from places in the body."""
    reads, writes = set(), set()

    def fields_of(pl):
        if pl['l'] != root_local:
            return None
        for p in pl['p']:
            if isinstance(p, dict) and 'f' in p:
                return p.get('name')
        return None

    def visit_op(o):
        if o and 'pl' in o:
            n = fields_of(o['pl'])
            if n:
                reads.add(n)

    for b in x.blocks:
        if b.get('cleanup'):
            continue
        for s in b['stmts']:
            if s['k'] != 'assign':
                continue
            n = fields_of(s['pl'])
            if n:
                writes.add(n)
            rv = s['rv']
            for key in ('op', 'a', 'b'):
                if isinstance(rv.get(key), dict):
                    visit_op(rv[key])
            for o in rv.get('ops', []):
                visit_op(o)
            if 'pl' in rv:
                n = fields_of(rv['pl'])
                if n:
                    if rv['k'] in ('ref', 'rawptr') and rv.get('bk') in ('mut', 'Mut'):
                        writes.add(n)
                    else:
                        reads.add(n)
        t = b.get('term') or {}
        for a in t.get('args', []):
            visit_op(a)
        if t.get('k') == 'switch':
            visit_op(t['op'])
    return reads, writes


def rule_field_coverage(ctx, rep):
    R = 'B6-FIELD-COVERAGE'
    rep.rule(R, 'reset() covers every field; len/is_empty/to_string read buffer and leading_zeroes, is_null only buffer')
    f = ctx.facts
    adt = f.adts.get(DS)
    if not adt:
        rep.anchor(R, 'adt', 'DigitString not found')
        return
    fields = [fl['name'] for fl in adt['variants'][0]['fields']]
    x = _x(ctx, DS + '::reset')
    if x is None:
        rep.anchor(R, 'reset', 'DigitString::reset not found')
    else:
        _r, w = _fields_touched(x)
        missing = [fl for fl in fields if fl not in w]
        rep.check(not missing, R, 'DigitString::reset', 'writes all fields %s' % fields,
                  'reset() does not clear %s: state leaks from one number to the next' % missing, f.loc(x.m['sp']))
    expect = {'len': {'buffer', 'leading_zeroes'}, 'is_empty': {'buffer', 'leading_zeroes'},
              'to_string': {'buffer', 'leading_zeroes'}, 'is_null': {'buffer'}}
    for name, want in expect.items():
        x = _x(ctx, '%s::%s' % (DS, name))
        if x is None:
            rep.anchor(R, name, 'DigitString::%s not found' % name)
            continue
        r, _w = _fields_touched(x)
        got = r & {'buffer', 'leading_zeroes'}
        rep.check(got == want, R, 'DigitString::' + name, 'reads %s' % sorted(got),
                  '%s reads %s, expected %s: the zero count is %s the rendered value' % (
                      name, sorted(got), sorted(want), 'missing from' if got < want else 'wrongly part of'), f.loc(x.m['sp']))
    # exact value shapes: the zero count is part of length, emptiness and rendering
    from ..paths import Q
    shapes = {
        'len': (['(Vec::len(self.buffer) + self.leading_zeroes)'], None),
        'is_empty': (['(0 == self.leading_zeroes)', 'false'], {'(0 == self.leading_zeroes)': 'Vec::is_empty(self.buffer)', 'false': '!Vec::is_empty(self.buffer)'}),
        'to_string': (None, None),
    }
    for name, (want_rets, want_facts) in shapes.items():
        x = _x(ctx, '%s::%s' % (DS, name))
        if x is None:
            continue
        qq = Q(x)
        rets = qq.return_values()
        got = sorted(v for _b, v in rets)
        ok = want_rets is None or got == sorted(want_rets)
        if ok and want_facts:
            ok = all(want_facts[v] in qq.facts(b) for b, v in rets)
        if ok and name == 'to_string':
            from ..mirx import alpha, untag
            raw = [x.desc_call(t, 60, frozenset()) for _b, t in x.calls()] + [x.desc_rvalue(rv) for _b, _s, pl, rv in x.assignments() if pl['l'] == 0 and not pl['p']]
            calls = [untag(c) for c in alpha(raw)]
            ok = calls == ['str::repeat("0", self.leading_zeroes)', 'Vec::as_slice(self.buffer)', 'converts::from_utf8(Vec::as_slice(self.buffer))',
                           'Result::unwrap(converts::from_utf8(Vec::as_slice(self.buffer)))',
                           'String::push_str($1, Result::unwrap(converts::from_utf8(Vec::as_slice(self.buffer))))', '$1']
            got = calls
        rep.check(ok, R, 'shape|DigitString::' + name, 'value is built from the buffer and the zero count as documented',
                  '%s computes %s: leading zeros are not part of the %s as documented' % (name, got, {'len': 'length', 'is_empty': 'emptiness test', 'to_string': 'rendering'}[name]),
                  f.loc(x.m['sp']))
    # parser reset
    pr = "word_to_digit::WordToDigitParser::<'a, T>::reset"
    x = _x(ctx, pr)
    padt = next((a for p, a in f.adts.items() if p.startswith('word_to_digit::WordToDigitParser')), None)
    if x is None or padt is None:
        rep.anchor(R, 'WordToDigitParser::reset', 'parser reset not found')
    else:
        pfields = [fl['name'] for fl in padt['variants'][0]['fields']]
        _r, w = _fields_touched(x)
        # DigitString::reset must be what is called on the two parts
        resets = [pretty(x.desc_call(t, 60, frozenset())) for _b, t in x.calls()]
        missing = [fl for fl in pfields if fl not in w and fl != 'lang']
        ok = not missing and 'DigitString::reset(self.int_part)' in resets and 'DigitString::reset(self.dec_part)' in resets
        rep.check(ok, R, 'WordToDigitParser::reset', 'resets %s (all but lang) via DigitString::reset' % [p for p in pfields if p != 'lang'],
                  'parser reset misses %s (calls: %s)' % (missing, resets), f.loc(x.m['sp']))
