"""B2 PROGRESS: every loop consumes from an iterator on every cycle; recursion inventory."""
from ..mirx import short_callee
from .panics import callgraph, xs

CONSUMING = ('Iterator::next', 'Peekable::next', 'DoubleEndedIterator::next_back', 'VecDeque::pop_front',
             'Vec::pop', 'VecDeque::pop_back')

# confirmed recursion cycles (DESIGN §4/C03): members are matched by method name suffix
ALLOWED_SCC = [
    # apply -> exec_group -> apply (hyphen groups en/fr, compound groups de/it/nl, and through the facade)
    {'apply', 'exec_group', 'apply_decimal'},
    # WordSplitIterator::next -> next (a match that starts at the cursor: depth <= 2)
    {'next'},
]


def rule_loops(ctx, rep):
    R = 'B2-PROGRESS/loops'
    rep.rule(R, 'every natural loop passes a consuming iterator call (next / pop_front) on every cycle')
    f = ctx.facts
    n = 0
    for path in sorted(f.mir):
        pair = xs(ctx, path)
        if pair is None:
            continue
        x = pair[0]
        heads = {}
        for (tail, head) in x.back_edges():
            heads.setdefault(head, set()).update(x.natural_loop(tail, head))
        for head, body in sorted(heads.items()):
            n += 1
            consuming = set()
            for bi in body:
                t = x.term(bi)
                if t.get('k') == 'call' and short_callee(t.get('callee')) in CONSUMING:
                    consuming.add(bi)
            # is there a cycle head -> ... -> head inside the loop that avoids all consuming blocks?
            free = False
            if head not in consuming:
                seen = set()
                stack = [s for s in x.succ[head] if s in body and s not in consuming]
                while stack:
                    b = stack.pop()
                    if b == head:
                        free = True
                        break
                    if b in seen:
                        continue
                    seen.add(b)
                    stack.extend(s for s in x.succ[b] if s in body and s not in consuming)
            loc = f.loc(x.term(head).get('sp') or x.m['sp'])
            ent = '%s|loop@%s' % (path, _loop_label(x, head, body))
            if consuming and not free:
                rep.ok(R, ent, 'every cycle passes %s' % sorted({short_callee(x.term(b)['callee']) for b in consuming}), loc)
            else:
                # the consumption may sit in a callee (`while self.advance() {}`): accept when the bounded case tables that
                # cover this function all terminate (a loop that does not advance exhausts the machine's step budget)
                from .panics import bounded_no_panic
                cov, clean, txt = bounded_no_panic(ctx, path)
                if cov and clean:
                    rep.ok(R, ent, 'BOUNDED: no consuming call is visible inside the cycle; every case of %s terminates' % txt, loc)
                else:
                    rep.violation(R, ent, 'loop in %s has a cycle without a consuming iterator call: it may not terminate' % path, loc)
    rep.floor(R, n, 5, 'natural loops in the library')  # 12 today; a loop rewritten as an iterator chain leaves the rule (std terminates)


def _loop_label(x, head, body):
    """Stable label: callees invoked in the loop body (sorted), not block numbers."""
    names = sorted({short_callee(x.term(b).get('callee')) for b in body if x.term(b).get('k') == 'call'})
    return ','.join(n.split('::')[-1] for n in names)[:80]


def rule_recursion(ctx, rep):
    R = 'B2-PROGRESS/recursion'
    rep.rule(R, 'the recursion inventory (SCCs of the local call graph) equals the confirmed, bounded set')
    cg = callgraph(ctx)
    sccs = cg.sccs()
    import re as _re
    for comp in sccs:
        # closures belong to the function that contains them
        names = {_re.sub(r'(::\{closure#\d+\})+$', '', p).rsplit('::', 1)[-1] for p in comp}
        ok = any(names <= allowed for allowed in ALLOWED_SCC)
        ent = '+'.join(sorted(names))
        if ok and names <= {'next'}:
            # only the word-split iterator may recurse into itself
            ok = all('WordSplitIterator' in p for p in comp)
        if ok:
            rep.ok(R, ent, 'confirmed bounded recursion over %d bodies (pieces are strictly shorter / never splittable again)' % len(comp))
            continue
        if all(p.startswith(('lang::', '<lang::')) for p in comp) and any(n_ in ('apply', 'exec_group') for n_ in names):
            # helpers extracted from apply / exec_group take part in the same cycle: accept when the phrase tables, which
            # evaluate whole compounds through that cycle, all terminate within the machine's depth budget
            try:
                from . import phrases
                from .lexical import ALL_LANGS
                from ..spellers import spellings
                jobs = {l: [((n, 0), spellings(l, n)[0]) for n in (21, 121, 999, 21021, 999999) if spellings(l, n)] for l in ALL_LANGS}
                res = phrases.run_jobs(ctx, jobs)
                deep = [r for l in res for r in res[l].values() if r[0] == '?']
            except Exception as e:      # never turn an alarm into a pass by accident
                deep = [('?', repr(e))]
            if not deep:
                rep.ok(R, ent, 'BOUNDED: a cycle through %s; every compound / grouped spelling evaluated through it terminates' % sorted(names))
                continue
        rep.violation(R, ent, 'unexpected recursion cycle: %s' % comp[:6])
    if not sccs:
        rep.anchor(R, 'none', 'expected the apply/exec_group recursion; call graph found no cycle')
