"""B9 CASE-FLOW, B10 WS-API, B11 TOKENIZER-TILING, B12 REPLACE-CONSERVE."""
import re

from ..callees import WS_ASCII, WS_UNICODE
from ..mir import strip_generics
from ..mirx import X, pretty, short_callee, untag
from .scanner import q, _loc, FN, PARSER, TRACKER

SINKS = {  # callee (short) -> index of the word argument
    'LangInterpreter::apply': 1, 'LangInterpreter::apply_decimal': 1, 'LangInterpreter::is_linking': 1,
    'LangInterpreter::is_decimal_sep': 1, 'LangInterpreter::get_morph_marker': 1, 'WordToDigitParser::push': 1,
    'phf::set::Set::contains': 1, 'Set::contains': 1,
}
RAW = ('Token::text(',)
LOWER = ('Token::text_lowercase(', 'BasicAnnotate::text_lowercase(', 'str::to_lowercase(')


def _bodies(ctx, pred):
    return [p for p in sorted(ctx.facts.mir) if pred(p)]


def rule_case_flow(ctx, rep):
    R = 'B9-CASE-FLOW'
    rep.rule(R, 'no raw-case text (Token::text, &str parameters of the public API) reaches a vocabulary lookup; raw text only '
                'flows to case-blind uses; every text_lowercase accessor returns a field fed by to_lowercase()')
    f = ctx.facts
    n_sinks = 0
    for path in _bodies(ctx, lambda p: 'word_to_digit' in p or p.endswith('::basic_annotate')):
        qq = q(ctx, path)
        if qq is None:
            continue
        for bi, name, d, t in qq.all_calls():
            if name in SINKS and len(t['args']) > SINKS[name]:
                n_sinks += 1
                arg = untag(pretty(qq.x.desc_op(t['args'][SINKS[name]])))
                ent = '%s|%s' % (path, name)
                if any(r in arg for r in RAW) and not _lowered(arg):
                    rep.violation(R, ent, 'the word handed to %s is the raw token text `%s`: the lookup is case-sensitive, so '
                                  'upper-casing the input changes the result' % (name, arg), _loc(ctx, qq, bi))
                else:
                    rep.ok(R, ent + '|' + arg[:60], 'word argument `%s` is lower-cased text, a constant or a parameter whose callers are checked' % arg[:80], _loc(ctx, qq, bi))
            # raw text may only reach case-blind uses
            if any(r in d for r in RAW) and name not in ('Token::text',):
                if not _case_blind(name, d):
                    rep.violation(R, '%s|raw-use|%s' % (path, name), 'raw token text flows into `%s`, which is not a known case-blind use' % d[:120], _loc(ctx, qq, bi))
    rep.floor(R + '#sinks', n_sinks, 8, 'vocabulary-lookup call sites inspected')
    # comparisons of annotate passes against vocabulary literals use the lowercase accessor
    for path in _bodies(ctx, lambda p: p.endswith('::basic_annotate') and not p.startswith('<lang::Language')):
        qq = q(ctx, path)
        for bi, name, d, t in qq.all_calls():
            if name in ('PartialEq::eq', 'PartialEq::ne') and re.search(r'"[^"]*[a-zéèà\']+[^"]*"', d):
                ok = 'BasicAnnotate::text_lowercase(' in d or 'Token::text_lowercase(' in d
                rep.check(ok, R, '%s|literal-compare|%s' % (path, re.findall(r'"[^"]*"', d)[-1]),
                          'vocabulary literal compared with lowercase text', 'vocabulary literal compared with `%s`' % d[:100], _loc(ctx, qq, bi))
    # accessors: text_lowercase must return a field only ever assigned from to_lowercase()
    for path, m in f.mir.items():
        if path.endswith('::text_lowercase') and m['blocks']:
            qq = q(ctx, path)
            rets = [d for _b, _n, d, _t in qq.all_calls()]
            ok = rets == ['String::as_str(self.lowercase)']
            rep.check(ok, R, 'accessor|' + path, 'returns self.lowercase', 'text_lowercase returns %s' % rets)
    fed = []
    for path, m in f.mir.items():
        for bi, b in enumerate(m['blocks']):
            for s in b['stmts']:
                if s['k'] == 'assign' and s['rv']['k'] == 'agg' and s['rv'].get('adt') == 'tokenizer::BasicToken':
                    x = q(ctx, path).x
                    fields = s['rv'].get('fields', [])
                    vals = [untag(pretty(x.desc_op(o))) for o in s['rv']['ops']]
                    got = dict(zip(fields, vals))
                    fed.append(path)
                    rep.check(got.get('lowercase', '').startswith('str::to_lowercase('), R, 'lowercase-field|' + path,
                              'BasicToken.lowercase = %s' % got.get('lowercase'),
                              'BasicToken.lowercase is built from `%s`, not from to_lowercase()' % got.get('lowercase'), f.loc(s['sp']))
    rep.floor(R + '#ctors', len(fed), 2, 'BasicToken construction sites')
    # direct writes to the field
    for path, m in f.mir.items():
        qq = q(ctx, path)
        if qq is None:
            continue
        for s_ in qq.x.mut_analysis()['sites']:
            if untag(pretty(s_[5])).endswith('.lowercase'):
                rep.violation(R, 'lowercase-write|' + path, 'BasicToken.lowercase is modified after construction', None)


def _lowered(arg):
    # every occurrence of a raw source is wrapped by a lowering call
    tmp = arg
    for l in LOWER:
        tmp = tmp.replace(l, '\x00(')
    return not any(r in tmp.replace('\x00(Token::text(', '') for r in RAW) if 'str::to_lowercase(' in arg else False


def _case_blind(name, d):
    if name in ('PartialEq::eq', 'PartialEq::ne'):
        lits = re.findall(r'"([^"]*)"', d)
        return bool(lits) and all(not re.search(r'[A-Za-zÀ-ɏ]', l) for l in lits)
    if name in ('word_to_digit::is_whitespace', 'str::chars', 'str::trim', 'Iterator::all', 'str::len', 'str::is_empty',
                'Option::replace', 'FindNumbers::outside_number', 'Deref::deref', 'slice::join', 'ToOwned::to_owned',
                'Iterator::any', 'str::char_indices', 'str::trim_start', 'str::trim_end'):
        return True
    return False


# ---------------------------------------------------------------------------------------
def rule_ws_api(ctx, rep):
    R = 'B10-WS-API'
    rep.rule(R, 'no ASCII-only whitespace facility anywhere in the library; the whitespace classification sites resolve to '
                'the Unicode predicates')
    f = ctx.facts
    uni = []
    n = 0
    for path, m in sorted(f.mir.items()):
        for b in m['blocks']:
            if b.get('cleanup'):
                continue
            t = b.get('term') or {}
            ops = []
            if t.get('k') == 'call':
                n += 1
                c = strip_generics(t.get('resolved') or t.get('callee') or '')
                c0 = strip_generics(t.get('callee') or '')
                if c in WS_ASCII or c0 in WS_ASCII:
                    rep.violation(R, '%s|%s' % (path, c0.split('::')[-1]), 'ASCII-only whitespace test `%s`: no-break / typographic spaces '
                                  'are not treated as whitespace here' % c0, f.loc(t['sp']))
                if c0 in WS_UNICODE:
                    uni.append((path, c0))
                ops = list(t['args'])
                # split(' ') / trim_matches(' ') with a whitespace character literal
                if c0 in ('core::str::split', 'core::str::trim_matches', 'core::str::trim_start_matches', 'core::str::trim_end_matches',
                          'core::str::split_terminator', 'core::str::rsplit', 'core::str::splitn', 'core::str::split_once'):
                    for a in t['args'][1:]:
                        if a.get('k') == 'const' and a.get('ty') == 'char' and a.get('int') in (32, 9, 10, 13):
                            rep.violation(R, '%s|%s(ws-char)' % (path, c0.split('::')[-1]), '`%s` on the single whitespace character U+%04X: '
                                          'other whitespace is not recognised' % (c0, a['int']), f.loc(t['sp']))
            for s in b['stmts']:
                if s['k'] == 'assign':
                    rv = s['rv']
                    for key in ('op', 'a', 'b'):
                        if isinstance(rv.get(key), dict):
                            ops.append(rv[key])
                    ops.extend(rv.get('ops', []))
            for o in ops:
                if o.get('k') == 'const' and o.get('fn'):
                    fnp = strip_generics(o['fn'])
                    if fnp in WS_ASCII:
                        rep.violation(R, '%s|fn-item|%s' % (path, fnp.split('::')[-1]), 'ASCII-only whitespace predicate `%s` passed as a function' % fnp, f.loc(b['term']['sp']))
                    if fnp in WS_UNICODE:
                        uni.append((path, fnp))
    rep.ok(R, 'inventory', 'no ASCII-only whitespace facility among %d call sites' % n)



# ---------------------------------------------------------------------------------------
def rule_tokenizer_tiling(ctx, rep):
    R = 'B11-TOKENIZER-TILING'
    rep.rule(R, 'match_word / match_sep return the position bound by the latest peek() (no next() in between) or source.len(); '
                'Tokenize::next slices source[pos..end] unmodified; BasicToken stores the slice verbatim; both helpers classify '
                'with is_alphanumeric')
    f = ctx.facts
    for helper in ('match_word', 'match_sep'):
        qq = q(ctx, "tokenizer::Tokenize::<'a>::" + helper)
        if qq is None:
            rep.anchor(R, helper, 'not found')
            continue
        x = qq.x
        rets = qq.return_values()
        vals = sorted({v for _b, v in rets})
        ok_vals = vals == ['(Peekable::peek(self.chars) as Some).0.0', 'str::len(self.source)']
        rep.check(ok_vals, R, helper + '|return-values', 'returns the peeked position or source.len()',
                  '%s returns %s: a token boundary that is not a char_indices position (characters are lost or duplicated)' % (helper, vals),
                  f.loc(x.m['sp']))
        peeks = qq.calls('Peekable::peek', r'\(self\.chars\)$')
        nexts = qq.calls('Iterator::next', r'\(self\.chars\)$')
        ok = len(peeks) == 1
        for bi, v in rets:
            if v.startswith('(Peekable::peek'):
                # no next() between the peek and this return
                for nb in nexts:
                    if peeks and nb in qq.reachable(x.succ[peeks[0]], stop=peeks) and bi in qq.reachable(x.succ[nb], stop=peeks):
                        ok = False
            else:
                ok = ok and any('== None' in z for z in qq.facts(bi))
        rep.check(ok, R, helper + '|peek-then-return', 'the returned position is that of the un-consumed character',
                  '%s consumes a character between peek() and the return: that character belongs to no token' % helper)
        # the stop condition: a separator ends exactly at the next alphanumeric character (so it is a maximal
        # non-alphanumeric run); a word ends at the first character that is neither alphanumeric nor - nor '
        peeked = '(Peekable::peek(self.chars) as Some).0.1'
        for bi, v in rets:
            if not v.startswith('(Peekable::peek'):
                continue
            fs = set(qq.facts(bi)) - {'discr(Peekable::peek(self.chars)) == Some'}
            if helper == 'match_sep':
                want = {'methods::is_alphanumeric(%s)' % peeked}
            else:
                want = {'!methods::is_alphanumeric(%s)' % peeked, "('-' != %s)" % peeked, "('\\'' != %s)" % peeked}
            rep.check(fs == want, R, helper + '|stop-condition', 'stops exactly under %s' % sorted(want),
                      '%s stops under %s, expected exactly %s: token boundaries move (e.g. a separator no longer spans a whole '
                      'non-alphanumeric run)' % (helper, sorted(fs), sorted(want)))
    qn = q(ctx, "<tokenizer::Tokenize<'_> as core::iter::traits::iterator::Iterator>::next")
    if qn is None:
        rep.anchor(R, 'Tokenize::next', 'not found')
    else:
        idx = qn.calls('Index::index')
        ok = len(idx) == 1 and re.match(r'^Index::index\(self\.source, Range\(\(Iterator::next\(self\.chars\) as Some\)\.0\.0, \w+\)\)$', qn.desc(idx[0]) or '')
        rep.check(bool(ok), R, 'next|slice', 'token = source[pos..end] with pos from chars.next()', 'token slice is `%s`' % (qn.desc(idx[0]) if idx else None))
        x = qn.x
        ends = []
        if idx:
            rng = qn.term(idx[0])['args'][1]
            rl = rng['pl']['l'] if 'pl' in rng else None
            ds = x.whole_defs(rl) if rl is not None else []
            if len(ds) == 1 and ds[0][0] == 'assign' and ds[0][3]['rv']['k'] == 'agg' and len(ds[0][3]['rv']['ops']) == 2:
                e_op = ds[0][3]['rv']['ops'][1]
                el = e_op['pl']['l'] if 'pl' in e_op else None
                for _ in range(4):
                    dd = x.whole_defs(el) if el is not None else []
                    if len(dd) == 1 and dd[0][0] == 'assign' and dd[0][3]['rv']['k'] == 'use' and 'pl' in dd[0][3]['rv']['op'] and not dd[0][3]['rv']['op']['pl']['p']:
                        el = dd[0][3]['rv']['op']['pl']['l']
                    else:
                        break
                ends = sorted({short_callee(d[2].get('callee')) for d in (x.whole_defs(el) if el is not None else []) if d[0] == 'call'})
        rep.check(ends == ['Tokenize::match_sep', 'Tokenize::match_word'], R, 'next|end', 'the slice end is the helper\'s return value, unmodified',
                  'the slice end is defined by %s' % ends)
        mw = qn.calls('Tokenize::match_word')
        ms = qn.calls('Tokenize::match_sep')
        ok = len(mw) == 1 and len(ms) == 1 and any('is_alphanumeric' in z and not z.startswith('!') for z in qn.facts(mw[0])) and \
            any(z.startswith('!') and 'is_alphanumeric' in z for z in qn.facts(ms[0]))
        rep.check(ok, R, 'next|dispatch', 'word tokens start on an alphanumeric character, separator tokens otherwise (same predicate as match_sep stops on)',
                  'dispatch between match_word and match_sep is not on is_alphanumeric of the first character')
        nt = qn.calls('BasicToken::new')
        rep.check(len(nt) == 1 and 'Index::index(self.source' in (qn.desc(nt[0]) or ''), R, 'next|token', 'the slice is handed to BasicToken::new unchanged',
                  'BasicToken::new receives `%s`' % (qn.desc(nt[0]) if nt else None))
    qb = q(ctx, 'tokenizer::BasicToken::new')
    if qb is None:
        rep.anchor(R, 'BasicToken::new', 'not found')
    else:
        rets = [v for _b, v in qb.return_values()]
        rep.check(rets == ['BasicToken(ToOwned::to_owned(a1), str::to_lowercase(a1), false)'], R, 'BasicToken::new',
                  'text = the slice verbatim, lowercase = to_lowercase, nan = false', 'BasicToken::new builds %s' % rets)


def rule_replace_conserve(ctx, rep):
    R = 'B12-REPLACE-CONSERVE'
    rep.rule(R, 'spans are replaced by drain+insert in reverse order on the same vector, each drained token handed once to the '
                'constructor; the rewrite pipeline is tokenize -> annotate -> replace -> join(""); annotation passes cannot '
                'restructure the token vector')
    f = ctx.facts
    qq = q(ctx, TRACKER + 'replace')
    if qq is None:
        rep.anchor(R, 'replace', 'NumTracker::replace not found')
    else:
        it = 'Iterator::next(IntoIterator::into_iter(Iterator::rev(IntoIterator::into_iter(self.matches))))'
        occ = '(%s as Some).0' % it
        dr = qq.calls('Vec::drain')
        ins = qq.calls('Vec::insert')
        rp = qq.calls('Replace::replace')
        rep.check(bool(qq.calls('Iterator::rev')) and len(dr) == 1 and len(ins) == 1 and len(rp) == 1, R, 'reverse-order',
                  'occurrences are applied in reverse order (rev)', 'replacement loop is not `for .. in matches.into_iter().rev()` with one drain/insert')
        if dr and ins and rp:
            d_want = 'Vec::drain(a2, Range(%s.start, %s.end))' % (occ, occ)
            rep.check(qq.desc(dr[0]) == d_want, R, 'drain-span', 'drains exactly start..end of the occurrence', 'drain is `%s`' % qq.desc(dr[0])[:200])
            r_want = 'Replace::replace(%s, %s.text)' % (d_want, occ)
            rep.check(qq.desc(rp[0]) == r_want, R, 'constructor-args', 'the drained tokens and the occurrence text go to Replace::replace unchanged',
                      'Replace::replace receives `%s`' % qq.desc(rp[0])[:200])
            i_want = 'Vec::insert(a2, %s.start, %s)' % (occ, r_want)
            rep.check(qq.desc(ins[0]) == i_want, R, 'insert-at-start', 'the replacement is inserted at the occurrence start',
                      'insert is `%s`' % qq.desc(ins[0])[:200])
    qs = q(ctx, 'word_to_digit::replace_numbers_in_stream')
    if qs is None:
        rep.anchor(R, 'replace_numbers_in_stream', 'not found')
    else:
        calls = [d for _b, _n, d, _t in qs.all_calls()]
        want = ['Deref::deref(a1)', 'slice::iter(Deref::deref(a1))', 'word_to_digit::track_numbers(slice::iter(Deref::deref(a1)), a2, a3)',
                'NumTracker::replace(word_to_digit::track_numbers(slice::iter(Deref::deref(a1)), a2, a3), a1)']
        rets = [v for _b, v in qs.return_values()]
        rep.check(calls == want and rets == ['a1'], R, 'stream-pipeline', 'scan input.iter(), replace in the same input, return it',
                  'replace_numbers_in_stream is %s -> %s' % (calls, rets))
    qt = q(ctx, 'word_to_digit::replace_numbers_in_text', expand=False)
    if qt is None:
        rep.anchor(R, 'replace_numbers_in_text', 'not found')
    else:
        calls = [d for _b, _n, d, _t in qt.all_calls()]
        ok = (len(calls) == 6 and calls[0] == 'tokenizer::tokenize(a1)' and calls[1] == 'Iterator::collect(tokenizer::tokenize(a1))'
              and re.match(r'^LangInterpreter::basic_annotate\(a2, \w+\)$', calls[2])
              and re.match(r'^word_to_digit::replace_numbers_in_stream\(\w+, a2, a3\)$', calls[3])
              and calls[5].startswith('slice::join(') and calls[5].endswith(', "")'))
        rep.check(bool(ok), R, 'text-pipeline', 'tokenize -> basic_annotate -> replace_numbers_in_stream -> join("")',
                  'replace_numbers_in_text is %s' % calls)
    # annotation passes
    n = 0
    for path in sorted(f.mir):
        if not path.endswith('::basic_annotate') or path.startswith('<lang::Language') or path == 'lang::LangInterpreter::basic_annotate':
            continue
        qa = q(ctx, path)
        n += 1
        bad = []
        for s_ in qa.x.mut_analysis()['sites']:
            if untag(pretty(s_[5])) == 'a2':
                d = untag(pretty(s_[3]))
                if not d.startswith('BasicAnnotate::set_nan(IndexMut::index_mut(a2, '):
                    bad.append(d[:100])
        rep.check(not bad, R, 'annotate|' + path, 'the token vector is only read and marked through set_nan',
                  'the annotation pass modifies the token vector itself: %s' % bad, f.loc(qa.x.m['sp']))
    rep.floor(R + '#annotate', n, 2, 'annotation passes')
