"""Phrase-level rules: the validator path (exec_group -> apply -> the crate's own digit builder), interpreted from MIR
for generated standard spellings.  Everything is the code's own: the per-language apply, the provided exec_group, the
DigitString methods; only the compound splitter is a model (its patterns are captured from the constructor, the model
itself is validated against the splitting code by V-SPLIT).

Exhaustive for n below a bound (999 quick / 9 999 thorough, all seven languages) plus structural samples up to 10^9.
"""
import os

from ..facts import LANGS
from ..lexvm import LexVM
from ..peval import Builder, Unanalysable
from ..spellers import spellings
from ..vm import Iter
from .lexical import ALL_LANGS, lexicon, spell_ordinal

EXEC_GROUP = 'lang::LangInterpreter::exec_group'
_FACTS = None
_EV = {}


def _ev(lang):
    if lang not in _EV:
        _EV[lang] = LexVM(_FACTS, lang, real=True)
    return _EV[lang]


def validate(lang, tokens):
    """('Ok', text, marker, frozen) | ('Err', kind) | ('?', message)"""
    ev = _ev(lang)
    try:
        r = ev.call_fn(EXEC_GROUP, [ev.self_value, Iter(list(tokens))])
    except Unanalysable as e:
        return ('?', e.what)
    if r.ok:
        b = r.payload
        return ('Ok', '0' * b.leading_zeroes + b.digits.decode('latin-1'), b.marker.text if b.marker.kind != 'None' else None)
    return ('Err', r.payload)


def _work(job):
    lang, items = job
    out = []
    for key, tokens in items:
        out.append((key, validate(lang, tokens)))
    return lang, out


def run_jobs(ctx, jobs_by_lang):
    """{lang: [(key, tokens)]} -> {lang: {key: result}}, forked workers."""
    global _FACTS, _EV
    _FACTS = ctx.facts
    _EV = {}
    jobs = []
    for lang, items in jobs_by_lang.items():
        size = max(100, len(items) // 6 + 1)
        for i in range(0, len(items), size):
            jobs.append((lang, items[i:i + size]))
    n = min(os.cpu_count() or 1, 16)
    res = {}
    if n < 2 or os.environ.get('T2N_NO_FORK') or sum(len(j[1]) for j in jobs) < 400:
        parts = [_work(j) for j in jobs]
    else:
        import multiprocessing
        with multiprocessing.get_context('fork').Pool(n) as pool:
            parts = pool.map(_work, jobs, chunksize=1)
    for lang, out in parts:
        res.setdefault(lang, {}).update(out)
    return res


def numbers(ctx):
    if ctx.tier == 'thorough':
        ns = list(range(0, 10000))
    else:
        ns = list(range(0, 200)) + list(range(200, 1000, 7)) + [300, 400, 480, 500, 600, 700, 770, 800, 880, 890, 900, 990, 999]
    ns += [1000, 1001, 1005, 1010, 1021, 1100, 1101, 1200, 1234, 1999, 2000, 2001, 2005, 2100, 9999, 10000, 10001, 11000, 12345, 20000, 21000, 21021,
           70000, 80000, 80080, 99999, 100000, 100001, 100100, 101000, 123456, 200000, 700700, 999999]
    ns += list(range(1000, 100000, 997 if ctx.tier == 'thorough' else 4999))
    ns += [10 ** 6, 10 ** 6 + 1, 2 * 10 ** 6, 2 * 10 ** 6 + 5, 21 * 10 ** 6, 100 * 10 ** 6 + 100, 999 * 10 ** 6 + 999999, 1001000, 1200000, 5000021]
    return sorted(set(ns))


def rule_roundtrip(ctx, rep, langs=ALL_LANGS):
    R = 'A0-ROUNDTRIP'
    rep.rule(R, 'the validator path (provided exec_group, the language\'s apply, the crate\'s DigitString — all interpreted from MIR) turns the '
                'standard spelling of n, and its orthographic variants, into exactly the digits of n: every n below 1000 (10 000 thorough) and '
                'structural samples up to 10^9, in all seven languages')
    ns = numbers(ctx)
    jobs = {}
    for lang in langs:
        items = []
        for n in ns:
            for vi, toks in enumerate(spellings(lang, n)):
                items.append(((n, vi), toks))
        jobs[lang] = items

    def mk():
        return run_jobs(ctx, jobs)
    res = getattr(ctx, 'memo_disk', ctx.memo)(('phrases-roundtrip', ctx.tier, tuple(langs)), mk)
    total = 0
    for lang in langs:
        bad_std, bad_var, unk = [], [], []
        for (n, vi), toks in jobs[lang]:
            total += 1
            r = res[lang][(n, vi)]
            if r[0] == '?':
                unk.append((n, toks, r[1]))
            elif r != ('Ok', str(n), None):
                (bad_std if vi == 0 else bad_var).append((n, toks, r))
        if unk:
            rep.anchor(R, lang, 'cannot interpret the validator path on "%s": %s (%d phrases)' % (' '.join(unk[0][1]), unk[0][2], len(unk)))
            continue
        for what, bads in (('standard', bad_std), ('variant', bad_var)):
            # one instance per leading word pair of the failing phrases (a specific, stable identity for known findings)
            groups = {}
            for n, toks, r in bads:
                groups.setdefault(' '.join(toks[:2]), []).append((n, toks, r))
            for head, items in sorted(groups.items()):
                n, toks, r = items[0]
                rep.violation(R, '%s|%s|%s..' % (lang, what, head), 'the %s spelling "%s" of %d validates to %s, expected the digits %d (%d phrases starting with "%s" fail, e.g. %s)' % (
                    what, ' '.join(toks), n, r[:2], n, len(items), head, [x[0] for x in items[:6]]))
            if not bads:
                rep.ok(R, '%s|%s' % (lang, what), '%d numbers' % len(ns) if what == 'standard' else 'orthographic variants (hyphen / space, optional conjunction, regional forms)')
    rep.floor(R, total, 3000, 'phrases validated')


def rule_zeros_phrases(ctx, rep, langs=ALL_LANGS):
    R = 'A0-LEADING-ZEROS'
    rep.rule(R, 'k spoken zeros followed by the spelling of n validate to k zeros followed by the digits of n; a zero after a non-zero number is '
                'not accepted into it; a lone zero is 0')
    ns = [1, 2, 7, 10, 11, 15, 20, 21, 70, 80, 99, 100, 101, 121, 1000, 1001, 2005, 21000, 100000, 2 * 10 ** 6]
    jobs = {}
    for lang in langs:
        z = lexicon(lang)['zero'][0]
        items = [(('zero',), [z])]
        for n in ns:
            sp = spellings(lang, n)
            if not sp:
                continue
            for k in (1, 2, 3):
                items.append(((n, k), [z] * k + sp[0]))
            items.append((('after', n), sp[0] + [z]))
        jobs[lang] = items
    res = run_jobs(ctx, jobs)
    total = 0
    for lang in langs:
        bad = []
        for key, toks in jobs[lang]:
            total += 1
            r = res[lang][key]
            if r[0] == '?':
                rep.anchor(R, lang, 'cannot interpret "%s": %s' % (' '.join(toks), r[1]))
                bad = None
                break
            if key == ('zero',):
                ok = r == ('Ok', '0', None)
            elif key[0] == 'after':
                ok = r[0] == 'Err'
            else:
                ok = r == ('Ok', '0' * key[1] + str(key[0]), None)
            if not ok:
                bad.append((toks, r))
        if bad is None:
            continue
        rep.check(not bad, R, lang, 'zeros kept in front, refused behind', '"%s" validates to %s (%d phrases wrong)' % (
            (' '.join(bad[0][0]), bad[0][1][:2], len(bad)) if bad else ('', '', 0)))
    rep.floor(R, total, 400, 'phrases validated')


def _loose(lang, tokens):
    import unicodedata
    cj = lexicon(lang).get('conjunction')
    out = []
    for t in tokens:
        if t == cj:
            continue
        if lang == 'fr' and t in ('vingts', 'cents'):
            t = t[:-1]
        out.append(t)
    s_ = ''.join(out)
    if lang == 'it':
        s_ = ''.join(c for c in unicodedata.normalize('NFD', s_) if not unicodedata.combining(c))
    return s_


def rule_pairs(ctx, rep, langs=ALL_LANGS):
    R = 'A0-NO-FUSION'
    rep.rule(R, 'two numbers below 100 spelled one after the other (optionally with the conjunction between them) are accepted as ONE number only '
                'when the words are exactly the standard spelling of a number, and then with its digits; otherwise the phrase is rejected '
                '(the scanner then reports two numbers)')
    if ctx.tier == 'thorough':
        A = list(range(1, 100))
    else:
        A = [1, 2, 6, 7, 10, 11, 16, 17, 20, 21, 30, 60, 70, 71, 80, 90, 99]
    jobs = {}
    inverse = {}
    inv_loose = {}
    for lang in langs:
        inv = {}
        for n in range(0, 1000):       # two numbers below 100 cannot spell more than that
            for toks in spellings(lang, n):
                inv[tuple(t for tok in toks for t in tok.split('-'))] = n
        inverse[lang] = inv
        inv_loose[lang] = {_loose(lang, k): v for k, v in inv.items()}
        cj = lexicon(lang).get('conjunction')
        items = []
        for a in A:
            for b in A:
                sa, sb = spellings(lang, a)[0], spellings(lang, b)[0]
                items.append(((a, b, 0), sa + sb))
                if cj and lang not in ('de', 'nl'):
                    items.append(((a, b, 1), sa + [cj] + sb))
        jobs[lang] = items
    res = getattr(ctx, 'memo_disk', ctx.memo)(('phrases-pairs', ctx.tier, tuple(langs)), lambda: run_jobs(ctx, jobs))
    total = 0
    for lang in langs:
        bad = []
        unk = None
        for key, toks in jobs[lang]:
            total += 1
            r = res[lang][key]
            if r[0] == '?':
                unk = (toks, r[1])
                break
            if r[0] != 'Ok':
                continue
            flat = tuple(t for tok in toks for t in tok.split('-'))
            m = inverse[lang].get(flat)
            if m is None:
                # optional conjunction, compound vs split words, plural marks, accents: accepted variants of a spelling (C01)
                m = inv_loose[lang].get(_loose(lang, flat))
            if m is None or r[1] != str(m):
                bad.append((key, toks, r, m))
        if unk:
            rep.anchor(R, lang, 'cannot interpret "%s": %s' % (' '.join(unk[0]), unk[1]))
            continue
        if bad:
            key, toks, r, m = bad[0]
            rep.violation(R, lang, '"%s" (%d then %d) is accepted as the single number %s%s: two numbers said one after the other are fused (%d pairs, e.g. %s)' % (
                ' '.join(toks), key[0], key[1], r[1], '' if m is None else ' although those words spell %d' % m, len(bad), [b_[0][:2] for b_ in bad[:6]]))
        else:
            rep.ok(R, lang, '%d pairs: accepted only when the words spell one number' % len(jobs[lang]))
    rep.floor(R, total, 3000, 'pairs validated')


def rule_ordinal_roundtrip(ctx, rep, langs=ALL_LANGS):
    R = 'A0-ORDINALS'
    rep.rule(R, 'the validator path turns the standard spelling of the n-th ordinal into the digits of n, carries the language\'s ordinal marker '
                'for that form and refuses any further word (frozen): every n below 1000 (10 000 thorough) plus samples, for en, fr, de, nl, it '
                '(es / pt compose ordinals from several inflected words: covered word by word in A2)')
    from ..spellers import ordinal_spellings, en_ordinal_marker
    hi = 10000 if ctx.tier == 'thorough' else 400
    ns = sorted(set(list(range(1, hi)) + list(range(400, 1000, 9)) + [1000, 1001, 1021, 1100, 2000, 2003, 9999, 10000, 12345, 21000, 99999, 100000]))
    jobs = {}
    for lang in langs:
        items = []
        for n in ns:
            for vi, toks in enumerate(ordinal_spellings(lang, n)):
                items.append(((n, vi), toks))
        jobs[lang] = items
    res = getattr(ctx, 'memo_disk', ctx.memo)(('phrases-ordinals', ctx.tier, tuple(langs)), lambda: run_jobs(ctx, jobs))
    total = 0
    for lang in langs:
        lx = lexicon(lang)
        marks = {}
        for o in lx['ordinals']:
            marks.setdefault(o['w'], o['marker'])
        bad = {}
        unk = None
        for (n, vi), toks in jobs[lang]:
            total += 1
            r = res[lang][(n, vi)]
            if r[0] == '?':
                unk = (toks, r[1])
                break
            if lang == 'en':
                want_m = en_ordinal_marker(n)
            else:
                last = toks[-1].split('-')[-1]
                cands = [w for w in marks if last.endswith(w)]
                want_m = marks[max(cands, key=len)] if cands else None
            ok = r[0] == 'Ok' and r[1] == str(n) and r[2] is not None and (want_m is None or r[2] == want_m)
            if not ok:
                bad.setdefault('%dw|..%s' % (len(toks), ' '.join(toks)[-8:]), []).append((n, toks, r, want_m))
        if unk:
            rep.anchor(R, lang, 'cannot interpret "%s": %s' % (' '.join(unk[0]), unk[1]))
            continue
        for tail, items in sorted(bad.items()):
            n, toks, r, want_m = items[0]
            rep.violation(R, '%s|%s' % (lang, tail), 'the ordinal "%s" (rank %d) validates to %s, expected digits %d with the marker %s (%d spellings ending like this fail, e.g. %s)' % (
                ' '.join(toks), n, r, n, want_m, len(items), [x[0] for x in items[:6]]))
        if not bad:
            rep.ok(R, lang, '%d ranks' % len(ns))
    rep.floor(R, total, 2500, 'ordinal phrases validated')
