"""Tokenizer and text-level rewriting on the abstract machine (vm.py).

The tokenizer's behaviour depends on two things only: whether a char is alphanumeric / a word-internal mark, and how
many bytes it occupies (offset arithmetic).  One representative per (class, width) gives a finite alphabet; every
string over it up to a bounded length is tokenized by interpreting the MIR of tokenizer::tokenize.
"""
import itertools

from ..scanmodel import ScanEnv, Tok, Input
from ..vm import VM, Panic, Seq, Struct, Unsupported
from .scanvm import run_many, show, T, depth_for, FIND  # noqa: F401

# (class, bytes, case): alnum 1,2,3,4 bytes; word-internal marks; separators 1,2,3,4 bytes; upper-case letters whose lowercase has a different length
CHARS = ['a', '\u00e9', '\u4e2d', '\U0001d7d8', '-', "'", ' ', '\u00a0', '\u2009', '\U0001f600', 'B', '\ufeff',
         # letters whose lowercase form has another UTF-8 length (offsets computed on one form must not index the other)
         '\u0130', '\u1e9e', '\u212a']


def tokenize_vm(facts, text):
    vm = VM(facts, ScanEnv())
    it = vm.run('tokenizer::tokenize', [text])
    return vm.materialise(vm.deref(it)), vm


_FACTS = None


def _tok_work(chunk):
    out = []
    for text in chunk:
        try:
            toks, _vm = tokenize_vm(_FACTS, text)
            out.append((text, [(t.fields['text'], t.fields['lowercase'], t.fields['nan']) for t in toks], None))
        except Panic as e:
            out.append((text, None, 'panic: %s' % e))
        except Unsupported as e:
            out.append((text, None, 'unsupported: %s' % e))
    return out


def tokenize_all(ctx, depth):
    def mk():
        global _FACTS
        _FACTS = ctx.facts
        texts = [''.join(p) for n in range(0, depth + 1) for p in itertools.product(CHARS, repeat=n)]
        import multiprocessing
        import os
        jobs = min(os.cpu_count() or 1, 16)
        size = max(100, len(texts) // (jobs * 4))
        chunks = [texts[i:i + size] for i in range(0, len(texts), size)]
        res = {}
        if jobs < 2 or os.environ.get('T2N_NO_FORK'):
            for c in chunks:
                for text, toks, err in _tok_work(c):
                    res[text] = (toks, err)
        else:
            with multiprocessing.get_context('fork').Pool(jobs) as pool:
                for part in pool.imap_unordered(_tok_work, chunks):
                    for text, toks, err in part:
                        res[text] = (toks, err)
        return res
    return getattr(ctx, 'memo_disk', ctx.memo)(('tokenize-all', depth), mk)


def _is_word_char(c):
    return c.isalnum()


def rule_tokenizer(ctx, rep):
    R = 'V02-TOKENIZER'
    rep.rule(R, 'tokenizer::tokenize interpreted on every string (bounded length) over one representative per char class x UTF-8 width: '
                'the token texts concatenate to the input, no token is empty, a token starts with an alphanumeric char iff it is a word, '
                'separator tokens hold no alphanumeric char, consecutive tokens are never both separators, the lowercase form is the '
                'lowercased text, no token is born flagged; no slice leaves a char boundary')
    d = depth_for(ctx, 4, 5)
    res = tokenize_all(ctx, d)
    n = 0
    bad = {}
    for text, (toks, err) in res.items():
        n += 1
        if err:
            if err.startswith('unsupported'):
                rep.anchor(R, 'machine', 'cannot interpret the tokenizer on %r: %s' % (text, err))
                return
            bad.setdefault('no-panic', (text, err))
            continue
        if ''.join(t[0] for t in toks) != text:
            bad.setdefault('lossless', (text, toks))
        if any(not t[0] for t in toks):
            bad.setdefault('non-empty', (text, toks))
        for i, (tx, lo, nan) in enumerate(toks):
            if not tx:
                continue
            word = _is_word_char(tx[0])
            if not word and any(_is_word_char(c) for c in tx):
                bad.setdefault('separator-purity', (text, toks))
            if word and i + 1 < len(toks) and toks[i + 1][0] and _is_word_char(toks[i + 1][0][0]):
                bad.setdefault('word-maximal', (text, toks))
            if not word and i + 1 < len(toks) and toks[i + 1][0] and not _is_word_char(toks[i + 1][0][0]):
                bad.setdefault('separator-maximal', (text, toks))
            if lo != tx.lower():
                bad.setdefault('lowercase-form', (text, toks))
            if nan:
                bad.setdefault('born-unflagged', (text, toks))
    # C17: which white-space character stands somewhere never changes where the tokens are cut
    WS = (' ', '\u00a0', '\u2009')
    for text, (toks, err) in res.items():
        if err or not any(c in text for c in WS[1:]):
            continue
        canon = ''.join(' ' if c in WS else c for c in text)
        other = res.get(canon)
        if other is None or other[1]:
            continue
        if [len(t[0]) for t in toks] != [len(t[0]) for t in other[0]]:
            bad.setdefault('whitespace-invariant', (text, '%s, but %r -> %s' % (toks, canon, other[0])))
    msgs = {'no-panic': 'the tokenizer reaches a panic site', 'lossless': 'token texts do not concatenate to the input',
            'whitespace-invariant': 'the tokens are cut elsewhere when a white-space character is replaced by another one',
            'non-empty': 'an empty token is produced', 'separator-purity': 'a separator token contains an alphanumeric char',
            'word-maximal': 'two word tokens follow each other (a word is cut)', 'separator-maximal': 'two separator tokens follow each other',
            'lowercase-form': 'the lowercase form is not the lowercased text', 'born-unflagged': 'a token is created already flagged not-a-number'}
    for k, msg in msgs.items():
        if k in bad:
            text, what = bad[k]
            rep.violation(R, k, '%s: %r -> %s' % (msg, text, what))
        else:
            rep.ok(R, k, 'holds on %d strings' % n)
    rep.floor(R, n, 54000, 'strings tokenized')


# ---------------------------------------------------------------------------------------------------------
WORDS = ['one', 'twenty', 'first', 'the', 'and', 'One']
SEPS = [' ', ', ', '-', '\u200b', '\u00a0\t', '\ufeff ', '\r\n', '\n']     # line ends included: a line-wise rewrite must keep CR LF


def _text_work(job):
    th, chunk = job
    out = []
    for text in chunk:
        try:
            env = ScanEnv()
            vm = VM(_FACTS, env)
            got = vm.run('word_to_digit::replace_numbers_in_text', [text, env.lang, th])
            toks, _ = tokenize_vm(_FACTS, text)
            env2 = ScanEnv()
            vm2 = VM(_FACTS, env2)
            atoks = []
            for i, t in enumerate(toks):
                tk = Tok(t.fields['text'], nan=t.fields['nan'], lower=t.fields['lowercase'])
                tk.pos = i
                atoks.append(tk)
            occs = vm2.run(FIND, [Input(atoks, env2), env2.lang, th])
            spans = [(o.fields['start'], o.fields['end'], o.fields['text']) for o in occs.items]
            want = []
            i = 0
            for s_, e_, tx in spans:
                want.extend(t.text for t in atoks[i:s_])
                want.append(tx)
                i = e_
            want.extend(t.text for t in atoks[i:])
            out.append((text, vm.deref(got), ''.join(want), bool(spans), None))
        except Panic as e:
            out.append((text, None, None, None, 'panic: %s' % e))
        except Unsupported as e:
            out.append((text, None, None, None, 'unsupported: %s' % e))
    return out


def rule_text_rewrite(ctx, rep):
    R = 'V02-TEXT-REWRITE'
    rep.rule(R, 'replace_numbers_in_text interpreted on texts composed of word classes and separator classes (incl. zero-width and no-break '
                'spaces): the result is the tokenizer\'s tokens joined back with exactly the occurrences find_numbers reports on those tokens '
                'replaced by their digit text; a text without number word is returned identical')
    global _FACTS
    _FACTS = ctx.facts
    texts = set()
    nw = depth_for(ctx, 3, 3)
    for n in range(0, nw + 1):
        wl, sl = (WORDS, SEPS) if n <= 2 or ctx.tier == 'thorough' else (WORDS[:2] + WORDS[3:4], SEPS[:2] + SEPS[3:4] + SEPS[5:6])
        for ws in itertools.product(wl, repeat=n):
            for ss in itertools.product(sl, repeat=max(0, n - 1)):
                body = ''.join(w + (ss[i] if i < len(ss) else '') for i, w in enumerate(ws))
                texts.add(body)
                if n <= 2:
                    for lead in ('', ' ', '\u200b'):
                        for trail in ('', '.', ' \n'):
                            texts.add(lead + body + trail)
    texts = sorted(texts)
    res = getattr(ctx, 'memo_disk', ctx.memo)(('text-rewrite', ctx.tier), lambda: _rewrite_all(texts))
    _finish_text(rep, R, res, texts)


def _rewrite_all(texts):
    import multiprocessing
    import os
    jobs = min(os.cpu_count() or 1, 16)
    res = []
    for th in (0.0, 10.0):
        size = max(50, len(texts) // (jobs * 4))
        chunks = [(th, texts[i:i + size]) for i in range(0, len(texts), size)]
        if jobs < 2 or os.environ.get('T2N_NO_FORK'):
            for c in chunks:
                res.extend((th,) + r for r in _text_work(c))
        else:
            with multiprocessing.get_context('fork').Pool(jobs) as pool:
                for part in pool.imap_unordered(_text_work, chunks):
                    res.extend((th,) + r for r in part)
    return res


def _finish_text(rep, R, res, texts):
    bad_eq, bad_id, bad_panic = [], [], []
    for th, text, got, want, has_num, err in res:
        if err:
            if err.startswith('unsupported'):
                rep.anchor(R, 'machine', 'cannot interpret replace_numbers_in_text on %r: %s' % (text, err))
                return
            bad_panic.append((th, text, err))
            continue
        if got != want:
            bad_eq.append((th, text, got, want))
        if not has_num and got != text:
            bad_id.append((th, text, got))
    rep.check(not bad_eq, R, 'composition', 'rewriting = tokens joined with the reported occurrences replaced (%d texts x 2 thresholds)' % len(texts),
              'threshold %s: %r is rewritten as %r, tokens + occurrences give %r (%d texts)' % (bad_eq[0] + (len(bad_eq),) if bad_eq else (0, '', '', '', 0)))
    rep.check(not bad_id, R, 'no-number-identical', 'texts without a number are returned identical',
              'threshold %s: %r contains no number but is returned as %r' % (bad_id[0] if bad_id else (0, '', '')))
    rep.check(not bad_panic, R, 'no-panic', 'no panic site reached', 'threshold %s: %r: %s' % (bad_panic[0] if bad_panic else (0, '', '')))
    rep.floor(R, len(res), 4000, 'texts rewritten')
    rep.info(R, 'inventory', '%d texts' % len(texts))


# ---------------------------------------------------------------------------------------------------------
class _Match:
    def __init__(self, s, e, v):
        self.s, self.e, self.v = s, e, v


class _Engine:
    def __init__(self, patterns):
        self.patterns = patterns


class SplitEnv:
    """daachorse behind WordSplitter: leftmost-longest, non-overlapping matches (byte offsets)."""

    def call(self, vm, name, callee, resolved, args, t):
        from ..armtable import Splitter
        from ..vm import Iter, Enum
        d = vm.deref
        a0 = d(args[0]) if args else None
        last = name.split('::')[-1]
        if name.endswith('Builder::new') and 'DoubleArrayAhoCorasick' in (callee or ''):
            return _Engine(None)
        if isinstance(a0, _Engine):
            if last == 'match_kind':
                return a0
            if last == 'build':
                pats = d(args[1])
                items = pats.rest() if isinstance(pats, Iter) else list(pats.items)
                pats = [vm.as_text(x) for x in items]
                if not all(pats) or len(set(pats)) != len(pats):
                    return Enum('core::result::Result', 'Err', ['DaachorseError'])
                return Enum('core::result::Result', 'Ok', [_Engine(pats)])
            if last == 'leftmost_find_iter':
                word = vm.as_text(args[1])
                out = []
                for (cs, ce) in Splitter(a0.patterns).matches(word):
                    out.append(_Match(len(word[:cs].encode('utf-8')), len(word[:ce].encode('utf-8')), a0.patterns.index(word[cs:ce])))
                return Iter(out)
        if isinstance(a0, _Match) and last in ('start', 'end', 'value'):
            return {'start': a0.s, 'end': a0.e, 'value': a0.v}[last]
        return NotImplemented


SPLIT_PATTERNS = ['ab', 'abc', 'é', 'zz']
SPLIT_CHARS = ['a', 'b', 'c', 'é', 'z', 'x']


def _split_work(chunk):
    from ..vm import Ref
    out = []
    vm = VM(_FACTS, SplitEnv())
    try:
        ws = vm.run('tokenizer::WordSplitter::new', [Seq(list(SPLIT_PATTERNS))])
        ws = vm.deref(ws.payload[0])
        vm.heap['ws'] = ws
    except (Unsupported, Panic) as e:
        return [(w, None, None, 'unsupported: %s' % e) for w in chunk]
    for w in chunk:
        try:
            it = vm.run('tokenizer::WordSplitter::split', [Ref('heap', 'ws'), w])
            pieces = vm.materialise(vm.deref(it))
            sp = vm.run('tokenizer::WordSplitter::is_splittable', [Ref('heap', 'ws'), w])
            out.append((w, [vm.deref(p) for p in pieces], bool(sp), None))
        except Panic as e:
            out.append((w, None, None, 'panic: %s' % e))
        except Unsupported as e:
            out.append((w, None, None, 'unsupported: %s' % e))
    return out


def split_all(ctx, depth):
    def mk():
        global _FACTS
        _FACTS = ctx.facts
        words = [''.join(p) for n in range(0, depth + 1) for p in itertools.product(SPLIT_CHARS, repeat=n)]
        import multiprocessing
        import os
        jobs = min(os.cpu_count() or 1, 16)
        size = max(200, len(words) // (jobs * 2))
        chunks = [words[i:i + size] for i in range(0, len(words), size)]
        res = []
        if jobs < 2 or os.environ.get('T2N_NO_FORK'):
            for c in chunks:
                res.extend(_split_work(c))
        else:
            with multiprocessing.get_context('fork').Pool(jobs) as pool:
                for part in pool.imap_unordered(_split_work, chunks):
                    res.extend(part)
        return res
    return getattr(ctx, 'memo_disk', ctx.memo)(('split-all', depth), mk)


def rule_word_splitter(ctx, rep):
    R = 'V-SPLIT'
    rep.rule(R, 'WordSplitter::split / is_splittable interpreted (the automaton behind them modelled as leftmost-longest matching) on every word '
                'up to length 5 over an alphabet with overlapping and multi-byte patterns: the pieces concatenate to the word, none is empty, they '
                'are exactly the leftmost-longest pattern matches and the text between them; is_splittable is true iff there is a match that is '
                'not the whole word; no slice leaves a char boundary — this is also what validates the splitter model used by the lexical rules')
    from ..armtable import Splitter
    d = depth_for(ctx, 5, 6)
    res = split_all(ctx, d)
    model = Splitter(SPLIT_PATTERNS)
    bad = {}
    n = 0
    for w, pieces, splittable, err in res:
        n += 1
        if err:
            if err.startswith('unsupported'):
                rep.anchor(R, 'machine', 'cannot interpret the word splitter on %r: %s' % (w, err))
                return
            bad.setdefault('no-panic', (w, err))
            continue
        if ''.join(pieces) != w:
            bad.setdefault('lossless', (w, pieces))
        if any(not p for p in pieces):
            bad.setdefault('non-empty', (w, pieces))
        if pieces != model.split(w):
            bad.setdefault('leftmost-longest', (w, '%s, expected %s' % (pieces, model.split(w))))
        if splittable != model.is_splittable(w):
            bad.setdefault('is-splittable', (w, '%s, expected %s' % (splittable, model.is_splittable(w))))
    for k, msg in (('no-panic', 'no panic site reached'), ('lossless', 'pieces concatenate to the word'), ('non-empty', 'no empty piece'),
                   ('leftmost-longest', 'pieces = leftmost-longest matches and the text between them'), ('is-splittable', 'is_splittable = a match that is not the whole word')):
        if k in bad:
            rep.violation(R, k, '%s fails on %r: %s' % (msg, bad[k][0], bad[k][1]))
        else:
            rep.ok(R, k, '%s (%d words)' % (msg, n))
    rep.floor(R, n, 9000, 'words split')
