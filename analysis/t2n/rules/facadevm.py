"""C-ISO decided on the abstract machine: get_interpreter_for is interpreted with a symbolic code that supports one
operation only — comparison with a string literal.  The literals it is compared with, plus one string different
from all of them, form the complete case table of the function."""
from ..vm import VM, Enum, Panic, Struct, Unsupported
from .facade import CTOR_OF_LANG, ISO, ISO_ALIASES


class SymStr:
    def __init__(self, value):
        self.value = value

    def __repr__(self):
        return 'code'


class IsoEnv:
    def __init__(self):
        self.literals = []

    def call(self, vm, name, callee, resolved, args, t):
        vals = [vm.deref(a) for a in args]
        if any(isinstance(v, SymStr) for v in vals):
            if name in ('PartialEq::eq', 'PartialEq::ne') and len(vals) == 2:
                other = vals[1] if isinstance(vals[0], SymStr) else vals[0]
                sym = vals[0] if isinstance(vals[0], SymStr) else vals[1]
                if isinstance(other, str):
                    self.literals.append(other)
                    return (sym.value == other) == name.endswith('eq')
            if vm.is_local(resolved or callee):
                return NotImplemented          # a crate-local helper: interpreted, the code stays symbolic inside
            raise Unsupported('the language code is passed to %s before / instead of being compared with the code literals' % name)
        if name == 'WordSplitter::new':
            return Enum('core::result::Result', 'Ok', [Struct('WordSplitter', {})])
        return NotImplemented


def _run(facts, value):
    env = IsoEnv()
    vm = VM(facts, env)
    r = vm.run('get_interpreter_for', [SymStr(value)])
    return r, env.literals


class _ConcreteEnv:
    def call(self, vm, name, callee, resolved, args, t):
        if name == 'WordSplitter::new':
            return Enum('core::result::Result', 'Ok', [Struct('WordSplitter', {})])
        return NotImplemented


def iso_probes(facts):
    """Concrete strings for the bounded form of C-ISO: every string literal of the crate root (the code table, wherever the lookup
    keeps it), every string of at most two lower-case letters, and the usual near-misses of each code."""
    import re
    import string
    lits = set()
    for path, m in facts.mir.items():
        if path.split('::')[0] in ('lang', 'digit_string', 'tokenizer', 'word_to_digit', 'error') or path.startswith('<'):
            continue
        for mm in re.finditer(r'"s": "(?:const )?\\"((?:[^"\\]|\\\\.)*?)\\""', __import__('json').dumps(m)):
            if len(mm.group(1)) <= 12:
                lits.add(mm.group(1))
    probes = set(lits) | {''} | set(string.ascii_lowercase) | {a + b for a in string.ascii_lowercase for b in string.ascii_lowercase}
    for c in list(ISO) + list(ISO_ALIASES):
        probes |= {c.upper(), c.capitalize(), ' ' + c, c + ' ', c + '\n', c + '-' + c.upper(), c + '_' + c.upper(), c + 'x', 'x' + c, c + c, c[:1], c[::-1]}
    probes |= {'english', 'french', 'deutsch', 'german', 'español', '0', '42', '12', 'e1', 'xx', 'zz', 'zzz', 'aaa', 'qwertyuiopasdfghjklzxcvbnm' * 3, 'é', 'ß', '\x00'}
    return sorted(probes), sorted(lits)


def iso_table(ctx):
    """{probe: ('ok', result) | ('panic'|'unsupported', text)} of get_interpreter_for on concrete strings."""
    def mk():
        f = ctx.facts
        probes, lits = iso_probes(f)
        out = {}
        for c in probes:
            vm = VM(f, _ConcreteEnv())
            try:
                out[c] = ('ok', vm.run('get_interpreter_for', [c]))
            except Panic as e:
                out[c] = ('panic', str(e))
            except Unsupported as e:
                out[c] = ('unsupported', str(e))
        return out, lits
    return ctx.memo(('iso-table',), mk)


def _iso_bounded(ctx, rep, R, why):
    tb, lits = iso_table(ctx)
    bad = sorted(c for c, r in tb.items() if r[0] == 'unsupported')
    if bad:
        rep.anchor(R, 'machine', 'cannot interpret get_interpreter_for: %s; nor on concrete strings: %r: %s' % (why, bad[0], tb[bad[0]][1]))
        return
    n = 0
    for code, (k, r) in sorted(tb.items()):
        n += 1
        if k == 'panic':
            rep.violation(R, 'panic|' + code, 'get_interpreter_for(%r) panics: %s' % (code, r))
            continue
        got = vm_variant(r.payload[0]) if isinstance(r, Enum) and r.variant == 'Some' else None
        if code in ISO:
            want = CTOR_OF_LANG[ISO[code]]
            rep.check(got == (want, want), R, code, 'BOUNDED: "%s" => Some(Language::%s(%s))' % (code, want, want),
                      'get_interpreter_for("%s") is %s, expected Some(Language::%s(%s::default()))' % (code, 'None' if got is None else 'Language::%s(%s)' % got, want, want))
        elif got is None:
            continue
        elif ISO_ALIASES.get(code) and got == (CTOR_OF_LANG[ISO_ALIASES[code]],) * 2:
            rep.info(R, 'alias|' + code, 'ISO 639-2 alias of the same language')
        else:
            rep.violation(R, 'extra|' + code, '%r is not an ISO 639-1 code of a built-in language but resolves to Language::%s' % (code, got[0]))
    rep.ok(R, 'default', 'BOUNDED: the lookup does more than compare the code with literals (%s); interpreted on %d concrete strings (all strings of '
                         'at most two lower-case letters, the %d string literals of the crate root, case / whitespace / region / prefix variants of '
                         'each code, digits, gibberish): only the seven codes resolve' % (why, n, len(lits)))


def rule_iso_vm(ctx, rep):
    R = 'C-ISO'
    rep.rule(R, 'get_interpreter_for interpreted with a symbolic code that can only be compared with literals: the complete case table (every '
                'literal it is compared with + a string equal to none) maps de,en,es,fr,it,nl,pt to exactly their languages and everything '
                'else to None; the code reaches no other operation (no case folding, trimming, prefix test)')
    f = ctx.facts
    if f.mir_body('get_interpreter_for') is None:
        rep.anchor(R, 'fn', 'get_interpreter_for not found')
        return
    try:
        r, lits = _run(f, '\x00 no language code \x00')
        for code in sorted(set(lits) | set(ISO)):
            _run(f, code)
    except (Unsupported, Panic) as e:
        _iso_bounded(ctx, rep, R, str(e))
        return
    rep.check(isinstance(r, Enum) and r.variant == 'None', R, 'default', 'a string equal to none of the literals gives None',
              'a string that is no language code resolves to %r' % (r,))
    seen = set(lits)
    for code in sorted(seen | set(ISO)):
        try:
            r, l2 = _run(f, code)
        except (Unsupported, Panic) as e:
            rep.anchor(R, code, 'cannot interpret get_interpreter_for("%s"): %s' % (code, e))
            continue
        got = None
        if isinstance(r, Enum) and r.variant == 'Some':
            lang = vm_variant(r.payload[0])
            got = lang
        if code in ISO:
            want = CTOR_OF_LANG[ISO[code]]
            rep.check(got == (want, want), R, code, '"%s" => Some(Language::%s(%s))' % (code, want, want),
                      'get_interpreter_for("%s") is %s, expected Some(Language::%s(%s::default()))' % (code, 'None' if got is None else 'Language::%s(%s)' % got, want, want))
        elif got is None:
            rep.ok(R, 'extra|' + code, 'compared with, resolves to None')
        elif ISO_ALIASES.get(code) and got == (CTOR_OF_LANG[ISO_ALIASES[code]],) * 2:
            rep.info(R, 'alias|' + code, 'ISO 639-2 alias of the same language')
        else:
            rep.violation(R, 'extra|' + code, '"%s" is not an ISO 639-1 code of a built-in language but resolves to Language::%s' % (code, got[0]))


def vm_variant(v):
    if isinstance(v, Enum):
        inner = v.payload[0] if v.payload else None
        return (v.variant, inner.name if isinstance(inner, Struct) else repr(inner))
    return (repr(v), '')


# ---------------------------------------------------------------------------------------------------------
from ..facts import LANGS, TRAIT, interp_ty  # noqa: E402
from .facade import FACADE, TYPE_OF_VARIANT  # noqa: E402


class _Tok:
    """An opaque argument: only its identity matters."""

    def __init__(self, name):
        self.name = name

    def __repr__(self):
        return '<%s>' % self.name


class _DelegEnv:
    def __init__(self, variants):
        self.variants = variants
        self.calls = []
        self.result = _Tok('result')

    def call(self, vm, name, callee, resolved, args, t):
        if args and name.startswith('LangInterpreter::'):
            recv = vm.deref(args[0])
            if isinstance(recv, Struct) and recv.name in self.variants:
                self.calls.append((recv.name, name.split('::')[-1], [vm.deref(a) for a in args[1:]]))
                return self.result
        return NotImplemented


def rule_delegation_vm(ctx, rep):
    f = ctx.facts
    R = 'C-DELEGATION'
    rep.rule(R, 'every trait method a concrete interpreter defines is defined by the facade; interpreted on the abstract machine for each '
                '(method, variant) with opaque arguments, the facade makes exactly one call — the same-named method of that variant\'s '
                'interpreter with its own arguments, in order — and returns that call\'s result unchanged')
    trait = next((t for t in f.items['traits'] if t['path'] == TRAIT), None)
    if not trait:
        rep.anchor(R, 'trait', 'trait %s not found' % TRAIT)
        return
    methods = {i['name']: i for i in trait['items'] if i['kind'] == 'Fn'}
    required = {n for n, i in methods.items() if not i['has_default']}
    overridden = set()
    concrete, facade_impl = {}, None
    for imp in f.items['impls']:
        if imp.get('trait') != TRAIT:
            continue
        if imp['self_ty'] == FACADE:
            facade_impl = imp
        else:
            concrete[imp['self_ty']] = imp
            for it in imp['items']:
                if it['name'] in methods and methods[it['name']]['has_default']:
                    overridden.add(it['name'])
    for v, t in TYPE_OF_VARIANT.items():
        if t not in concrete:
            rep.anchor(R, 'impl|' + t, 'no `impl LangInterpreter for %s` found' % t)
    lang_adt = f.adts.get(FACADE)
    if not facade_impl or not lang_adt:
        rep.anchor(R, 'facade', 'enum Language or its `impl LangInterpreter` not found')
        return
    variants = {}
    for v in lang_adt['variants']:
        if len(v['fields']) != 1:
            rep.violation(R, 'variant|' + v['name'], 'variant does not wrap exactly one interpreter', lang_adt['sp'])
            continue
        variants[v['name']] = v['fields'][0]['ty']
    for v, t in TYPE_OF_VARIANT.items():
        rep.check(variants.get(v) == t, R, 'variant-payload|' + v, 'Language::%s wraps %s' % (v, t),
                  'Language::%s wraps %s, expected %s' % (v, variants.get(v), t), f.loc(lang_adt['sp']))
    facade_items = {i['name'] for i in facade_impl['items']}
    n = 0
    for m in sorted(required | overridden):
        if m not in facade_items:
            rep.violation(R, 'method|' + m, 'the facade does not define `%s`, which %s; facade users get the default body instead of the '
                          'language\'s own' % (m, 'is required' if m in required else 'some concrete interpreter overrides'), f.loc(facade_impl['sp']))
            continue
        path = '<%s as %s>::%s' % (FACADE, TRAIT, m)
        body = f.mir_body(path)
        if body is None:
            rep.anchor(R, 'method|' + m, 'no MIR for ' + path)
            continue
        for v, ty in variants.items():
            ent = '%s|%s' % (m, v)
            tyname = ty.split('::')[-1]
            env = _DelegEnv({tyname})
            vm = VM(f, env)
            args = [_Tok('arg%d' % i) for i in range(1, body['arg_count'])]
            try:
                r = vm.run(body, [Enum(FACADE, v, [Struct(tyname, {})])] + args)
            except (Unsupported, Panic) as e:
                rep.anchor(R, ent, 'cannot interpret the facade method: %s' % e)
                continue
            n += 1
            r = vm.deref(r)
            problems = []
            if len(env.calls) != 1:
                problems.append('%d calls to the interpreter (%s)' % (len(env.calls), [c[1] for c in env.calls]))
            else:
                who, what, got = env.calls[0]
                if what != m:
                    problems.append('calls `%s` instead of `%s`' % (what, m))
                if len(got) != len(args) or any(a is not b for a, b in zip(got, args)):
                    problems.append('passes %s, expected its own arguments %s' % (got, args))
                if r is not env.result:
                    problems.append('returns %r, not the result of the delegated call' % (r,))
            rep.check(not problems, R, ent, 'Language::%s(l).%s(..) == l.%s(..)' % (v, m, m), 'Language::%s: %s' % (v, '; '.join(problems)), f.loc(body['sp']))
    rep.floor(R, n, 56, 'delegation obligations (methods x variants)')
    # the provided exec_group reaches the language only through trait methods of self (so facade == concrete there too)
    eg = f.mir_body(TRAIT + '::exec_group')
    if eg is None:
        rep.anchor(R, 'exec_group', 'provided method exec_group not found')


def rule_constructors_vm(ctx, rep):
    f = ctx.facts
    R = 'C-CTOR'
    rep.rule(R, 'Language::x(), interpreted, is variant X holding the same value as <X as Default>::default(); X::new() gives that value too')
    n = 0
    for ctor, variant in CTOR_OF_LANG.items():
        ent = 'Language::' + ctor
        ty = TYPE_OF_VARIANT[variant]
        try:
            got = VM(f, IsoEnv()).run('%s::%s' % (FACADE, ctor), [])
            dflt = VM(f, IsoEnv()).run('<%s as core::default::Default>::default' % ty, [])
        except (Unsupported, Panic) as e:
            rep.anchor(R, ent, 'cannot interpret the constructor: %s' % e)
            continue
        n += 1
        ok = isinstance(got, Enum) and got.variant == variant and got.payload and got.payload[0] == dflt and isinstance(dflt, Struct) and dflt.name == variant
        rep.check(ok, R, ent, 'returns Language::%s(%s::default())' % (variant, variant), 'returns %r, expected Language::%s(%r)' % (got, variant, dflt))
    for lang, tyname in LANGS.items():
        t = interp_ty(lang)
        if f.mir_body(t + '::new') is None:
            rep.info(R, tyname + '::new', 'no inherent new()')
            continue
        try:
            a = VM(f, IsoEnv()).run(t + '::new', [])
            b = VM(f, IsoEnv()).run('<%s as core::default::Default>::default' % t, [])
        except (Unsupported, Panic) as e:
            rep.anchor(R, tyname + '::new', 'cannot interpret: %s' % e)
            continue
        n += 1
        rep.check(a == b, R, tyname + '::new', 'is Default::default()', 'new() gives %r, default() gives %r' % (a, b))
    rep.floor(R, n, 14, 'constructor obligations')
