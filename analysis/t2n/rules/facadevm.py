"""C-ISO decided on the abstract machine: get_interpreter_for is interpreted with a symbolic code that supports one
operation only — comparison with a string literal.  The literals it is compared with, plus one string different
from all of them, form the complete case table of the function."""
from ..vm import VM, Enum, Panic, Struct, Unsupported
from .facade import CTOR_OF_LANG, ISO, ISO_ALIASES


class SymStr:
    def __init__(self, value):
        self.value = value

    def __repr__(self):
        return 'code'


class IsoEnv:
    def __init__(self):
        self.literals = []

    def call(self, vm, name, callee, resolved, args, t):
        vals = [vm.deref(a) for a in args]
        if any(isinstance(v, SymStr) for v in vals):
            if name in ('PartialEq::eq', 'PartialEq::ne') and len(vals) == 2:
                other = vals[1] if isinstance(vals[0], SymStr) else vals[0]
                sym = vals[0] if isinstance(vals[0], SymStr) else vals[1]
                if isinstance(other, str):
                    self.literals.append(other)
                    return (sym.value == other) == name.endswith('eq')
            if vm.is_local(resolved or callee):
                return NotImplemented          # a crate-local helper: interpreted, the code stays symbolic inside
            raise Unsupported('the language code is passed to %s before / instead of being compared with the code literals' % name)
        if name == 'WordSplitter::new':
            return Enum('core::result::Result', 'Ok', [Struct('WordSplitter', {})])
        return NotImplemented


def _run(facts, value):
    env = IsoEnv()
    vm = VM(facts, env)
    r = vm.run('get_interpreter_for', [SymStr(value)])
    return r, env.literals


def rule_iso_vm(ctx, rep):
    R = 'C-ISO'
    rep.rule(R, 'get_interpreter_for interpreted with a symbolic code that can only be compared with literals: the complete case table (every '
                'literal it is compared with + a string equal to none) maps de,en,es,fr,it,nl,pt to exactly their languages and everything '
                'else to None; the code reaches no other operation (no case folding, trimming, prefix test)')
    f = ctx.facts
    if f.mir_body('get_interpreter_for') is None:
        rep.anchor(R, 'fn', 'get_interpreter_for not found')
        return
    try:
        r, lits = _run(f, '\x00 no language code \x00')
    except (Unsupported, Panic) as e:
        rep.anchor(R, 'machine', 'cannot interpret get_interpreter_for: %s' % e)
        return
    rep.check(isinstance(r, Enum) and r.variant == 'None', R, 'default', 'a string equal to none of the literals gives None',
              'a string that is no language code resolves to %r' % (r,))
    seen = set(lits)
    for code in sorted(seen | set(ISO)):
        try:
            r, l2 = _run(f, code)
        except (Unsupported, Panic) as e:
            rep.anchor(R, code, 'cannot interpret get_interpreter_for("%s"): %s' % (code, e))
            continue
        got = None
        if isinstance(r, Enum) and r.variant == 'Some':
            lang = vm_variant(r.payload[0])
            got = lang
        if code in ISO:
            want = CTOR_OF_LANG[ISO[code]]
            rep.check(got == (want, want), R, code, '"%s" => Some(Language::%s(%s))' % (code, want, want),
                      'get_interpreter_for("%s") is %s, expected Some(Language::%s(%s::default()))' % (code, 'None' if got is None else 'Language::%s(%s)' % got, want, want))
        elif got is None:
            rep.ok(R, 'extra|' + code, 'compared with, resolves to None')
        elif ISO_ALIASES.get(code) and got == (CTOR_OF_LANG[ISO_ALIASES[code]],) * 2:
            rep.info(R, 'alias|' + code, 'ISO 639-2 alias of the same language')
        else:
            rep.violation(R, 'extra|' + code, '"%s" is not an ISO 639-1 code of a built-in language but resolves to Language::%s' % (code, got[0]))


def vm_variant(v):
    if isinstance(v, Enum):
        inner = v.payload[0] if v.payload else None
        return (v.variant, inner.name if isinstance(inner, Struct) else repr(inner))
    return (repr(v), '')
