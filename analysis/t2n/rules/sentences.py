"""Sentence-level rules: replace_numbers_in_text — tokenizer, annotation pass, scanner, the language's apply, the crate's
DigitString, the vocabularies — interpreted from MIR for generated sentences in the seven real languages, at the
property's own observation point.  Only the aho-corasick automaton behind the compound splitter is a model (V-SPLIT).

The sentences are generated from the same spellers as the phrase rules; the expected rewriting is written from the
property statements.  Bounded: a few hundred sentences per language and rule.
"""
import os

from ..lexvm import LexVM
from ..peval import Unanalysable
from ..spellers import ordinal_spellings, spellings
from ..vm import Panic, Unsupported
from .lexical import ALL_LANGS, lexicon

REWRITE = 'word_to_digit::replace_numbers_in_text'
# ordinary (non-number, non-linking) words per language: before / after a number
WORDS = {'en': ('cats', 'sat'), 'fr': ('chats', 'noirs'), 'es': ('gatos', 'negros'), 'pt': ('gatos', 'pretos'), 'it': ('gatti', 'neri'),
         'de': ('katzen', 'schlafen'), 'nl': ('katten', 'slapen')}
FILLER = {'en': 'cats sat there quietly.', 'fr': 'les chats dormaient tranquillement.', 'es': 'los gatos dormían tranquilamente.',
          'pt': 'os gatos dormiam tranquilamente.', 'it': 'i gatti dormivano tranquillamente.', 'de': 'die katzen schliefen ruhig.',
          'nl': 'de katten sliepen rustig.'}
WSFMT = '\u00a0%s\t%s \n%s\u2009'
_FACTS = None
_EV = {}


def _ev(lang):
    if lang not in _EV:
        _EV[lang] = LexVM(_FACTS, lang, real=True)
    return _EV[lang]


def rewrite(lang, text, th):
    ev = _ev(lang)
    try:
        return ('ok', ev.vm.deref(ev.vm.run(REWRITE, [text, ev.self_value, th])))
    except Panic as e:
        return ('panic', str(e))
    except (Unsupported, Unanalysable) as e:
        return ('?', str(e))


def _work(job):
    lang, items = job
    return lang, [(key, rewrite(lang, text, th)) for key, text, th in items]


def run_jobs(ctx, jobs_by_lang):
    global _FACTS, _EV
    _FACTS = ctx.facts
    _EV = {}
    jobs = []
    for lang, items in jobs_by_lang.items():
        size = max(40, len(items) // 4 + 1)
        for i in range(0, len(items), size):
            jobs.append((lang, items[i:i + size]))
    n = min(os.cpu_count() or 1, 16)
    res = {}
    if n < 2 or os.environ.get('T2N_NO_FORK') or sum(len(j[1]) for j in jobs) < 100:
        parts = [_work(j) for j in jobs]
    else:
        import multiprocessing
        with multiprocessing.get_context('fork').Pool(n) as pool:
            parts = pool.map(_work, jobs, chunksize=1)
    for lang, out in parts:
        res.setdefault(lang, {}).update(out)
    return res


def _sample(ctx):
    ns = list(range(0, 131)) + [199, 200, 201, 300, 480, 571, 699, 700, 777, 800, 880, 891, 999, 1000, 1001, 1021, 1100, 1999, 2000, 2005, 2019, 9999,
                                10000, 12345, 21000, 80000, 100000, 123456, 999999, 2 * 10 ** 6, 5000021]
    if ctx.tier == 'thorough':
        ns += list(range(131, 2000))
    return sorted(set(ns))


def _report(rep, R, lang, what, bad, n_ok):
    """bad: list of (text, got, want)"""
    unk = [b for b in bad if b[1][0] == '?']
    if unk:
        rep.anchor(R, '%s|%s' % (lang, what), 'cannot interpret replace_numbers_in_text on %r: %s' % (unk[0][0], unk[0][1][1]))
        return
    if bad:
        text, got, want = bad[0]
        rep.violation(R, '%s|%s' % (lang, what), '%r is rewritten as %r, expected %r (%d of %d sentences)' % (
            text, got[1] if got[0] == 'ok' else 'a panic: ' + got[1], want, len(bad), n_ok + len(bad)))
    else:
        rep.ok(R, '%s|%s' % (lang, what), '%d sentences' % n_ok)


def _memo(ctx, key, jobs):
    return getattr(ctx, 'memo_disk', ctx.memo)((key, ctx.tier), lambda: run_jobs(ctx, jobs))


# ---------------------------------------------------------------------------------------------------------
def rule_numbers_in_sentences(ctx, rep, langs=ALL_LANGS, which='plain'):
    R = {'plain': 'S01-IN-SENTENCE', 'upper': 'S11-CASE-IN-SENTENCE', 'ws': 'S17-WS-IN-SENTENCE'}[which]
    rep.rule(R, {'plain': 'replace_numbers_in_text(threshold 0), interpreted end to end in each real language: a sentence "w1 <standard spelling of n> '
                          'w2" becomes "w1 n w2" (one number, never split, nothing else touched) for n = 0..130 and structural samples up to '
                          '5 000 021 (0..1999 thorough)',
                 'upper': 'replace_numbers_in_text(threshold 0) in each real language: the sentence "w1 <spelling of n> w2" with every letter '
                          'upper-cased gives the same number as the lower-case sentence, the other words keeping their upper case',
                 'ws': 'replace_numbers_in_text(threshold 0) in each real language: the sentence "w1 <spelling of n> w2" with tabs, newlines, doubled '
                       'spaces and leading / trailing whitespace gives the same number, the whitespace outside it passed through'}[which])
    ns = _sample(ctx)
    jobs = {}
    for lang in langs:
        w1, w2 = WORDS[lang]
        items = []
        for n in ns:
            sp = spellings(lang, n)
            if not sp:
                continue
            phrase = ' '.join(sp[0])
            items.append((('plain', n), '%s %s %s' % (w1, phrase, w2), 0.0))
            if n % 7 == 0 or n > 1000:
                items.append((('upper', n), ('%s %s %s' % (w1, phrase, w2)).upper(), 0.0))
                items.append((('ws', n), WSFMT % (w1, phrase.replace(' ', '\u00a0 '), w2), 0.0))
        jobs[lang] = items
    res = _memo(ctx, 'sent-numbers', jobs)
    total = 0
    for lang in langs:
        w1, w2 = WORDS[lang]
        by = {'plain': [], 'upper': [], 'ws': []}
        okc = {'plain': 0, 'upper': 0, 'ws': 0}
        for (kind, n), text, th in jobs[lang]:
            total += 1
            if lang == 'de' and 10 ** 6 <= n < 2 * 10 ** 6:
                continue            # known finding F16 (reported by A0-ROUNDTRIP)
            r = res[lang][(kind, n)]
            if kind == 'plain':
                want = '%s %d %s' % (w1, n, w2)
            else:
                # metamorphic: whatever the plain sentence gives, the re-cased / re-spaced one must give the same numbers
                rp = res[lang][('plain', n)]
                if rp[0] != 'ok' or not (rp[1].startswith(w1 + ' ') and rp[1].endswith(' ' + w2)):
                    continue
                mid = rp[1][len(w1) + 1:len(rp[1]) - len(w2) - 1]
                if kind == 'upper':
                    if any(c.isalpha() for c in mid):
                        continue
                    want = '%s %s %s' % (w1.upper(), mid, w2.upper())
                else:
                    if ' ' in mid:
                        continue
                    want = WSFMT % (w1, mid, w2)
            if r != ('ok', want):
                by[kind].append((text, r, want))
            else:
                okc[kind] += 1
        if which == 'plain':
            _report(rep, R, lang, 'as-spelled', by['plain'], okc['plain'])
        elif which == 'upper':
            _report(rep, R, lang, 'upper-case', by['upper'], okc['upper'])
        else:
            _report(rep, R, lang, 'other-whitespace', by['ws'], okc['ws'])
    rep.floor(R, total, 1500, 'sentences rewritten')


def rule_case_in_sentences(ctx, rep, langs=ALL_LANGS):
    rule_numbers_in_sentences(ctx, rep, langs, which='upper')


def rule_ws_in_sentences(ctx, rep, langs=ALL_LANGS):
    rule_numbers_in_sentences(ctx, rep, langs, which='ws')


def rule_ordinals_in_sentences(ctx, rep, langs=ALL_LANGS):
    R = 'S04-ORDINAL-IN-SENTENCE'
    rep.rule(R, 'replace_numbers_in_text(threshold 0) rewrites "w1 <n-th ordinal> w2" as "w1 n<marker> w2" (the marker the language attaches to that '
                'form), for ranks 1..60 and samples up to 100 000')
    from ..spellers import en_ordinal_marker
    ns = sorted(set(list(range(1, 61)) + [70, 71, 80, 81, 90, 91, 99, 100, 101, 110, 121, 200, 1000, 1001, 2000, 100000]))
    jobs = {}
    for lang in langs:
        w1, w2 = WORDS[lang]
        jobs[lang] = [((n,), '%s %s %s' % (w1, ' '.join(ordinal_spellings(lang, n)[0]), w2), 0.0) for n in ns if ordinal_spellings(lang, n)]
    res = _memo(ctx, 'sent-ordinals', jobs)
    total = 0
    for lang in langs:
        lx = lexicon(lang)
        marks = {}
        for o in lx['ordinals']:
            marks.setdefault(o['w'], o['marker'])
        w1, w2 = WORDS[lang]
        bad, okc = [], 0
        for (n,), text, th in jobs[lang]:
            total += 1
            last = text.split(' ')[-2].split('-')[-1]
            if lang == 'en':
                mk = en_ordinal_marker(n)
            else:
                cands = [w for w in marks if last.endswith(w)]
                mk = marks[max(cands, key=len)] if cands else ''
            want = '%s %d%s %s' % (w1, n, mk, w2)
            r = res[lang][(n,)]
            if r != ('ok', want):
                bad.append((text, r, want))
            else:
                okc += 1
        unk = [b_ for b_ in bad if b_[1][0] == '?']
        if unk:
            rep.anchor(R, lang, 'cannot interpret replace_numbers_in_text on %r: %s' % (unk[0][0], unk[0][1][1]))
            continue
        # one instance per failing ordinal (a specific identity for known findings)
        for text, r, want in bad[:8]:
            phrase = ' '.join(text.split(' ')[1:-1])
            rep.violation(R, '%s|%s' % (lang, phrase), '%r is rewritten as %r, expected %r' % (text, r[1], want))
        if not bad:
            rep.ok(R, lang, '%d sentences' % okc)
    rep.floor(R, total, 350, 'sentences rewritten')


# ---------------------------------------------------------------------------------------------------------
DIGITS = {'en': ['zero', 'one', 'two', 'three', 'four', 'five', 'six', 'seven', 'eight', 'nine'],
          'de': ['null', 'eins', 'zwei', 'drei', 'vier', 'fünf', 'sechs', 'sieben', 'acht', 'neun']}


def rule_decimals_in_sentences(ctx, rep, langs=ALL_LANGS):
    R = 'S05-DECIMAL-IN-SENTENCE'
    rep.rule(R, 'replace_numbers_in_text(threshold 0) rewrites "<integer> <separator word> <fraction>" as one number int<mark>frac with every '
                'fractional digit and leading zero kept (fraction dictated digit by digit in en/de, read as a number with leading zeros elsewhere); '
                'a separator word with no number before it, or nothing usable after it, stays a word')
    ints = [0, 3, 12, 21, 100, 1999]
    fracs = ['5', '14', '05', '007', '50', '105', '75']
    jobs = {}
    expect = {}
    for lang in langs:
        lx = lexicon(lang)
        sep, mark, zero = lx['decimal_sep'], lx['decimal_mark'], lx['zero'][0]
        w1, w2 = WORDS[lang]
        items = []
        for i in ints:
            isp = ' '.join(spellings(lang, i)[0])
            for fr in fracs:
                if lang in DIGITS:
                    fsp = ' '.join(DIGITS[lang][int(c)] for c in fr)
                    for zi, zw in enumerate(lx['zero'][1:]):
                        if '0' in fr:
                            # every synonym of zero dictates a 0 in the fraction
                            text2 = '%s %s %s %s %s' % (w1, isp, sep, ' '.join(zw if c == '0' else DIGITS[lang][int(c)] for c in fr), w2)
                            items.append(((i, fr, zi), text2, 0.0))
                            expect[(lang, (i, fr, zi))] = '%s %d%s%s %s' % (w1, i, mark, fr, w2)
                else:
                    k = len(fr) - len(fr.lstrip('0'))
                    rest = fr.lstrip('0')
                    fsp = ' '.join([zero] * k + (spellings(lang, int(rest))[0] if rest else []))
                text = '%s %s %s %s %s' % (w1, isp, sep, fsp, w2)
                items.append(((i, fr), text, 0.0))
                expect[(lang, (i, fr))] = '%s %d%s%s %s' % (w1, i, mark, fr, w2)
        # separator alone / dangling
        three = ' '.join(spellings(lang, 3)[0])
        items.append((('sep-first',), '%s %s %s %s' % (w1, sep, three, w2), 0.0))
        expect[(lang, ('sep-first',))] = '%s %s 3 %s' % (w1, sep, w2)
        items.append((('sep-dangling',), '%s %s %s %s' % (w1, three, sep, w2), 0.0))
        expect[(lang, ('sep-dangling',))] = '%s 3 %s %s' % (w1, sep, w2)
        jobs[lang] = items
    res = _memo(ctx, 'sent-decimals', jobs)
    total = 0
    for lang in langs:
        bad, okc = [], 0
        for key, text, th in jobs[lang]:
            total += 1
            r = res[lang][key]
            want = expect[(lang, key)]
            if r != ('ok', want):
                bad.append((text, r, want))
            else:
                okc += 1
        _report(rep, R, lang, 'decimals', bad, okc)
    rep.floor(R, total, 280, 'sentences rewritten')


# ---------------------------------------------------------------------------------------------------------
def rule_pairs_in_sentences(ctx, rep, langs=ALL_LANGS):
    R = 'S08-NO-FUSION'
    rep.rule(R, 'replace_numbers_in_text(threshold 0) on two numbers below 100 said one after the other (with and without the conjunction): the '
                'result is both numbers in order, or the single number those words spell — never another number; dictated digits keep every digit, '
                'zeros attaching to the following non-zero digit')
    A = [1, 2, 7, 10, 11, 16, 20, 21, 70, 80, 99]
    if ctx.tier == 'thorough':
        A = list(range(1, 100))
    from .phrases import _loose
    jobs = {}
    meta = {}
    for lang in langs:
        w1, w2 = WORDS[lang]
        cj = lexicon(lang).get('conjunction')
        inv = {}
        for n in range(0, 1000):       # two numbers below 100 cannot spell more than that
            for toks in spellings(lang, n):
                inv[_loose(lang, tuple(t for tok in toks for t in tok.split('-')))] = n
        items = []
        for a in A:
            for b in A:
                sa, sb = spellings(lang, a)[0], spellings(lang, b)[0]
                for c in ((0, 1) if cj and lang not in ('de', 'nl') else (0,)):
                    if lang == 'fr' and c and b == 9 and sa[-1].split('-')[-1] == 'un':
                        continue        # "un .. neuf": the French ambiguity pass reads "neuf" as the adjective (set aside, not a fusion)
                    mid = sa + ([cj] if c else []) + sb
                    items.append(((a, b, c), '%s %s %s' % (w1, ' '.join(mid), w2), 0.0))
                    flat = tuple(t for tok in mid for t in tok.split('-'))
                    meta[(lang, (a, b, c))] = (inv.get(_loose(lang, flat)), cj if c else None)
        jobs[lang] = items
    res = _memo(ctx, 'sent-pairs', jobs)
    total = 0
    for lang in langs:
        w1, w2 = WORDS[lang]
        bad, okc = [], 0
        for key, text, th in jobs[lang]:
            total += 1
            a, b, c = key
            m, cj = meta[(lang, key)]
            r = res[lang][key]
            both = '%s %d %s%d %s' % (w1, a, (cj + ' ') if cj else '', b, w2)
            allowed = {both}
            if m is not None:
                allowed.add('%s %d %s' % (w1, m, w2))
            if r[0] != 'ok' or r[1] not in allowed:
                bad.append((text, r, ' or '.join(sorted(allowed))))
            else:
                okc += 1
        _report(rep, R, lang, 'pairs', bad, okc)
    # digit dictation
    dict_jobs = {}
    want = {}
    for lang in langs:
        lx = lexicon(lang)
        z = lx['zero'][0]
        d = {0: z}
        for k in range(1, 10):
            d[k] = spellings(lang, k)[0][0]
        items = []
        for seq, out in (((0, 9, 5, 0, 0), '09 5 00'), ((7, 0, 3), '7 03'), ((0, 0, 7), '007'), ((1, 2, 3), '1 2 3'), ((5, 0), '5 0'), ((0,), '0'),
                         ((0, 1, 0, 2), '01 02'), ((9, 9), '9 9')):
            text = ' '.join(d[k] for k in seq)
            items.append((seq, text, 0.0))
            want[(lang, seq)] = out
        dict_jobs[lang] = items
    res = _memo(ctx, 'sent-dictation', dict_jobs)
    for lang in langs:
        bad, okc = [], 0
        for key, text, th in dict_jobs[lang]:
            total += 1
            r = res[lang][key]
            if r != ('ok', want[(lang, key)]):
                bad.append((text, r, want[(lang, key)]))
            else:
                okc += 1
        _report(rep, R, lang, 'dictation', bad, okc)
    rep.floor(R, total, 1400, 'sentences rewritten')


# ---------------------------------------------------------------------------------------------------------
def rule_context_in_sentences(ctx, rep, langs=ALL_LANGS):
    R = 'S10-INDEPENDENT-PARTS'
    rep.rule(R, 'rewriting of "A <three ordinary words ending a sentence> B" equals rewriting of A, the separator unchanged, rewriting of B, at '
                'thresholds 0, 10 and 100, for parts drawn from small / large cardinals, ordinals, decimals, number pairs and ambiguous words; '
                'punctuation between two numbers keeps them apart')
    jobs = {}
    parts_of = {}
    for lang in langs:
        lx = lexicon(lang)
        w1, w2 = WORDS[lang]
        sp = lambda n: ' '.join(spellings(lang, n)[0])   # noqa: E731
        parts = [sp(1), sp(7), sp(20), sp(21), sp(100), sp(1999), '%s %s' % (sp(2), sp(3)), '%s, %s' % (sp(1), sp(2)), '%s %s %s' % (sp(3), lx['decimal_sep'], sp(5)),
                 '%s %s' % (w1, sp(2)), '%s %s %s' % (sp(5), w2, sp(6)), w1, '%s %s' % (lx['zero'][0], sp(4)),
                 # fractions made of zeros only (the decimal builder is "null" but not empty), and a separator left dangling
                 '%s %s %s' % (sp(2), lx['decimal_sep'], lx['zero'][0]), '%s %s %s %s' % (sp(20), lx['decimal_sep'], lx['zero'][0], lx['zero'][0]),
                 '%s %s' % (sp(12), lx['decimal_sep'])]
        if ordinal_spellings(lang, 2):
            parts += [' '.join(ordinal_spellings(lang, 1)[0]), ' '.join(ordinal_spellings(lang, 21)[0]), '%s %s' % (' '.join(ordinal_spellings(lang, 3)[0]), sp(4))]
        if lang == 'en':
            parts += ['o %s' % sp(5), '%s o' % w1, 'twenty o %s o twenty' % w1]
        if lang == 'fr':
            parts += ['un ordinateur neuf', 'le vingt neuf', 'un %s neuf %s' % (w1, sp(20))]
        parts_of[lang] = parts
        items = []
        for th in (0.0, 10.0, 100.0):
            for i, a in enumerate(parts):
                items.append((('single', i, th), a, th))
                for j, b in enumerate(parts):
                    if (i + j) % (1 if ctx.tier == 'thorough' else 5) == 0 or 13 <= i <= 15:
                        items.append((('both', i, j, th), '%s %s %s' % (a, FILLER[lang], b), th))
        jobs[lang] = items
    res = _memo(ctx, 'sent-context', jobs)
    total = 0
    for lang in langs:
        bad, okc = [], 0
        for key, text, th in jobs[lang]:
            if key[0] != 'both':
                continue
            total += 1
            _k, i, j, th = key
            ra, rb, r = res[lang][('single', i, th)], res[lang][('single', j, th)], res[lang][key]
            if '?' in (ra[0], rb[0], r[0]):
                bad.append((text, r if r[0] == '?' else (ra if ra[0] == '?' else rb), ''))
                continue
            if 'panic' in (ra[0], rb[0]):
                continue
            want = '%s %s %s' % (ra[1], FILLER[lang], rb[1])
            if r != ('ok', want):
                bad.append((text + ' @%s' % th, r, want))
            else:
                okc += 1
        _report(rep, R, lang, 'A+separator+B', bad, okc)
        a, b = ' '.join(spellings(lang, 20)[0]), ' '.join(spellings(lang, 5)[0])
        for th in (0.0, 10.0):
            r = rewrite_cached(ctx, lang, '%s, %s' % (a, b), th)
            rep.check(r == ('ok', '20, 5'), R, '%s|punctuation|%s' % (lang, th), '"%s, %s" -> "20, 5"' % (a, b), '"%s, %s" is rewritten as %r, expected "20, 5"' % (a, b, r[1]))
    rep.floor(R, total, 500, 'sentence pairs compared')


def rewrite_cached(ctx, lang, text, th):
    global _FACTS
    if _FACTS is not ctx.facts:
        _FACTS = ctx.facts
        _EV.clear()
    return ctx.memo(('sent-one', lang, text, th), lambda: rewrite(lang, text, th))


# ---------------------------------------------------------------------------------------------------------
def rule_threshold_in_sentences(ctx, rep, langs=ALL_LANGS):
    R = 'S09-LONE-POLICY'
    rep.rule(R, 'replace_numbers_in_text at thresholds 0, 3, 10, 100, NaN on sentences with lone / neighbouring small and large numbers, linking '
                'words and punctuation in each real language: a number stays in words exactly when it is small (one digit or ordinal, value < t) '
                'and isolated; sequences such as "one, two, three" are always rewritten; threshold 0 / NaN rewrite everything')
    jobs = {}
    want = {}
    for lang in langs:
        lx = lexicon(lang)
        w1, w2 = WORDS[lang]
        cj = lx.get('conjunction')
        sp = lambda n: ' '.join(spellings(lang, n)[0])   # noqa: E731
        items = []

        def add(key, text, th, out):
            items.append((key, text, th))
            want[(lang, key)] = out
        for th in (0.0, 3.0, 10.0, 100.0, float('nan')):
            t = repr(th)
            small = lambda v: v < th          # noqa: E731  (NaN compares false: nothing is small)
            f1 = lambda v: sp(v) if small(v) else str(v)    # noqa: E731
            # lone single digit / lone two-digit / lone big
            add(('lone1', t), '%s %s %s' % (w1, sp(2), w2), th, '%s %s %s' % (w1, f1(2) if 2 < 10 else '2', w2))
            add(('lone7', t), '%s %s %s' % (w1, sp(7), w2), th, '%s %s %s' % (w1, f1(7), w2))
            add(('lone21', t), '%s %s %s' % (w1, sp(21), w2), th, '%s 21 %s' % (w1, w2))
            add(('lone1999', t), '%s %s %s' % (w1, sp(1999), w2), th, '%s 1999 %s' % (w1, w2))
            # sequence: always rewritten
            add(('seq', t), '%s, %s, %s' % (sp(1), sp(2), sp(3)), th, '1, 2, 3')
            add(('seq-ws', t), '%s %s %s' % (sp(4), sp(5), sp(6)) if lang not in ('de', 'nl', 'it') else '%s, %s' % (sp(4), sp(5)), th,
                '4 5 6' if lang not in ('de', 'nl', 'it') else '4, 5')
            # a breaker between two small numbers: both isolated
            add(('broken', t), '%s %s %s' % (sp(2), w1, sp(3)), th, '%s %s %s' % (f1(2), w1, f1(3)))
            # a period breaks, too
            add(('period', t), '%s. %s' % (sp(2), sp(3)), th, '%s. %s' % (f1(2), f1(3)))
            # small next to a large cardinal: same kind, contiguous -> both rewritten
            add(('mixed', t), '%s, %s' % (sp(2), sp(30)), th, '2, 30')
            # small next to a decimal (a cardinal, never small): both rewritten, on either side
            add(('dec-after', t), '%s, %s %s %s' % (sp(1), sp(2), lx['decimal_sep'], sp(5)), th, '1, 2%s5' % lx['decimal_mark'])
            add(('dec-before', t), '%s %s %s, %s %s' % (sp(2), lx['decimal_sep'], sp(5), sp(3), w2), th, '2%s5, 3 %s' % (lx['decimal_mark'], w2))
        jobs[lang] = items
    res = _memo(ctx, 'sent-threshold', jobs)
    total = 0
    for lang in langs:
        bad, okc = [], 0
        for key, text, th in jobs[lang]:
            total += 1
            r = res[lang][key]
            if r != ('ok', want[(lang, key)]):
                bad.append((text + ' @%s' % th, r, want[(lang, key)]))
            else:
                okc += 1
        _report(rep, R, lang, 'policy', bad, okc)
    rep.floor(R, total, 300, 'sentences rewritten')


# ---------------------------------------------------------------------------------------------------------
O_SENTENCES = [
    ('o five', '05'), ('five o', '5 0'), ('five o five', '5 05'), ('o', 'o'), ('hello o', 'hello o'), ('o hello', 'o hello'), ('hello o world', 'hello o world'),
    ('hello o five', 'hello 05'), ('five o world', '5 0 world'), ('five, o', '5, o'), ('o, five', 'o, 5'), ('five o', '5 0'), ('five \t\n o', '5 \t\n 0'),
    ('o o', '00'), ('x o o y', 'x 00 y'), ('twenty o one', '20 01'), ('zero o', '00'), ('first o', '1st 0'), ('O five', '05'), ('hello O world', 'hello O world'),
    ('one hundred and o', '100 and o'), ('twelve point o', '12 point o'), ('twelve point o five', '12.05'), ('a b o', 'a b o'), ('o clock at five', 'o clock at 5'), ('o five o cats o', '05 0 cats o'),
]


def rule_o_in_sentences(ctx, rep):
    R = 'S18-O-IN-SENTENCE'
    rep.rule(R, 'replace_numbers_in_text(&English) on a table of sentences with the word "o": it is rewritten exactly as "zero" would be when a '
                'neighbouring token (whitespace skipped, punctuation counts) is a number word, and left alone otherwise, at thresholds 0 and 10')
    jobs = {'en': []}
    for text, out in O_SENTENCES:
        jobs['en'].append(((text, 0.0), text, 0.0))
        z = ' '.join('zero' if w.lower() == 'o' else w for w in text.split(' ')) if False else None
    res = _memo(ctx, 'sent-o', jobs)
    bad, okc = [], 0
    for (text, th), _t, _th in jobs['en']:
        want = dict(O_SENTENCES)[text]
        r = res['en'][(text, th)]
        if r != ('ok', want):
            bad.append((text, r, want))
        else:
            okc += 1
    _report(rep, R, 'en', 'o', bad, okc)
    rep.floor(R, okc + len(bad), 20, 'sentences rewritten')


SCALE_CLASSES = ('hundred', 'thousand', 'thousand_lex', 'million', 'milliard', 'billion12')


def rule_scale_stacks(ctx, rep, langs=ALL_LANGS):
    R = 'S03-SCALE-STACKS'
    rep.rule(R, 'totality on numbers beyond every intended range: replace_numbers_in_text(threshold 0) on "<1 | 20 | 999> <one to three scale '
                'words in every order>" (one word per scale class of the language; also glued together where the language writes compounds) '
                'reaches no panic site — whatever the result (the builder has no upper bound, so values beyond 2^64 and texts of 30+ digits occur)')
    jobs = {}
    for lang in langs:
        lx = lexicon(lang)
        scales = []
        for cls in SCALE_CLASSES:
            ws = [c['w'] for c in lx['cardinals'] if c['class'] == cls]
            if ws:
                scales.append(ws[-1])        # the plural / last listed form
        starts = [' '.join(spellings(lang, n)[0]) for n in ((1, 20, 999) if ctx.tier == 'thorough' else (20, 999))]
        seqs = [[a] for a in scales] + [[a, b] for a in scales for b in scales]
        if ctx.tier == 'thorough':
            seqs += [[a, b, c] for a in scales for b in scales for c in scales]
        else:
            seqs += [[a, b, c] for a in scales[-2:] for b in scales[-3:] for c in scales[-2:]]      # the large scales stacked three deep
        items = []
        for st in starts:
            for sq in seqs:
                items.append(((st, tuple(sq), 's'), '%s %s' % (st, ' '.join(sq)), 0.0))
                if lang in ('de', 'nl', 'it') and len(sq) <= 2:
                    items.append(((st, tuple(sq), 'c'), (st + ''.join(sq)).replace(' ', ''), 0.0))
        jobs[lang] = items
    res = _memo(ctx, 'sent-scale-stacks', jobs)
    total = 0
    for lang in langs:
        bad, unk, okc = [], [], 0
        for key, text, th in jobs[lang]:
            total += 1
            r = res[lang][key]
            if r[0] == '?':
                unk.append((text, r))
            elif r[0] == 'panic':
                bad.append((text, r))
            else:
                okc += 1
        if unk:
            rep.anchor(R, lang + '|no-panic', 'cannot interpret replace_numbers_in_text on %r: %s' % (unk[0][0], unk[0][1][1]))
        elif bad:
            rep.violation(R, lang + '|no-panic', 'replace_numbers_in_text panics on %r: %s (%d of %d texts)' % (bad[0][0], bad[0][1][1], len(bad), okc + len(bad)))
        else:
            rep.ok(R, lang + '|no-panic', '%d texts' % okc)
    rep.floor(R, total, 600, 'texts rewritten')


DET = {'en': 'the', 'fr': 'le', 'es': 'el', 'pt': 'aquele', 'it': 'il', 'de': 'die', 'nl': 'de'}


def corpus_blocks(lang):
    """Number phrases of every kind the properties talk about, in one real language (generated, none taken from the crate's tests)."""
    lx = lexicon(lang)
    z = lx['zero']
    sep = lx['decimal_sep']
    cj = lx.get('conjunction')
    sp = lambda n: ' '.join(spellings(lang, n)[0])        # noqa: E731
    blocks = [sp(1), sp(7), sp(12), sp(20), sp(21), sp(70), sp(99), sp(100), sp(101), sp(1999), sp(21000), sp(2 * 10 ** 6 + 5),
              z[0], '%s %s %s' % (z[0], z[0], sp(7)), '%s %s' % (sp(20), z[0]),
              '%s %s %s' % (sp(3), sep, sp(5)), '%s %s %s' % (sp(2), sep, z[0]), '%s %s %s %s' % (sp(20), sep, z[0], sp(5)), '%s %s' % (sp(12), sep), '%s %s' % (sep, sp(3)),
              '%s %s' % (sp(2), sp(3)), '%s, %s, %s' % (sp(1), sp(2), sp(3)), '%s %s' % (sp(20), sp(30)),
              sp(21).replace(' ', '-'), sp(99).replace(' ', '-')]
    for zs in z[1:]:
        blocks += ['%s %s %s' % (zs, zs, sp(7)), '%s %s' % (zs, sp(5))]
    for n in (1, 3, 21, 100):
        o = ordinal_spellings(lang, n)
        if o:
            blocks.append(' '.join(o[0]))
    if cj:
        blocks += ['%s %s' % (cj, sp(1000)), '%s %s %s' % (sp(100), cj, sp(1)), '%s %s' % (sp(20), cj)]
    # bare scale words are numbers on their own
    for cls in SCALE_CLASSES[:3]:
        ws = [c['w'] for c in lx['cardinals'] if c['class'] == cls and c['tier'] == 'core']
        if ws:
            blocks.append(ws[0])
    if lang == 'en':
        blocks += ['o', 'o o', 'o %s' % sp(5), '%s o %s' % (sp(5), sp(5))]
    if lang == 'fr':
        blocks += ['un ordinateur neuf', 'le vingt neuf', 'neuf']
    out = []
    for b in blocks:
        if b not in out:
            out.append(b)
    return out


def corpus_contexts(lang):
    w1, w2 = WORDS[lang]
    cj = lexicon(lang).get('conjunction') or LINKING[lang][0]
    return [('', ''), (w1 + ' ', ' ' + w2), (w1 + ' ' + cj + ' ', ' ' + w2), (w1 + ' ' + DET[lang] + ' ', ''), ('', '.'), ('"', '"'), (w1 + ', ', ', ' + w2),
            ('(', ') ' + w2), (w1 + '\r\n', '\r\n' + w2), (w1 + ': ', '; ' + w2), (w1 + ' ' + LINKING[lang][1] + ' ', '!')]


def corpus(lang, tier='thorough'):
    ctxs = corpus_contexts(lang)
    if tier != 'thorough':
        ctxs = [ctxs[i] for i in (0, 1, 2, 3, 5, 8)]      # quick: bare, between words, after the conjunction, after a determiner, quoted, CR LF
    return [l + b + r for b in corpus_blocks(lang) for (l, r) in ctxs]


def _ths(ctx):
    return (0.0, 10.0) if ctx.tier == 'thorough' else (0.0,)


def rule_corpus_whitespace(ctx, rep, langs=ALL_LANGS):
    R = 'S17-WS-CORPUS'
    rep.rule(R, 'replace_numbers_in_text at thresholds 0 and 10 on the generated corpus (every kind of number phrase x 11 contexts, per language): '
                'white space added at either end comes out around the same rewriting, and every space replaced by a wider run of other '
                'white-space characters gives the same rewriting with the same replacement (metamorphic: no expected output is assumed)')
    wide = '\u2003\t'
    jobs = {}
    for lang in langs:
        items = []
        for i, t in enumerate(corpus(lang, ctx.tier)):
            for th in _ths(ctx):
                items.append((('bare', i, th), t, th))
                items.append((('frame', i, th), '\u00a0 ' + t + '\n', th))
                if '\r' not in t:
                    items.append((('wide', i, th), t.replace(' ', wide), th))
        jobs[lang] = items
    res = _memo(ctx, 'sent-corpus-ws', jobs)
    total = 0
    for lang in langs:
        bad, okc = [], 0
        for key, text, th in jobs[lang]:
            if key[0] == 'bare':
                continue
            total += 1
            r0, r = res[lang][('bare', key[1], th)], res[lang][key]
            if '?' in (r0[0], r[0]):
                bad.append((text, r if r[0] == '?' else r0, ''))
                continue
            if r0[0] != 'ok':
                continue
            want = ('\u00a0 ' + r0[1] + '\n') if key[0] == 'frame' else r0[1].replace(' ', wide)
            if r != ('ok', want):
                bad.append((text + ' @%s' % th, r, want))
            else:
                okc += 1
        _report(rep, R, lang, 'corpus', bad, okc)
    rep.floor(R, total, 2500, 'sentences rewritten')


def rule_corpus_case(ctx, rep, langs=ALL_LANGS):
    R = 'S11-CASE-CORPUS'
    rep.rule(R, 'replace_numbers_in_text at thresholds 0 and 10 on the generated corpus: the text in UPPER CASE and in Title Case is rewritten with '
                'the same numbers at the same places as the lower-case text (compared letter-case-insensitively; metamorphic)')
    jobs = {}
    for lang in langs:
        items = []
        for i, t in enumerate(corpus(lang, ctx.tier)):
            for th in _ths(ctx):
                items.append((('bare', i, th), t, th))
                items.append((('upper', i, th), t.upper(), th))
                items.append((('title', i, th), ' '.join(w[:1].upper() + w[1:] for w in t.split(' ')), th))
        jobs[lang] = items
    res = _memo(ctx, 'sent-corpus-case', jobs)
    total = 0
    for lang in langs:
        bad, okc = [], 0
        for key, text, th in jobs[lang]:
            if key[0] == 'bare':
                continue
            total += 1
            r0, r = res[lang][('bare', key[1], th)], res[lang][key]
            if '?' in (r0[0], r[0]):
                bad.append((text, r if r[0] == '?' else r0, ''))
                continue
            if r0[0] != 'ok':
                continue
            if r[0] != 'ok' or r[1].lower() != r0[1].lower():
                bad.append((text + ' @%s' % th, r, r0[1] + ' (up to letter case)'))
            else:
                okc += 1
        _report(rep, R, lang, 'corpus', bad, okc)
    rep.floor(R, total, 2500, 'sentences rewritten')


def rule_corpus_context(ctx, rep, langs=ALL_LANGS):
    R = 'S10-CORPUS-PARTS'
    rep.rule(R, 'replace_numbers_in_text at thresholds 0, 10 and 100: every block of the generated corpus, put before and after each of six probe '
                'blocks with a sentence of ordinary words between them, is rewritten as it is on its own (metamorphic)')
    jobs = {}
    for lang in langs:
        blocks = corpus_blocks(lang)
        lx = lexicon(lang)
        sp = lambda n: ' '.join(spellings(lang, n)[0])        # noqa: E731
        probes = [sp(7), sp(21), '%s %s %s' % (sp(3), lx['decimal_sep'], sp(5)), '%s %s' % (sp(12), lx['decimal_sep']), lx['zero'][0]]
        o = ordinal_spellings(lang, 3)
        if o:
            probes.append(' '.join(o[0]))
        items = []
        if ctx.tier != 'thorough':
            probes = probes[:4]
        for th in ((0.0, 10.0, 100.0) if ctx.tier == 'thorough' else (0.0, 10.0)):
            for i, b in enumerate(blocks):
                items.append((('one', 'b', i, th), b, th))
            for j, p_ in enumerate(probes):
                items.append((('one', 'p', j, th), p_, th))
            for i, b in enumerate(blocks):
                for j, p_ in enumerate(probes):
                    if (th == 100.0 or (th == 10.0 and ctx.tier != 'thorough')) and (i + j) % 3:
                        continue
                    items.append((('bp', i, j, th), '%s %s %s' % (b, FILLER[lang], p_), th))
                    items.append((('pb', i, j, th), '%s %s %s' % (p_, FILLER[lang], b), th))
        jobs[lang] = items
    res = _memo(ctx, 'sent-corpus-ctx', jobs)
    total = 0
    for lang in langs:
        bad, okc = [], 0
        for key, text, th in jobs[lang]:
            if key[0] == 'one':
                continue
            total += 1
            _k, i, j, th = key
            rb, rp, r = res[lang][('one', 'b', i, th)], res[lang][('one', 'p', j, th)], res[lang][key]
            if '?' in (rb[0], rp[0], r[0]):
                bad.append((text, [x for x in (r, rb, rp) if x[0] == '?'][0], ''))
                continue
            if rb[0] != 'ok' or rp[0] != 'ok':
                continue
            want = '%s %s %s' % ((rb[1], FILLER[lang], rp[1]) if key[0] == 'bp' else (rp[1], FILLER[lang], rb[1]))
            if r != ('ok', want):
                bad.append((text + ' @%s' % th, r, want))
            else:
                okc += 1
        _report(rep, R, lang, 'A+separator+B', bad, okc)
    rep.floor(R, total, 2000, 'sentences rewritten')


NEUF_SENTENCES = ['un ordinateur neuf', 'le vingt neuf', 'un logement neuf', 'du pain neuf trois', 'le ticket neuf trois gagne', 'le lot deux neuf gagne',
                  'neuf chats', 'un chat neuf neuf', 'un neuf', 'le tout neuf', 'neuf']
WS_FRAMES = [(' ', ''), ('\n\t', ''), ('\u00a0', '\u2009'), ('', ' '), ('  ', '  ')]


def rule_ws_context_sentences(ctx, rep):
    R = 'S17-WS-AMBIGUOUS-WORDS'
    rep.rule(R, 'the words whose reading depends on their neighbours (English "o", French "neuf": decided by a pass over the token list before the '
                'search) are read the same whatever whitespace surrounds the text or replaces its spaces: replace_numbers_in_text on the sentence '
                'with leading / trailing whitespace gives that whitespace around the rewriting of the bare sentence, and with every space replaced '
                'by a wider run gives the bare rewriting with the same replacement, at thresholds 0 and 10')
    corpus = {'en': [t for t, _o in O_SENTENCES if t == t.strip()], 'fr': NEUF_SENTENCES}
    wide = '\u2003\t'
    jobs = {}
    for lang, texts in corpus.items():
        items = []
        for th in (0.0, 10.0):
            for i, t in enumerate(texts):
                items.append((('bare', i, th), t, th))
                for k, (a, b) in enumerate(WS_FRAMES):
                    items.append((('frame', i, th, k), a + t + b, th))
                items.append((('wide', i, th), t.replace(' ', wide), th))
        jobs[lang] = items
    res = _memo(ctx, 'sent-wsctx', jobs)
    total = 0
    for lang, texts in corpus.items():
        bad, okc = [], 0
        for key, text, th in jobs[lang]:
            if key[0] == 'bare':
                continue
            total += 1
            r0 = res[lang][('bare', key[1], th)]
            r = res[lang][key]
            if '?' in (r0[0], r[0]):
                bad.append((text, r if r[0] == '?' else r0, ''))
                continue
            if r0[0] != 'ok':
                continue
            if key[0] == 'frame':
                a, b = WS_FRAMES[key[3]]
                want = a + r0[1] + b
            else:
                if '\t' in texts[key[1]] or '\n' in texts[key[1]]:
                    continue
                want = r0[1].replace(' ', wide)
            if r != ('ok', want):
                bad.append((text + ' @%s' % th, r, want))
            else:
                okc += 1
        _report(rep, R, lang, 'framed', bad, okc)
    rep.floor(R, total, 300, 'sentences rewritten')


def rule_zeros_in_sentences(ctx, rep, langs=ALL_LANGS):
    R = 'S16-ZEROS-IN-SENTENCE'
    rep.rule(R, 'replace_numbers_in_text(threshold 0) in each real language: k spoken zeros followed by the spelling of n become one numeral with k zeros and '
                'the digits of n; a zero after a number starts a new numeral; a lone zero is 0')
    jobs = {}
    want = {}
    for lang in langs:
        z = lexicon(lang)['zero'][0]
        w1, w2 = WORDS[lang]
        items = []
        det = {'en': 'the', 'fr': 'le', 'es': 'el', 'pt': 'aquele', 'it': 'il', 'de': 'die', 'nl': 'de'}[lang]
        for n in (1, 2, 3, 4, 5, 6, 7, 8, 9, 10, 21, 100, 1999):
            sp = ' '.join(spellings(lang, n)[0])
            for k in (1, 2, 3):
                key = ('lead', n, k)
                items.append((key, '%s %s %s %s' % (w1, ' '.join([z] * k), sp, w2), 0.0))
                want[(lang, key)] = '%s %s%d %s' % (w1, '0' * k, n, w2)
                if k < 3:
                    # after a determiner, at the end of the text (ambiguity passes look at exactly these neighbours)
                    key = ('det', n, k)
                    items.append((key, '%s %s %s %s' % (w1, det, ' '.join([z] * k), sp), 0.0))
                    want[(lang, key)] = '%s %s %s%d' % (w1, det, '0' * k, n)
            key = ('after', n)
            items.append((key, '%s %s %s %s' % (w1, sp, z, w2), 0.0))
            want[(lang, key)] = '%s %d 0 %s' % (w1, n, w2)
        items.append((('lone',), '%s %s %s' % (w1, z, w2), 0.0))
        want[(lang, ('lone',))] = '%s 0 %s' % (w1, w2)
        # the other words for zero ("o", "nought" ..) lead a numeral exactly like the first one, alone, repeated and mixed with it
        for zi, zs in enumerate(lexicon(lang)['zero'][1:]):
            for n in (7, 21):
                sp = ' '.join(spellings(lang, n)[0])
                for k, zeros in ((1, [zs]), (2, [zs, zs]), (3, [zs, zs, zs]), (2, [z, zs]), (2, [zs, z]), (3, [zs, z, zs])):
                    key = ('syn', zi, n, tuple(zeros))
                    items.append((key, '%s %s %s %s' % (w1, ' '.join(zeros), sp, w2), 0.0))
                    want[(lang, key)] = '%s %s%d %s' % (w1, '0' * k, n, w2)
                    key = ('syn-start', zi, n, tuple(zeros))
                    items.append((key, '%s %s' % (' '.join(zeros), sp), 0.0))
                    want[(lang, key)] = '%s%d' % ('0' * k, n)
        jobs[lang] = items
    res = _memo(ctx, 'sent-zeros', jobs)
    total = 0
    for lang in langs:
        bad, okc = [], 0
        for key, text, th in jobs[lang]:
            total += 1
            r = res[lang][key]
            if r != ('ok', want[(lang, key)]):
                bad.append((text, r, want[(lang, key)]))
            else:
                okc += 1
        _report(rep, R, lang, 'zeros', bad, okc)
    rep.floor(R, total, 500, 'sentences rewritten')


# ---------------------------------------------------------------------------------------------------------
def occurrences(lang, text, th):
    """find_numbers over the tokenizer's tokens of `text`, in the real language: [(start, end, text, value, is_ordinal)] + token texts."""
    from ..vm import Iter
    ev = _ev(lang)
    vm = ev.vm
    try:
        toks = vm.materialise(vm.deref(vm.run('tokenizer::tokenize', [text])))
        occs = vm.run('word_to_digit::find_numbers', [Iter(list(toks)), ev.self_value, th])
        out = [(o.fields['start'], o.fields['end'], o.fields['text'], o.fields['value'], o.fields['is_ordinal']) for o in occs.items]
        return ('ok', out, [t.fields['text'] for t in toks])
    except Panic as e:
        return ('panic', str(e), None)
    except (Unsupported, Unanalysable) as e:
        return ('?', str(e), None)


def _occ_work(job):
    lang, items = job
    return lang, [(key, occurrences(lang, text, th)) for key, text, th in items]


def rule_threshold_corpus(ctx, rep, langs=ALL_LANGS):
    R = 'S09-THRESHOLD-CORPUS'
    rep.rule(R, 'find_numbers over the tokens of the generated corpus in each real language at thresholds 0 and 10: the occurrences at 10 are a '
                'subset of those at 0 (same spans, texts, values), and every occurrence at 0 that is not small (more than one digit, a decimal, '
                'or a value of at least 10) is still there at 10 — the threshold only hides small numbers')
    jobs, res = _occ_tables(ctx)
    total = 0
    for lang in langs:
        if lang not in jobs:
            continue
        texts = {}
        for key, text, th in jobs[lang]:
            texts.setdefault(key[0], {})[th] = (text, res[lang][key])
        bad, okc, unk = [], 0, None
        mark = lexicon(lang)['decimal_mark']
        for i, d_ in texts.items():
            if 0.0 not in d_ or 10.0 not in d_:
                continue
            text, r0 = d_[0.0]
            r10 = d_[10.0][1]
            if '?' in (r0[0], r10[0]):
                unk = (text, (r0 if r0[0] == '?' else r10)[1])
                break
            if r0[0] != 'ok' or r10[0] != 'ok':
                continue
            o0, o10 = [tuple(o) for o in r0[1]], [tuple(o) for o in r10[1]]
            total += 1
            extra_ = [o for o in o10 if o not in o0]
            if extra_:
                bad.append((text, 'at threshold 10 it reports %s, which threshold 0 does not' % (extra_[:2],)))
                continue
            lost = [o for o in o0 if o not in o10 and not ((len(_digits(o[2])) == 1 and mark not in o[2] or o[4]) and o[3] < 10.0)]
            if lost:
                bad.append((text, 'threshold 10 hides %s, which is not a small number' % (lost[:2],)))
            else:
                okc += 1
        if unk:
            rep.anchor(R, lang, 'cannot interpret find_numbers on %r: %s' % unk)
            continue
        rep.check(not bad, R, lang, '%d texts' % okc, 'in %r: %s (%d texts)' % (bad[0] + (len(bad),) if bad else ('', '', 0)))
    rep.floor(R, total, 800, 'texts compared')


def _digits(tx):
    return ''.join(c for c in tx if c.isdigit())


def _occ_tables(ctx, langs=ALL_LANGS):
    import re as _re
    jobs = {}
    for lang in langs:
        lx = lexicon(lang)
        w1, w2 = WORDS[lang]
        sp = lambda n: ' '.join(spellings(lang, n)[0])   # noqa: E731
        texts = []
        for n in (0, 1, 7, 10, 21, 80, 99, 100, 101, 1000, 1999, 21000, 123456, 2 * 10 ** 6, 999 * 10 ** 6 + 999999):
            if spellings(lang, n):
                texts.append('%s %s %s' % (w1, sp(n), w2))
        for n in (1, 2, 3, 11, 21, 100):
            o = ordinal_spellings(lang, n)
            if o:
                texts.append('%s %s %s, %s' % (w1, ' '.join(o[0]), w2, sp(5)))
        texts.append('%s %s %s %s %s' % (sp(3), lx['decimal_sep'], sp(1) if lang not in DIGITS else DIGITS[lang][1], sp(4) if lang not in DIGITS else DIGITS[lang][4], w2))
        texts.append('%s %s, %s. %s %s' % (sp(20), sp(12), sp(2), lx['zero'][0], sp(7)))
        texts.append('%s-%s %s' % (sp(20).split(' ')[0], w1, sp(30)))
        if lang == 'es':
            texts += ['un doceavo de %s' % w1, 'tres centavos']
        texts += [t for t in corpus(lang, ctx.tier) if t not in texts]
        jobs[lang] = [((i, th), t, th) for i, t in enumerate(texts) for th in (0.0, 10.0)]

    def mk():
        global _FACTS, _EV
        _FACTS = ctx.facts
        _EV = {}
        import multiprocessing
        n = min(os.cpu_count() or 1, 16)
        js = list(jobs.items())
        if n < 2 or os.environ.get('T2N_NO_FORK'):
            parts = [_occ_work(j) for j in js]
        else:
            with multiprocessing.get_context('fork').Pool(min(n, len(js))) as pool:
                parts = pool.map(_occ_work, js, chunksize=1)
        return {lang: dict(out) for lang, out in parts}
    res = getattr(ctx, 'memo_disk', ctx.memo)(('sent-occurrences', ctx.tier), mk)
    return jobs, res


def rule_occurrences_in_sentences(ctx, rep, langs=ALL_LANGS):
    R = 'S06-OCCURRENCES'
    rep.rule(R, 'find_numbers over the tokenizer\'s tokens of generated sentences (cardinals, ordinals, decimals, pairs, zeros) in each real language: '
                'every span lies in the stream, spans increase and are disjoint, begin and end on a word token; the text is digits, optionally a '
                'decimal mark and digits, optionally the ordinal marker (es 1/n); the value is the numeric reading of that text; the ordinal flag is '
                'set exactly when the text carries a marker')
    import re as _re
    global _FACTS, _EV
    jobs, res = _occ_tables(ctx)
    total = 0
    for lang in langs:
        lx = lexicon(lang)
        mark = lx['decimal_mark']
        markers = sorted({o['marker'] for o in lx['ordinals']}, key=len, reverse=True)
        bad = []
        okc = 0
        unk = None
        for key, text, th in jobs[lang]:
            r = res[lang][key]
            if r[0] == '?':
                unk = (text, r[1])
                break
            if r[0] == 'panic':
                bad.append((text, 'panics: ' + r[1]))
                continue
            occs, toks = r[1], r[2]
            last_end = 0
            for (s_, e_, tx, val, is_ord) in occs:
                total += 1
                why = None
                if not (0 <= s_ < e_ <= len(toks)) or s_ < last_end:
                    why = 'span %d..%d out of order / out of the %d tokens' % (s_, e_, len(toks))
                elif not (toks[s_][:1].isalnum() and toks[e_ - 1][:1].isalnum()):
                    why = 'span %d..%d does not begin and end on a word token (%r .. %r)' % (s_, e_, toks[s_], toks[e_ - 1])
                else:
                    body, mk_ = tx, None
                    for m_ in markers:
                        if m_ and tx.endswith(m_) and not tx[:-len(m_)][-1:].isalpha():
                            body, mk_ = tx[:-len(m_)], m_
                            break
                    if lang == 'es' and _re.fullmatch(r'1/\d+', body):
                        want_val = 1.0 / float(body[2:])
                    elif _re.fullmatch(r'\d+(%s\d+)?' % _re.escape(mark), body):
                        want_val = float(body.replace(mark, '.'))
                    else:
                        want_val = None
                        why = 'text %r is not a numeral (digits, optional %r + digits, optional marker)' % (tx, mark)
                    if why is None and val != want_val:
                        why = 'text %r has the value %r, its numeric reading is %r' % (tx, val, want_val)
                    if why is None and bool(is_ord) != (mk_ is not None):
                        why = 'text %r is %sflagged ordinal' % (tx, '' if is_ord else 'not ')
                last_end = e_
                if why:
                    bad.append((text + ' @%s' % th, why))
                else:
                    okc += 1
        if unk:
            rep.anchor(R, lang, 'cannot interpret find_numbers on %r: %s' % unk)
            continue
        rep.check(not bad, R, lang, '%d occurrences well-formed' % okc, 'in %r: %s (%d occurrences ill-formed)' % (bad[0] + (len(bad),) if bad else ('', '', 0)))
    rep.floor(R, total, 280, 'occurrences inspected')


def _span_work(job):
    lang, items = job
    from .phrases import validate
    import t2n.rules.phrases as P
    P._FACTS = _FACTS
    out = []
    for key, text, th in items:
        r = occurrences(lang, text, th)
        if r[0] != 'ok':
            out.append((key, r, None))
            continue
        vals = []
        for (s_, e_, tx, val, is_ord) in r[1]:
            words = [w for w in r[2][s_:e_] if w[:1].isalnum()]
            vals.append(validate(lang, [w.lower() for w in words]))
        out.append((key, r, vals))
    return lang, out


def rule_spans_validate(ctx, rep, langs=ALL_LANGS):
    R = 'S07-SPANS-VALIDATE'
    rep.rule(R, 'in each real language, for generated sentences (numbers, pairs with and without conjunction, zeros, ordinals): the words of every '
                'non-decimal occurrence find_numbers reports (threshold 0), validated on their own by text2digits\' path, give the same digit text — '
                'no rejected word inside a span, no dangling conjunction, no digits its own words do not produce')
    global _FACTS, _EV
    jobs = {}
    for lang in langs:
        lx = lexicon(lang)
        w1, w2 = WORDS[lang]
        cj = lx.get('conjunction')
        sp = lambda n: ' '.join(spellings(lang, n)[0])   # noqa: E731
        texts = []
        for n in (1, 12, 21, 70, 99, 100, 101, 121, 1000, 2005, 21000, 100000, 999999, 3 * 10 ** 6 + 5):
            texts.append('%s %s %s' % (w1, sp(n), w2))
            if cj:
                texts.append('%s %s %s %s' % (sp(n), cj, w1, w2))           # dangling conjunction after a number
                texts.append('%s %s %s' % (sp(n), cj, sp(7)))
        for a in (1, 10, 20, 21, 70, 99):
            for b in (1, 6, 10, 12, 20, 99):
                texts.append('%s %s %s %s' % (w1, sp(a), sp(b), w2))
        texts.append('%s %s %s %s' % (lx['zero'][0], lx['zero'][0], sp(7), sp(100)))
        if lx.get('group_syntax') == '-' and cj:
            for a in (20, 30, 60, 100, 120):
                head = sp(a).replace(' ', '-')
                texts.append('%s-%s %s' % (head, cj, sp(1)))        # "vingt-et un": a group ending on the conjunction
                texts.append('%s-%s %s' % (head, cj, w1))
                texts.append('%s %s-%s' % (w1, head, cj))
        for n in (1, 3, 21):
            o = ordinal_spellings(lang, n)
            if o:
                texts.append('%s %s %s' % (' '.join(o[0]), sp(2), w2))
        texts += [t for t in corpus(lang, ctx.tier) if t not in texts]
        jobs[lang] = [((i,), t, 0.0) for i, t in enumerate(texts)]

    def mk():
        global _FACTS, _EV
        _FACTS = ctx.facts
        _EV = {}
        import multiprocessing
        n = min(os.cpu_count() or 1, 16)
        js = []
        for lang, items in jobs.items():
            half = len(items) // 2
            js += [(lang, items[:half]), (lang, items[half:])]
        if n < 2 or os.environ.get('T2N_NO_FORK'):
            parts = [_span_work(j) for j in js]
        else:
            with multiprocessing.get_context('fork').Pool(min(n, len(js))) as pool:
                parts = pool.map(_span_work, js, chunksize=1)
        out = {}
        for lang, o in parts:
            out.setdefault(lang, {}).update({k: (r, v) for k, r, v in o})
        return out
    res = getattr(ctx, 'memo_disk', ctx.memo)(('sent-spans', ctx.tier), mk)
    total = 0
    for lang in langs:
        mark = lexicon(lang)['decimal_mark']
        bad, okc, unk = [], 0, None
        for key, text, th in jobs[lang]:
            r, vals = res[lang][key]
            if r[0] == '?':
                unk = (text, r[1])
                break
            if r[0] != 'ok':
                continue
            for (s_, e_, tx, val, is_ord), v in zip(r[1], vals):
                if mark in tx and not is_ord:
                    continue
                total += 1
                if v[0] == '?':
                    unk = (text, v[1])
                    break
                want = ('Ok', tx)
                got = (v[0], (v[1] + (v[2] or '')) if v[0] == 'Ok' else v[1])
                if got != want:
                    bad.append((text, 'the span %r over tokens %d..%d validates on its own to %s' % (tx, s_, e_, got)))
                else:
                    okc += 1
        if unk:
            rep.anchor(R, lang, 'cannot interpret %r: %s' % unk)
            continue
        rep.check(not bad, R, lang, '%d spans validate to their own text' % okc, 'in %r %s (%d spans)' % (bad[0] + (len(bad),) if bad else ('', '', 0)))
    rep.floor(R, total, 500, 'spans validated')


LINKING = {'en': ('plus', 'is'), 'fr': ('plus', 'voilà'), 'es': ('menos', 'son'), 'pt': ('mais', 'são'), 'it': ('più', 'è'), 'de': ('noch', 'genau'),
           'nl': ('plus', 'is')}


def rule_numbers_after_linking(ctx, rep, langs=ALL_LANGS):
    R = 'S07-AFTER-LINKING'
    rep.rule(R, 'replace_numbers_in_text(threshold 0) in each real language: a number that follows a free-standing conjunction, linking word or '
                'separator word ("cats and thousand dogs") is found exactly as without that word — a word the interpreter answers Incomplete / '
                'rejects outside a number must leave nothing behind that makes the next number word unreadable')
    ns = [1, 2, 5, 9, 10, 11, 12, 16, 20, 21, 70, 80, 90, 100, 101, 200, 1000, 2000, 1100, 10 ** 6, 2 * 10 ** 6]
    jobs = {}
    for lang in langs:
        lx = lexicon(lang)
        w1, w2 = WORDS[lang]
        links = [x for x in [lx.get('conjunction')] + list(LINKING[lang]) + [lx['decimal_sep']] if x]
        items = []
        phrases = [' '.join(spellings(lang, n)[0]) for n in ns if spellings(lang, n)]
        # every single word of the vocabulary as well: bare scale words ("tausend", "mille", "hundred") are numbers on their own
        phrases += [c['w'] for c in lx['cardinals'] if c['tier'] == 'core' and c['w'] not in phrases]
        for n, phrase in enumerate(phrases):
            items.append((('bare', n), '%s %s %s' % (w1, phrase, w2), 0.0))
            for li, lk in enumerate(links):
                if ctx.tier != 'thorough' and li not in (0, len(links) - 1) and n % 4:
                    continue           # quick: the conjunction and the separator word for every phrase, the other linking words for a quarter
                items.append((('after', n, li), '%s %s %s %s' % (w1, lk, phrase, w2), 0.0))
                if ctx.tier == 'thorough' or li == 0:
                    items.append((('twice', n, li), '%s %s %s %s %s' % (w1, lk, lk, phrase, w2), 0.0))
        jobs[lang] = (items, links)
    res = _memo(ctx, 'sent-after-linking', {k: v[0] for k, v in jobs.items()})
    total = 0
    for lang in langs:
        items, links = jobs[lang]
        w1, w2 = WORDS[lang]
        bad, okc = [], 0
        for key, text, th in items:
            if key[0] == 'bare':
                continue
            total += 1
            r0, r = res[lang][('bare', key[1])], res[lang][key]
            if '?' in (r0[0], r[0]):
                bad.append((text, r if r[0] == '?' else r0, ''))
                continue
            if r0[0] != 'ok' or not r0[1].startswith(w1 + ' '):
                continue
            lk = links[key[2]]
            want = w1 + ' ' + (lk + ' ' if key[0] == 'after' else lk + ' ' + lk + ' ') + r0[1][len(w1) + 1:]
            if r != ('ok', want):
                bad.append((text, r, want))
            else:
                okc += 1
        _report(rep, R, lang, 'after-linking', bad, okc)
    rep.floor(R, total, 900, 'sentences rewritten')


def rule_linking_case(ctx, rep, langs=ALL_LANGS):
    R = 'S11-LINKING-CASE'
    rep.rule(R, 'replace_numbers_in_text at thresholds 0 and 10 in each real language: small numbers joined by linking words of the language\'s '
                'vocabulary ("one plus one is two") are rewritten whatever the case of any word — lower, UPPER, Capitalised give the same numbers, '
                'the other words keeping their case; an ordinary word between them keeps them isolated in every casing')
    jobs = {}
    for lang in langs:
        l1, l2 = LINKING[lang]
        w1, w2 = WORDS[lang]
        sp = lambda n: ' '.join(spellings(lang, n)[0])   # noqa: E731
        base = ['%s %s %s %s %s' % (sp(1), l1, sp(1), l2, sp(2)), '%s %s %s %s' % (w1, sp(2), l1, sp(3)), '%s %s %s' % (sp(2), w1, sp(3))]
        items = []
        for bi, t in enumerate(base):
            for ci, tt in enumerate((t, t.upper(), t.title())):
                for th in (0.0, 10.0):
                    items.append(((bi, ci, th), tt, th))
        jobs[lang] = items
    res = _memo(ctx, 'sent-linking-case', jobs)
    total = 0
    for lang in langs:
        bad, okc = [], 0
        for (bi, ci, th), text, _th in jobs[lang]:
            if ci == 0:
                continue
            total += 1
            r0, r = res[lang][(bi, 0, th)], res[lang][(bi, ci, th)]
            if '?' in (r0[0], r[0]):
                bad.append((text, r if r[0] == '?' else r0, ''))
                continue
            if r0[0] != 'ok' or r[0] != 'ok':
                bad.append((text + ' @%s' % th, r, 'no panic'))
                continue
            # same numbers: compare case-insensitively (digits have no case, untouched words keep theirs)
            keeps_case = all(w in text.split(' ') or any(c.isdigit() for c in w) for w in r[1].split(' '))
            if r[1].lower() != r0[1].lower() or not keeps_case:
                bad.append((text + ' @%s' % th, r, r0[1] + ' (same numbers, words in their own case)'))
            else:
                okc += 1
        _report(rep, R, lang, 'linking-words', bad, okc)
    rep.floor(R, total, 80, 'sentences compared')
