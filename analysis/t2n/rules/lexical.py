"""Family A, shared parts: reference lexicons, number spelling, grammar context tables and the context rules
A1b SCALE-CONTEXTS, A1c COMPOSE-CONTEXTS, A2b GROUP-ORDINAL, A7b BLOCK-CONTEXTS, A9b ZERO-INVARIANCE.
The word-level rules (A1..A10) live in lexeval.py.  Everything is decided by evaluating the interpreter source.
"""
import json
import os
import re

from .. import hir as H
from ..armtable import Compound, Splitter
from ..lexvm import LexVM as LexEvaluator
from ..facts import LANGS, TRAIT, interp_method
from ..peval import Builder, Marker, Res, Unanalysable

LEXDIR = os.path.join(os.path.dirname(os.path.dirname(os.path.dirname(os.path.dirname(os.path.abspath(__file__))))), 'lexicon')
ALL_LANGS = sorted(LANGS)


def lexicon(lang):
    with open(os.path.join(LEXDIR, lang + '.json')) as fh:
        return json.load(fh)


def evaluator(ctx, lang):
    return ctx.memo(('lexev', lang), lambda: LexEvaluator(ctx.facts, lang))


def expected_ops(lang, cls, v):
    """Placing leaves an arm of this class must consist of (signature strings)."""
    d = str(v)
    if cls in ('unit', 'teen', 'ten_unit', 'hundred_lex', 'hundred_unit', 'thousand_lex'):
        return {'put(b"%s")' % d}
    if cls == 'ten':
        if lang in ('de', 'nl'):
            return {'put_digit_at(%d, 1)' % ord(d[0])}
        return {'put(b"%s")' % d}
    if cls == 'vig_teen':
        x = v - 10
        return {'fput(b"7%d")' % x, 'fput(b"9%d")' % x, 'put(b"1%d")' % x}
    if cls == 'vig_vingt':
        return {'fput(b"80")', 'put(b"20")'}
    return {'shift(%d)' % {'hundred': 2, 'thousand': 3, 'million': 6, 'milliard': 9, 'billion12': 12}[cls]}


# ---------------------------------------------------------------------------------------
def spell(lang, n):
    """Compact (single-token) standard spelling of 1 <= n < 10^6 for the compounding languages."""
    if lang == 'de':
        U = ['', 'ein', 'zwei', 'drei', 'vier', 'fünf', 'sechs', 'sieben', 'acht', 'neun']
        T = ['zehn', 'elf', 'zwölf', 'dreizehn', 'vierzehn', 'fünfzehn', 'sechzehn', 'siebzehn', 'achtzehn', 'neunzehn']
        Z = ['', '', 'zwanzig', 'dreißig', 'vierzig', 'fünfzig', 'sechzig', 'siebzig', 'achtzig', 'neunzig']

        def below100(k, final):
            if k == 0:
                return ''
            if k < 10:
                return 'eins' if (k == 1 and final) else U[k]
            if k < 20:
                return T[k - 10]
            u, z = k % 10, k // 10
            return (U[u] + 'und' if u else '') + Z[z]

        def below1000(k, final=True):
            h, r = k // 100, k % 100
            return (U[h] + 'hundert' if h else '') + below100(r, final)
        t, r = n // 1000, n % 1000
        return (below1000(t, False) + 'tausend' if t else '') + below1000(r)
    if lang == 'nl':
        U = ['', 'een', 'twee', 'drie', 'vier', 'vijf', 'zes', 'zeven', 'acht', 'negen']
        T = ['tien', 'elf', 'twaalf', 'dertien', 'veertien', 'vijftien', 'zestien', 'zeventien', 'achttien', 'negentien']
        Z = ['', '', 'twintig', 'dertig', 'veertig', 'vijftig', 'zestig', 'zeventig', 'tachtig', 'negentig']

        def below100(k):
            if k == 0:
                return ''
            if k < 10:
                return U[k]
            if k < 20:
                return T[k - 10]
            u, z = k % 10, k // 10
            if not u:
                return Z[z]
            return U[u] + ('ën' if U[u].endswith('e') else 'en') + Z[z]

        def below1000(k):
            h, r = k // 100, k % 100
            return ((U[h] if h > 1 else '') + 'honderd' if h else '') + below100(r)
        t, r = n // 1000, n % 1000
        return ((below1000(t) if t > 1 else '') + 'duizend' if t else '') + below1000(r)
    if lang == 'it':
        U = ['', 'uno', 'due', 'tre', 'quattro', 'cinque', 'sei', 'sette', 'otto', 'nove']
        T = ['dieci', 'undici', 'dodici', 'tredici', 'quattordici', 'quindici', 'sedici', 'diciassette', 'diciotto', 'diciannove']
        Z = ['', '', 'venti', 'trenta', 'quaranta', 'cinquanta', 'sessanta', 'settanta', 'ottanta', 'novanta']

        def below100(k):
            if k == 0:
                return ''
            if k < 10:
                return U[k]
            if k < 20:
                return T[k - 10]
            u, z = k % 10, k // 10
            s = Z[z]
            if u in (1, 8):
                s = s[:-1]
            if u == 3:
                return s + 'tré'
            return s + U[u]

        def below1000(k):
            h, r = k // 100, k % 100
            return ((U[h] if h > 1 else '') + 'cento' if h else '') + below100(r)
        t, r = n // 1000, n % 1000
        if t == 0:
            return below1000(r)
        return ('mille' if t == 1 else below1000(t) + 'mila') + below1000(r)
    raise ValueError(lang)


def spell_ordinal(lang, n):
    """Compact standard spelling of the n-th ordinal (masculine/base form) for the compounding languages."""
    if lang == 'de':
        U = {1: 'erste', 2: 'zweite', 3: 'dritte', 4: 'vierte', 5: 'fünfte', 6: 'sechste', 7: 'siebte', 8: 'achte', 9: 'neunte',
             10: 'zehnte', 11: 'elfte', 12: 'zwölfte'}
        r = n % 100
        head = n - r
        hs = spell('de', head) if head else ''
        if r == 0:
            return spell('de', n) + 'ste'
        if r in U:
            return hs + U[r]
        if r < 20:
            return hs + spell('de', r) + 'te'
        return hs + spell('de', r) + 'ste'
    if lang == 'nl':
        U = {1: 'eerste', 2: 'tweede', 3: 'derde', 4: 'vierde', 5: 'vijfde', 6: 'zesde', 7: 'zevende', 8: 'achtste', 9: 'negende',
             10: 'tiende', 11: 'elfde', 12: 'twaalfde'}
        r = n % 100
        head = n - r
        hs = spell('nl', head) if head else ''
        if r == 0:
            return spell('nl', n) + 'ste'
        if r in U:
            return hs + U[r]
        if r < 20:
            return hs + spell('nl', r) + 'de'
        return hs + spell('nl', r) + 'ste'
    if lang == 'it':
        U = {1: 'primo', 2: 'secondo', 3: 'terzo', 4: 'quarto', 5: 'quinto', 6: 'sesto', 7: 'settimo', 8: 'ottavo', 9: 'nono', 10: 'decimo'}
        if n in U:
            return U[n]
        c = spell('it', n)
        if n % 100 == 10:
            return c[:-5] + 'decimo'           # centodecimo, not *centodiecesimo
        if c.endswith('tré'):
            return c[:-3] + 'treesimo'
        if c.endswith('tre'):
            return c + 'esimo'                 # centotreesimo
        if c.endswith('sei'):
            return c + 'esimo'
        if c.endswith('mila'):
            return c[:-4] + 'millesimo'
        return c[:-1] + 'esimo'
    raise ValueError(lang)


# ---------------------------------------------------------------------------------------
# ---------------------------------------------------------------------------------------
# Context tables: scale words after a multiplier, blocked words after their blocker.  The builder state after
# the first word is a constant of the grammar (its digits, and the flags the first word's own arm stores), so
# the second word's arm selection and guards can be evaluated like the rest of the lexical fragment.

THOUSAND_M = [2, 3, 10, 11, 12, 20, 21, 30, 99, 100, 101, 110, 111, 120, 200, 201, 999]
MILLION_M = [2, 21, 100, 101, 999]
SCALE_CONTEXTS = {
    # lang: [(word, class, multipliers accepted, bare accepted?, multipliers rejected)]
    'en': [('hundred', 'hundred', list(range(1, 10)), True, []), ('thousand', 'thousand', [1] + THOUSAND_M, True, []),
           ('million', 'million', [1] + MILLION_M, True, []), ('billion', 'milliard', [1] + MILLION_M, True, [])],
    'fr': [('cent', 'hundred', list(range(2, 10)), True, [1]), ('cents', 'hundred', list(range(2, 10)), True, [1]),
           ('mille', 'thousand', THOUSAND_M, True, [1]), ('million', 'million', [1] + MILLION_M, True, []),
           ('millions', 'million', MILLION_M, True, []), ('milliard', 'milliard', [1] + MILLION_M, True, []),
           ('milliards', 'milliard', MILLION_M, True, [])],
    'es': [('mil', 'thousand', THOUSAND_M, True, [1]), ('millón', 'million', [1], True, []), ('millones', 'million', MILLION_M, True, [])],
    'pt': [('mil', 'thousand', THOUSAND_M, True, [1]), ('milhão', 'million', [1], True, []), ('milhões', 'million', MILLION_M, True, [])],
    'it': [('cento', 'hundred', list(range(2, 10)), True, [1]), ('mila', 'thousand', THOUSAND_M, False, [1]),
           ('milione', 'million', [1], False, [2, 21]), ('milioni', 'million', MILLION_M, False, [1]),
           ('miliardo', 'milliard', [1], False, [2, 21]), ('miliardi', 'milliard', MILLION_M, False, [1])],
    'de': [('hundert', 'hundred', list(range(1, 10)), True, []), ('tausend', 'thousand', [1] + THOUSAND_M, True, []),
           ('millionen', 'million', MILLION_M, True, []), ('milliarden', 'milliard', MILLION_M, True, [])],
    'nl': [('honderd', 'hundred', list(range(2, 10)), True, [1]), ('duizend', 'thousand', THOUSAND_M, True, [1]),
           ('miljoen', 'million', [1] + MILLION_M, True, []), ('miljard', 'milliard', [1] + MILLION_M, True, [])],
}
# flags stored by the word that ends the multiplier, where the scale arm looks at them (pt only)
PT_FLAGS_AFTER = {100: 'cem'}


def pt_flags_after(ctx, m):
    """Flags the last word of the multiplier m stores (pt only: "cem" restricts what may follow)."""
    w = PT_FLAGS_AFTER.get(m)
    if w is None:
        return 0
    def go():
        r, b = evaluator(ctx, 'pt').run_apply(w)
        return b.flags.bits if hasattr(b.flags, 'bits') else b.flags
    return ctx.memo(('pt_flags_after', w), go)


def rule_scale_contexts(ctx, rep, langs=ALL_LANGS):
    R = 'A1b-SCALE-CONTEXTS'
    rep.rule(R, 'hundred / thousand / million / milliard words, evaluated on the builder state left by each multiplier of the '
                'grammar table (digits of m, flags of its last word), issue their shift; multipliers the language forbids are refused')
    n = 0
    for lang in langs:
        ev = evaluator(ctx, lang)
        for word, cls, ok_m, bare_ok, bad_m in SCALE_CONTEXTS.get(lang, []):
            want = sorted(expected_ops(lang, cls, 0))[0]
            cases = [(None, bare_ok)] + [(m, True) for m in ok_m] + [(m, False) for m in bad_m]
            for m, accept in cases:
                n += 1
                flags = pt_flags_after(ctx, m) if lang == 'pt' else 0
                b0 = Builder() if m is None else Builder(digits=str(m).encode(), flags=flags)
                ent = '%s|%s|after %s' % (lang, word, 'nothing' if m is None else m)
                try:
                    r, b = ev.run_apply(word, b0)
                except Compound:
                    rep.violation(R, ent, 'scale word "%s" is split by the word splitter' % word)
                    continue
                except Unanalysable as e:
                    rep.anchor(R, ent, 'apply("%s") left the analysable fragment: %s' % (word, e))
                    continue
                ops = ['%s(%s)' % (o[0], ', '.join(str(x) for x in o[1:])) for o in b.ops if o[0] != 'freeze']
                got_ok = isinstance(r, Res) and r.ok
                loc = None
                if accept:
                    rep.check(got_ok and ops == [want], R, ent, '%s -> %s' % ('"%s" after %s' % (word, m), want),
                              '"%s" after the multiplier %s is %r with %s, expected Ok with [%s]: the standard spelling of %s is rejected or split' % (
                                  word, m, r, ops, want, ('%d x 10^k' % m) if m else 'the bare scale word'), loc)
                else:
                    rep.check(not got_ok, R, ent, '"%s" after %s is refused' % (word, 'nothing' if m is None else m),
                              '"%s" after %s is accepted (%s) although the language does not allow that multiplier' % (word, m, ops), loc)
    rep.floor(R, n, 280, 'scale-word contexts evaluated')


BLOCK_CONTEXTS = {
    # lang: [(first words, second words that must be refused right after, second words that must stay accepted)]
    'fr': [(['dix'], ['un', 'deux', 'trois', 'quatre', 'cinq', 'six'], ['sept', 'huit', 'neuf']),
           (['vingt', 'trente', 'quarante', 'cinquante', 'soixante', 'septante', 'huitante', 'octante', 'nonante'], ['un'],
            ['deux', 'trois', 'quatre', 'cinq', 'six', 'sept', 'huit', 'neuf'])],
    'de': [(['ein', 'zwei', 'drei', 'vier', 'fünf', 'sechs', 'sieben', 'acht', 'neun'],
            ['zwanzig', 'dreißig', 'vierzig', 'fünfzig', 'sechzig', 'siebzig', 'achtzig', 'neunzig'], [])],
    'nl': [(['een', 'twee', 'drie', 'vier', 'vijf', 'zes', 'zeven', 'acht', 'negen'],
            ['twintig', 'dertig', 'veertig', 'vijftig', 'zestig', 'zeventig', 'tachtig', 'negentig'], [])],
    'pt': [(['cem'], ['um', 'dois', 'dez', 'onze', 'vinte', 'noventa', 'duzentos'], [])],
}


def rule_block_contexts(ctx, rep, langs=ALL_LANGS):
    R = 'A7b-BLOCK-CONTEXTS'
    rep.rule(R, 'the flags a word stores really block the words its class must keep apart: evaluated on the builder state (digits, '
                'flags) the first word leaves on a fresh builder, the second word is refused (resp. still accepted)')
    n = 0
    for lang in langs:
        ev = evaluator(ctx, lang)
        for firsts, refused, accepted in BLOCK_CONTEXTS.get(lang, []):
            for f1 in firsts:
                try:
                    r1, b1 = ev.run_apply(f1)
                except (Compound, Unanalysable) as e:
                    rep.anchor(R, '%s|%s' % (lang, f1), 'cannot evaluate apply("%s"): %s' % (f1, e))
                    continue
                digits = _digits_after(b1)
                if not (isinstance(r1, Res) and r1.ok) or digits is None:
                    rep.anchor(R, '%s|%s' % (lang, f1), 'first word "%s" is not accepted on a fresh builder (%r)' % (f1, r1))
                    continue
                for w2, must_refuse in [(w, True) for w in refused] + [(w, False) for w in accepted]:
                    n += 1
                    ent = '%s|%s %s' % (lang, f1, w2)
                    try:
                        r2, b2 = ev.run_apply(w2, Builder(digits=digits, flags=b1.flags))
                    except (Compound, Unanalysable) as e:
                        rep.anchor(R, ent, 'cannot evaluate apply("%s"): %s' % (w2, e))
                        continue
                    ok2 = isinstance(r2, Res) and r2.ok
                    if must_refuse:
                        rep.check(not ok2, R, ent, '"%s" right after "%s" is refused' % (w2, f1),
                                  '"%s" right after "%s" is accepted (flags %s): the two numbers are fused' % (w2, f1, b1.flags))
                    else:
                        rep.check(ok2, R, ent, '"%s" right after "%s" is accepted' % (w2, f1),
                                  '"%s" right after "%s" is refused (%r): a standard compound is rejected' % (w2, f1, r2))
    rep.floor(R, n, 150, 'blocking contexts evaluated')


def _digits_after(b):
    """Digits a fresh builder holds after the single logged placing operation."""
    ops = [o for o in b.ops if o[0] in ('put', 'fput', 'put_digit_at', 'shift', 'push')]
    if len(ops) != 1:
        return None
    o = ops[0]
    if o[0] in ('put', 'fput', 'push'):
        return bytes(o[1])
    if o[0] == 'put_digit_at':
        return bytes([o[1]]) + b'0' * o[2]
    if o[0] == 'shift':
        return b'1' + b'0' * o[1]
    return None


# ---------------------------------------------------------------------------------------
GROUP_ORDINALS = {
    # lang: (compound ordinal token, digits of the group, marker the group / the token carries)
    'en': ('twenty-first', b'21', 'st'), 'fr': ('vingt-et-unième', b'21', 'ème'), 'de': ('einundzwanzigste', b'21', '.'),
    'nl': ('eenentwintigste', b'21', 'e'), 'it': ('ventitreesimo', b'23', 'º'),
}


def rule_group_ordinal(ctx, rep, langs=ALL_LANGS):
    R = 'A2b-GROUP-ORDINAL'
    rep.rule(R, 'the group path of apply (hyphen groups en/fr, compound words de/nl/it), evaluated with an abstract group result, '
                'places the group digits with one put, carries the ordinal marker over and freezes the builder')
    from ..peval import Res as _Res
    for lang in langs:
        if lang not in GROUP_ORDINALS:
            continue
        word, digits, mk = GROUP_ORDINALS[lang]
        ev = LexEvaluator(ctx.facts, lang)
        ds = Builder(digits=digits, marker=Marker('Ordinal', mk))
        ds.frozen = True
        ev.group_result = _Res(True, ds)
        ent = '%s|%s' % (lang, word)
        try:
            r, b = ev.run_apply(word)
        except Unanalysable as e:
            rep.anchor(R, ent, 'group path of apply left the analysable fragment: %s' % e)
            continue
        except Compound:
            rep.anchor(R, ent, 'group path not taken')
            continue
        puts = [o for o in b.ops if o[0] in ('put', 'fput', 'push', 'shift', 'put_digit_at')]
        problems = []
        if not (isinstance(r, _Res) and r.ok):
            problems.append('returns %r' % (r,))
        if puts != [('put', digits)]:
            problems.append('places %s, expected one put of the group digits' % puts)
        if b.marker != Marker('Ordinal', mk):
            problems.append('marker is %r, expected Ordinal(%r)' % (b.marker, mk))
        if not b.frozen:
            problems.append('builder not frozen after the ordinal group')
        rep.check(not problems, R, ent, 'group digits placed once, marker %s kept, builder frozen' % mk,
                  'compound ordinal "%s": %s' % (word, '; '.join(problems)))
        # a failing group must be propagated unchanged, with nothing placed
        ev2 = LexEvaluator(ctx.facts, lang)
        ev2.group_result = _Res(False, 'NaN')
        try:
            r2, b2 = ev2.run_apply(word)
            rep.check(isinstance(r2, _Res) and not r2.ok and not b2.ops, R, ent + '|error', 'a rejected group places nothing and is reported',
                      'a rejected group yields %r with operations %s' % (r2, b2.ops))
        except (Unanalysable, Compound) as e:
            rep.anchor(R, ent + '|error', 'error path not analysable: %s' % e)


COMPOSE = {
    # lang: [(first words, second-word classes that must be accepted right after, flags override)]
    'en': [(['twenty', 'thirty', 'forty', 'fifty', 'sixty', 'seventy', 'eighty', 'ninety'], ['unit'], None),
           (['hundred', 'thousand', 'million'], ['unit', 'teen', 'ten'], None)],
    'fr': [(['vingt', 'trente', 'quarante', 'cinquante', 'soixante'], ['unit!un'], None),
           (['cent', 'mille', 'million'], ['unit', 'vig_teen', 'vig_vingt', 'ten'], None)],
    'es': [(['treinta', 'cuarenta', 'cincuenta', 'sesenta', 'setenta', 'ochenta', 'noventa'], ['unit'], None),
           (['ciento', 'doscientos', 'mil'], ['unit', 'teen', 'ten', 'ten_unit'], None)],
    'pt': [(['vinte', 'trinta', 'quarenta', 'cinquenta', 'sessenta', 'setenta', 'oitenta', 'noventa'], ['unit'], 1),
           (['cento', 'duzentos', 'mil'], ['unit', 'teen', 'ten'], 1)],
    'it': [(['cento', 'mille'], ['unit', 'teen', 'ten', 'ten_unit'], None)],
    'de': [(['hundert', 'tausend'], ['unit', 'teen', 'ten'], None)],
    'nl': [(['honderd', 'duizend'], ['unit', 'teen', 'ten'], None)],
}


def rule_compose_contexts(ctx, rep, langs=ALL_LANGS):
    R = 'A1c-COMPOSE-CONTEXTS'
    rep.rule(R, 'a smaller number word right after a tens / hundred / thousand word (builder state = what that word leaves on a fresh '
                'builder) is accepted with its own instruction: the guards are not stricter than the grammar')
    n = 0
    for lang in langs:
        lx = lexicon(lang)
        ev = evaluator(ctx, lang)
        cards = [c for c in lx['cardinals'] if c['tier'] == 'core']
        for firsts, classes, flags_override in COMPOSE.get(lang, []):
            for f1 in firsts:
                try:
                    r1, b1 = ev.run_apply(f1)
                except (Compound, Unanalysable) as e:
                    rep.anchor(R, '%s|%s' % (lang, f1), 'cannot evaluate apply("%s"): %s' % (f1, e))
                    continue
                digits = _digits_after(b1)
                if not (isinstance(r1, Res) and r1.ok) or digits is None:
                    rep.anchor(R, '%s|%s' % (lang, f1), '"%s" is not accepted on a fresh builder (%r)' % (f1, r1))
                    continue
                flags = b1.flags if flags_override is None else flags_override
                for cspec in classes:
                    cls, _, excl = cspec.partition('!')
                    for c in cards:
                        if c['class'] != cls or c['w'] == excl:
                            continue
                        if len(str(c['v'])) > len(digits) or (len(str(c['v'])) == len(digits) and cls != 'unit' and not digits.endswith(b'0' * len(str(c['v'])))):
                            continue
                        if not digits.endswith(b'0' * len(str(c['v']))):
                            continue
                        n += 1
                        ent = '%s|%s %s' % (lang, f1, c['w'])
                        try:
                            r2, b2 = ev.run_apply(c['w'], Builder(digits=digits, flags=flags))
                        except (Compound, Unanalysable) as e:
                            rep.anchor(R, ent, 'cannot evaluate apply("%s"): %s' % (c['w'], e))
                            continue
                        ops = [o for o in b2.ops if o[0] != 'freeze']
                        want_op = sorted(expected_ops(lang, 'unit' if cls.startswith('vig') and False else cls, c['v']))
                        ok = isinstance(r2, Res) and r2.ok and len(ops) == 1 and ops[0][0] in ('put', 'put_digit_at')
                        rep.check(ok, R, ent, '"%s" after "%s" is accepted' % (c['w'], f1),
                                  '"%s" right after "%s" (builder %s) is %r with %s: the standard spelling of %s+%d is rejected' % (
                                      c['w'], f1, digits.decode(), r2, ops, digits.decode(), c['v']))
    rep.floor(R, n, 500, 'composition contexts evaluated')


# ---------------------------------------------------------------------------------------
GROUP_TOKENS = {'en': 'twenty-one', 'fr': 'vingt-deux', 'de': 'einundzwanzig', 'nl': 'eenentwintig', 'it': 'ventidue'}


def rule_zero_invariance(ctx, rep, langs=ALL_LANGS):
    R = 'A9b-ZERO-INVARIANCE'
    rep.rule(R, 'leading zeros never change how the next word is interpreted: for every core cardinal word, scale-word context and '
                'group path, apply evaluated on a builder with k leading zeros decides and instructs exactly as with none')
    n = 0

    def outcome(ev, word, digits, k, flags=0):
        b0 = Builder(digits=digits, leading_zeroes=k, flags=flags)
        r, b = ev.run_apply(word, b0)
        return (isinstance(r, Res) and r.ok, repr(r) if not (isinstance(r, Res) and r.ok) else 'Ok',
                tuple(o for o in b.ops), repr(b.marker), b.frozen)

    for lang in langs:
        lx = lexicon(lang)
        ev = evaluator(ctx, lang)
        cases = []   # (label, word, digits, flags, evaluator)
        for c in lx['cardinals']:
            if c['tier'] == 'core':
                cases.append(('%s' % c['w'], c['w'], b'', 0, ev))
        for word, cls, ok_m, bare_ok, bad_m in SCALE_CONTEXTS.get(lang, []):
            for m in [x for x in (1, 2, 21, 101) if x in ok_m or x in bad_m]:
                cases.append(('%s after %d' % (word, m), word, str(m).encode(), pt_flags_after(ctx, m) if lang == 'pt' else 0, ev))
        if lang in GROUP_TOKENS:
            for gd in (b'21', b'1200', b'21000'):
                gev = LexEvaluator(ctx.facts, lang)
                gev.group_result = Res(True, Builder(digits=gd))
                cases.append(('group %s' % gd.decode(), GROUP_TOKENS[lang], b'', 0, gev))
        for label, word, digits, flags, e in cases:
            try:
                base = outcome(e, word, digits, 0, flags)
                diffs = []
                for k in (1, 3, 6):
                    n += 1
                    o = outcome(e, word, digits, k, flags)
                    if o != base:
                        diffs.append((k, o[1], [x for x in o[2]]))
            except (Unanalysable, Compound) as ex:
                rep.anchor(R, '%s|%s' % (lang, label), 'not analysable: %s' % ex)
                continue
            ent = '%s|%s' % (lang, label)
            if diffs:
                k, res, ops = diffs[0]
                rep.violation(R, ent, '"%s"%s: without leading zeros apply gives %s %s, after %d spoken zero(s) it gives %s %s — zeros before a number '
                              'change how it is read' % (word, (' (builder %s)' % digits.decode()) if digits else '', base[1], list(base[2]), k, res, ops))
            else:
                rep.ok(R, ent, 'same decision and instruction with 0, 1, 3 and 6 leading zeros')
    rep.floor(R, n, 900, 'zero-invariance evaluations')


# ---------------------------------------------------------------------------------------