"""Family A: the word -> instruction tables against the frozen reference lexicons.

A1 LEX-CARD, A2 LEX-ORD, A3 SPLIT-CLOSURE, A4 DEC-TABLE, A5 SEP-MARK, A6 ZERO-ARM, A7 GUARD-ATOMS,
A9 LEN-ZERO-SENSITIVE, A10 CONJ.
"""
import json
import os
import re

from .. import hir as H
from ..armtable import Compound, LexEvaluator, Splitter, Table, splitter_patterns
from ..facts import LANGS, TRAIT, interp_method
from ..peval import Builder, Marker, Res, Unanalysable

LEXDIR = os.path.join(os.path.dirname(os.path.dirname(os.path.dirname(os.path.dirname(os.path.abspath(__file__))))), 'lexicon')
ALL_LANGS = sorted(LANGS)


def lexicon(lang):
    with open(os.path.join(LEXDIR, lang + '.json')) as fh:
        return json.load(fh)


def table(ctx, lang, method='apply'):
    return ctx.memo(('table', lang, method), lambda: Table(ctx.facts, lang, method))


def evaluator(ctx, lang):
    return ctx.memo(('lexev', lang), lambda: LexEvaluator(ctx.facts, lang))


def expected_ops(lang, cls, v):
    """Placing leaves an arm of this class must consist of (signature strings)."""
    d = str(v)
    if cls in ('unit', 'teen', 'ten_unit', 'hundred_lex', 'hundred_unit', 'thousand_lex'):
        return {'put(b"%s")' % d}
    if cls == 'ten':
        if lang in ('de', 'nl'):
            return {'put_digit_at(%d, 1)' % ord(d[0])}
        return {'put(b"%s")' % d}
    if cls == 'vig_teen':
        x = v - 10
        return {'fput(b"7%d")' % x, 'fput(b"9%d")' % x, 'put(b"1%d")' % x}
    if cls == 'vig_vingt':
        return {'fput(b"80")', 'put(b"20")'}
    return {'shift(%d)' % {'hundred': 2, 'thousand': 3, 'million': 6, 'milliard': 9, 'billion12': 12}[cls]}


def placing(leaves):
    return {l.sig() for l in leaves if l.kind == 'op'}


def lookup(ctx, lang, word):
    """(lemma, [arms]) for a surface word, via partial evaluation of the scrutinee."""
    t = table(ctx, lang)
    ev = evaluator(ctx, lang)
    lem = ev.lemma(t, word)
    return lem, t.arms_for(lem)


def _loc(ctx, arm):
    return ctx.facts.loc(arm.sp)


# ---------------------------------------------------------------------------------------
def rule_lex_card(ctx, rep, langs=ALL_LANGS):
    R = 'A1-LEX-CARD'
    rep.rule(R, 'every core cardinal form of the reference lexicon selects an arm of the word table whose placing leaves '
                'realise the instruction its class prescribes for its value')
    n = 0
    for lang in langs:
        lx = lexicon(lang)
        try:
            t = table(ctx, lang)
        except Unanalysable as e:
            rep.anchor(R, lang, 'word table of %s is not analysable: %s' % (lang, e))
            continue
        ev = evaluator(ctx, lang)
        for c in lx['cardinals']:
            w, v, cls, tier = c['w'], c['v'], c['class'], c['tier']
            ent = '%s|%s' % (lang, w)
            try:
                lem, arms = lookup(ctx, lang, w)
            except Unanalysable as e:
                rep.anchor(R, ent, 'cannot evaluate the lemmatizer on "%s": %s' % (w, e))
                continue
            n += 1
            if not arms:
                if tier == 'core':
                    rep.violation(R, ent, '"%s" (%d) has no arm in the %s word table (lemma "%s"): the standard spelling of every number '
                                  'containing it is rejected or split' % (w, v, lang, lem), ctx.facts.loc(t.body['sp']))
                else:
                    rep.info(R, ent, 'variant form "%s" is not supported by the tree' % w)
                continue
            arm = arms[0]
            want = expected_ops(lang, cls, v)
            got = placing(t.leaves(arm))
            if got != want:
                rep.violation(R, ent, '"%s" should place %s (class %s, value %d) but its arm places %s' % (w, sorted(want), cls, v, sorted(got)), _loc(ctx, arm))
                continue
            # vigesimal arms: the conditions select 60 / 80 (resp. 4) as predecessor
            if cls in ('vig_teen', 'vig_vingt'):
                bad = []
                for l in t.leaves(arm):
                    if l.kind == 'op' and l.op == 'fput':
                        tens = bytes(l.args[0])[:1]
                        need = {b'7': 'b"60"', b'9': 'b"90"' if False else 'b"80"', b'8': 'b"4"'}[tens]
                        if not any(need in cnd for cnd in l.conds):
                            bad.append('%s under %s' % (l.sig(), l.conds))
                if bad:
                    rep.violation(R, ent, 'vigesimal leaf with the wrong predecessor test: %s' % bad, _loc(ctx, arm))
                    continue
            # on a fresh builder the word alone must be accepted with exactly that instruction
            if cls in ('unit', 'teen', 'ten', 'ten_unit', 'hundred_lex', 'thousand_lex', 'vig_teen', 'vig_vingt'):
                try:
                    r, b = ev.run_apply(w)
                    ops = ['%s(%s)' % (o[0], ', '.join(('b"%s"' % x.decode() if isinstance(x, bytes) else str(x)) for x in o[1:])) for o in b.ops if o[0] != 'freeze']
                    first = {'vig_teen': 'put(b"%d")' % v, 'vig_vingt': 'put(b"20")'}.get(cls) or sorted(want)[0]
                    if not (isinstance(r, Res) and r.ok and ops == [first]):
                        rep.violation(R, ent, 'apply("%s") on a fresh builder yields %r with %s, expected Ok with [%s]' % (w, r, ops, first), _loc(ctx, arm))
                        continue
                except Compound:
                    rep.violation(R, ent, '"%s" is split by the word splitter although it is an atomic number word' % w, _loc(ctx, arm))
                    continue
                except Unanalysable as e:
                    rep.anchor(R, ent, 'apply("%s") left the analysable fragment: %s' % (w, e), _loc(ctx, arm))
                    continue
            rep.ok(R, ent, '"%s" -> %s' % (w, sorted(want)), _loc(ctx, arm))
    rep.floor(R, n, 60 * len(langs) // 2, 'cardinal lexicon entries evaluated')


def rule_lex_ord(ctx, rep, langs=ALL_LANGS):
    R = 'A2-LEX-ORD'
    rep.rule(R, 'every core ordinal form selects an arm with the instruction of its cardinal, is given the expected marker by '
                'get_morph_marker / the postlude (evaluated on the form) and freezes the builder where the language does so')
    n = 0
    for lang in langs:
        lx = lexicon(lang)
        try:
            t = table(ctx, lang)
        except Unanalysable as e:
            rep.anchor(R, lang, 'word table not analysable: %s' % e)
            continue
        ev = evaluator(ctx, lang)
        for o in lx['ordinals']:
            w, v, mk, cls, tier = o['w'], o['v'], o['marker'], o['class'], o['tier']
            ent = '%s|%s' % (lang, w)
            try:
                lem, arms = lookup(ctx, lang, w)
            except Unanalysable as e:
                rep.anchor(R, ent, 'cannot evaluate the lemmatizer on "%s": %s' % (w, e))
                continue
            n += 1
            if not arms:
                if tier == 'core':
                    rep.violation(R, ent, 'ordinal "%s" (rank %d) has no arm in the %s word table (lemma "%s"): that rank is never '
                                  'recognised' % (w, v, lang, lem), ctx.facts.loc(t.body['sp']))
                else:
                    rep.info(R, ent, 'variant ordinal "%s" is not supported by the tree' % w)
                continue
            arm = arms[0]
            want = expected_ops(lang, cls, v)
            got = placing(t.leaves(arm))
            if got != want:
                rep.violation(R, ent, 'ordinal "%s" (rank %d) should place %s but its arm places %s' % (w, v, sorted(want), sorted(got)), _loc(ctx, arm))
                continue
            pre = o.get('after')
            b0 = Builder(digits=pre['digits'].encode(), marker=Marker('Ordinal', pre['marker'])) if pre else Builder()
            try:
                r, b = ev.run_apply(w, b0)
            except Compound:
                rep.violation(R, ent, 'atomic ordinal "%s" is split by the word splitter' % w, _loc(ctx, arm))
                continue
            except Unanalysable as e:
                rep.anchor(R, ent, 'apply("%s") left the analysable fragment: %s' % (w, e), _loc(ctx, arm))
                continue
            problems = []
            if not (isinstance(r, Res) and r.ok):
                problems.append('apply on a fresh builder returns %r' % (r,))
            else:
                if b.marker != Marker('Ordinal', mk):
                    problems.append('marker is %r, expected Ordinal(%r)' % (b.marker, mk))
                if lx['freezes_ordinals'] and not b.frozen:
                    problems.append('the builder is not frozen after the ordinal')
            if problems:
                if tier == 'core':
                    rep.violation(R, ent, 'ordinal "%s": %s' % (w, '; '.join(problems)), _loc(ctx, arm))
                else:
                    rep.info(R, ent, 'variant ordinal "%s": %s' % (w, '; '.join(problems)))
            else:
                rep.ok(R, ent, '"%s" -> %s + marker %s' % (w, sorted(want), mk), _loc(ctx, arm))
    rep.floor(R, n, 40 * len(langs) // 2, 'ordinal lexicon entries evaluated')


# ---------------------------------------------------------------------------------------
def rule_zero_arm(ctx, rep, langs=ALL_LANGS):
    R = 'A6-ZERO-ARM'
    rep.rule(R, 'the zero word(s) select an arm whose only leaf is an unguarded put(b"0"); synonyms share that arm')
    for lang in langs:
        lx = lexicon(lang)
        t = table(ctx, lang)
        arms = set()
        for z in lx['zero']:
            ent = '%s|%s' % (lang, z)
            lem, found = lookup(ctx, lang, z)
            if not found:
                rep.violation(R, ent, 'zero word "%s" has no arm' % z)
                continue
            arm = found[0]
            arms.add(id(arm))
            leaves = t.leaves(arm)
            ok = arm.guard is None and len(leaves) == 1 and leaves[0].sig() == 'put(b"0")' and not leaves[0].conds
            rep.check(ok, R, ent, 'unguarded put(b"0")', 'zero word "%s" is handled by %s%s: zeros are rejected or misplaced in some states' % (
                z, leaves, ' under guard ' + H.render(arm.guard) if arm.guard else ''), _loc(ctx, arm))
        rep.check(len(arms) <= 1, R, lang + '|shared', 'all zero synonyms share one arm', 'zero synonyms are spread over %d arms' % len(arms))


def rule_conj(ctx, rep, langs=ALL_LANGS):
    R = 'A10-CONJ'
    rep.rule(R, 'the conjunction word selects an arm whose only leaf is Err(Incomplete) under the class guard')
    for lang in langs:
        lx = lexicon(lang)
        cj = lx.get('conjunction')
        if not cj:
            continue
        t = table(ctx, lang)
        ent = '%s|%s' % (lang, cj)
        lem, found = lookup(ctx, lang, cj)
        if not found:
            rep.violation(R, ent, 'conjunction "%s" has no arm' % cj)
            continue
        arm = found[0]
        leaves = t.leaves(arm)
        atoms = sorted(_atoms(t, arm))
        want = {'len>=2': ['(B.len() >= 2)'], 'none': [],
                'pt': ['!' + PT_OM, '(B.len() >= 2)', 'B.marker.is_none()']}[lx['conjunction_guard']]
        ok = len(leaves) == 1 and leaves[0].sig() == 'Err(Incomplete)' and atoms == sorted(want)
        rep.check(ok, R, ent, 'Err(Incomplete) under %s' % (want or 'no guard'),
                  'conjunction "%s" is handled by %s under %s, expected Err(Incomplete) under %s' % (cj, leaves, atoms, want), _loc(ctx, arm))


def _names(t):
    return t.names


PT_R = 'Restriction::from_bits_truncate(B.flags)'
PT_OM = PT_R + '.contains(Restriction::ONLY_MULTIPLIERS)'
PT_SB = '(%s || ((!%s.contains(Restriction::CONJUNCTION) && self.get_morph_marker(W).is_none()) && !B.is_free(4)))' % (PT_OM, PT_R)
BLK = 'Excludable::from_bits_truncate(B.flags)'


def _atoms(t, arm):
    if arm.guard is None:
        return []
    return [H.norm_atom(c, _names(t)) for c in H.conjuncts(arm.guard)]


# ---------------------------------------------------------------------------------------
FR_OWN = {'un': 'UN', 'deux': 'DEUX', 'trois': 'TROIS', 'quatre': 'QUATRE', 'cinq': 'CINQ', 'six': 'SIX'}


def rule_guard_atoms(ctx, rep, langs=ALL_LANGS):
    R = 'A7-GUARD-ATOMS'
    rep.rule(R, 'every member of a sibling class of arms (units, teens, tens, hundreds, thousand, million) carries the guard atoms '
                'and side assignments of its class: the tests that keep two adjacent numbers apart')
    n = 0
    for lang in langs:
        lx = lexicon(lang)
        t = table(ctx, lang)
        seen = set()
        entries = [(c['w'], c['v'], c['class'], 'card', c['tier']) for c in lx['cardinals']] + \
                  [(o['w'], o['v'], o['class'], 'ord', o['tier']) for o in lx['ordinals']]
        for w, v, cls, kind, tier in entries:
            try:
                lem, found = lookup(ctx, lang, w)
            except Unanalysable:
                continue
            if not found:
                continue
            arm = found[0]
            key = (id(arm), cls, kind)
            if key in seen:
                continue
            seen.add(key)
            atoms = set(_atoms(t, arm))
            sides = set()
            for l in t.leaves(arm):
                sides |= set(l.sides)
            need_atoms, need_sides = _class_requirements(lang, w, lem, v, cls, kind)
            if need_atoms is None:
                continue
            n += 1
            ent = '%s|%s|%s' % (lang, cls, '/'.join(arm.pats[:3]))
            missing = [a for a in need_atoms if a not in atoms]
            missing_s = [s for s in need_sides if s not in sides]
            if missing or missing_s:
                rep.violation(R, ent, 'arm %s lacks %s%s of its class (%s %s): without it a %s following another number is fused into it' % (
                    arm.pats, ('guard ' + ' && '.join(missing)) if missing else '', (' side effect ' + ', '.join(missing_s)) if missing_s else '',
                    lang, cls, cls), _loc(ctx, arm))
            else:
                rep.ok(R, ent, 'guard %s%s' % (sorted(need_atoms), (' sides %s' % sorted(need_sides)) if need_sides else ''), _loc(ctx, arm))
        # flag bookkeeping in the postlude
        if lang in ('fr', 'de', 'nl'):
            n += 1
            ok, why = _flags_postlude(t)
            rep.check(ok, R, lang + '|postlude-flags', 'success stores to_block.bits() into b.flags, failure clears them', why, ctx.facts.loc(t.body['sp']))
        if lang == 'pt':
            n += 1
            ok, why = _pt_definitions(t)
            rep.check(ok, R, 'pt|flag-definitions', 'smaller_blocked / only_multipliers are defined from the flags as confirmed', why, ctx.facts.loc(t.body['sp']))
    rep.floor(R, n, 60, 'guard-class obligations')


def _class_requirements(lang, w, lem, v, cls, kind):
    atoms, sides = [], []
    if cls == 'thousand':
        return ['B.is_range_free(3, 5)'], []
    if cls == 'million':
        return ['B.is_range_free(6, 8)'], []
    if lang == 'en' and cls == 'unit':
        return ['(B.peek(2) != b"10")'], []
    if lang == 'es' and cls == 'unit' and kind == 'card':
        return ['(B.peek(2) != b"10")', '(B.peek(2) != b"20")'], []
    if lang == 'pt':
        if cls == 'unit' and kind == 'card':
            return ['(B.peek(2) != b"10")', '!' + PT_SB], []
        if cls in ('teen', 'ten') or (cls == 'unit' and lem == 'non'):
            return ['!' + PT_SB], []
        if cls == 'hundred_lex':
            return ['!' + PT_OM], (['$FLAGS = Restriction::ONLY_MULTIPLIERS'] if lem == 'cem' else [])
    if lang == 'it' and cls == 'unit':
        if kind == 'ord' and lem in ('prim', 'second', 'terz', 'quart', 'quint', 'sest', 'settim', 'ottav', 'non'):
            return (['B.is_empty()', '("non" != W)'] if lem == 'non' else ['B.is_empty()']), []
        if v in (1, 8):
            return ['B.is_free(2)'], []
        return ['(B.peek(2) != b"10")'], []
    if lang in ('de', 'nl'):
        if cls == 'unit':
            return ['B.is_free(2)'], ['$FLAGS = Excludable::TENS']
        if cls == 'ten':
            return ['!' + BLK + '.contains(Excludable::TENS)'], []
    if lang == 'fr':
        if cls == 'unit' and kind == 'card' and w in FR_OWN or (cls == 'unit' and kind == 'ord' and 1 <= v <= 6 and not w.startswith('premi')):
            own = ['UN', 'DEUX', 'TROIS', 'QUATRE', 'CINQ', 'SIX'][v - 1]
            return ['!' + BLK + '.contains(Excludable::%s)' % own], []
        if cls == 'unit' and w.startswith('premi'):
            return ['B.is_empty()'], []
        if cls == 'vig_teen' and v == 10:
            return [], ['$FLAGS = Excludable::UN_SIX']
        if cls == 'ten':
            return [], ['$FLAGS = Excludable::UN']
        if cls == 'vig_vingt':
            return [], ['$FLAGS = Excludable::UN']
    return None, None


def _flags_postlude(t):
    """`if status.is_ok() { b.flags = to_block.bits(); .. } else { b.flags = 0 }` after the table."""
    names = _names(t)
    for n in H.walk(t.body['value']):
        if n.get('k') == 'If' and H.render(n['c'], names) == '$STATUS.is_ok()':
            then_w = [H.render(x, names) for x in H.find(n['t'], 'Assign')]
            else_w = [H.render(x, names) for x in H.find(n['e'], 'Assign')] if n.get('e') else []
            if 'B.flags = $FLAGS.bits()' in then_w and 'B.flags = 0' in else_w:
                return True, ''
            return False, 'postlude writes %s on success and %s on failure' % (then_w, else_w)
    return False, 'no `if <status>.is_ok()` postlude found'


def _pt_definitions(t):
    """The three-way flag update of the Portuguese postlude (the flag-derived conditions themselves are inlined
    into the guard atoms, so a changed definition shows up there)."""
    names = _names(t)
    rendered = [H.render(x, names) for x in H.find(t.body['value'], 'Assign')]
    for w in ('B.flags = $FLAGS.bits()', 'B.flags = Restriction::CONJUNCTION.bits()', 'B.flags = 0'):
        if w not in rendered:
            return False, 'flag update `%s` missing (have %s)' % (w, [r for r in rendered if r.startswith('B.flags')])
    return True, ''


# ---------------------------------------------------------------------------------------
def rule_len_zero_sensitive(ctx, rep, langs=ALL_LANGS):
    R = 'A9-LEN-ZERO-SENSITIVE'
    rep.rule(R, 'no guard or arm condition tests DigitString::len() (which counts leading zeros) for equality with a constant: '
                'that is a zero-sensitive way of asking "is the value so far a single digit"')
    n = 0
    for lang in langs:
        t = table(ctx, lang)
        names = _names(t)
        for arm in t.arms:
            nodes = []
            if arm.guard is not None:
                nodes.append(arm.guard)
            nodes.append(arm.body)
            for root in nodes:
                for x in H.walk(root):
                    if x.get('k') == 'Binary' and x.get('op') in ('Eq', 'Ne'):
                        n += 1
                        for a, b in ((x['l'], x['r']), (x['r'], x['l'])):
                            a = H.peel(a)
                            if a.get('k') == 'MethodCall' and (a.get('callee') or '').endswith('DigitString::len') and H.lit(b) and H.lit(b)[0] == 'int':
                                rep.violation(R, '%s|%s|%s' % (lang, '/'.join(arm.pats[:2]), H.render(x, names)),
                                              'arm %s tests `%s`: leading zeros change the answer, so e.g. "zero %s" after zeros is rejected although '
                                              'the value so far is unchanged' % (arm.pats, H.render(x, names), arm.pats[0]), ctx.facts.loc(x['sp']))
    rep.ok(R, 'inventory', '%d equality tests in guards and arm bodies inspected' % n)
    rep.floor(R, n, 40, 'equality tests inspected')


# ---------------------------------------------------------------------------------------
def rule_dec_table(ctx, rep, langs=ALL_LANGS):
    R = 'A4-DEC-TABLE'
    rep.rule(R, 'apply_decimal: English and German map each digit word to push(b"d") (zero synonyms share an arm, default NaN); '
                'the other languages forward to apply unchanged')
    for lang in langs:
        lx = lexicon(lang)
        try:
            t = table(ctx, lang, 'apply_decimal')
        except Unanalysable as e:
            rep.anchor(R, lang, 'apply_decimal not analysable: %s' % e)
            continue
        if 'decimal_digits' in lx:
            if t.match is None:
                rep.violation(R, lang + '|table', '%s apply_decimal is no longer a digit-by-digit table' % lang, ctx.facts.loc(t.body['sp']))
                continue
            scr_ok = H.local_id(t.match['scrut']) == t.word_param[0]
            rep.check(scr_ok, R, lang + '|scrutinee', 'matches the word as given', 'apply_decimal matches `%s`' % H.render(t.match['scrut']))
            zero_arms = set()
            for w, d in sorted(lx['decimal_digits'].items()):
                arms = t.arms_for(w)
                ent = '%s|%s' % (lang, w)
                if not arms:
                    rep.violation(R, ent, 'decimal digit word "%s" has no arm: every fraction containing it is cut short' % w, ctx.facts.loc(t.body['sp']))
                    continue
                leaves = t.leaves(arms[0])
                ok = arms[0].guard is None and len(leaves) == 1 and leaves[0].sig() == 'push(b"%d")' % d and not leaves[0].conds
                rep.check(ok, R, ent, 'push(b"%d")' % d, 'decimal digit "%s" is handled by %s, expected push(b"%d")' % (w, leaves, d), _loc(ctx, arms[0]))
                if d == 0:
                    zero_arms.add(id(arms[0]))
            rep.check(len(zero_arms) == 1, R, lang + '|zero-shared', 'zero synonyms share one arm', 'zero synonyms use %d arms' % len(zero_arms))
            da = t.default_arm()
            dl = t.leaves(da) if da else []
            rep.check(da is not None and len(dl) == 1 and dl[0].sig() == 'Err(NaN)', R, lang + '|default', 'default arm is Err(NaN)',
                      'default arm of apply_decimal is %s' % dl)
            extra = [k for k in t.all_keys() if k not in lx['decimal_digits']]
            for k in extra:
                rep.info(R, '%s|extra|%s' % (lang, k), 'additional decimal word in the tree')
        else:
            fw = t.forwarder
            ok = fw is not None and fw['ok'] and (fw['resolved'] in (None, interp_method(lang, 'apply')))
            rep.check(ok, R, lang + '|forwarder', 'apply_decimal(word, b) = self.apply(word, b)',
                      '%s apply_decimal is neither a digit table nor a verbatim forwarder to apply' % lang, ctx.facts.loc(t.body['sp']))


# ---------------------------------------------------------------------------------------
def _fmt_index(facts):
    idx = {}
    for fa in facts.format_args:
        idx[fa['macro_sp']] = fa
        idx.setdefault(fa['sp'], fa)
    return idx


def _template(ctx, body, e, lets):
    """Resolve an expression to (pieces, arg expressions) if it is (a local bound to) a format! call."""
    e = H.peel(e)
    for _ in range(4):
        if e.get('k') == 'Path' and e['res'].get('t') == 'local' and e['res']['id'] in lets:
            e = H.peel(lets[e['res']['id']])
        else:
            break
    idx = ctx.memo('fmtidx', lambda: _fmt_index(ctx.facts))
    # the format! expansion: outermost node carrying the macro call-site span
    for n in H.walk(e):
        if (n.get('exp') or '').startswith('macro:format') and n.get('sp') in idx:
            fa = idx[n['sp']]
            pieces = []
            for p in fa['pieces']:
                if 'lit' in p:
                    pieces.append(('lit', p['lit']))
                else:
                    pieces.append(('arg', p['arg'], p.get('trait'), p.get('plain')))
            return pieces, [a['expr'] for a in fa['args']], e
    return None


def _is_to_string_of(e, lets, bid):
    """expression is `<param>.to_string()` (directly or through a let)."""
    e = H.peel(e)
    for _ in range(3):
        if e.get('k') == 'Path' and e['res'].get('t') == 'local' and e['res']['id'] in lets:
            e = H.peel(lets[e['res']['id']])
    return e.get('k') == 'MethodCall' and (e.get('callee') or '').endswith('DigitString::to_string') and H.local_id(e['recv']) == bid


def rule_sep_mark(ctx, rep, langs=ALL_LANGS):
    R = 'A5-SEP-MARK'
    rep.rule(R, 'is_decimal_sep is true exactly on the separator word; format_decimal_and_value renders {int}<mark>{dec} from the '
                'two builders in that order and parses {int}.{dec}; format_and_value renders repr (+marker, es 1/repr) and parses that repr')
    f = ctx.facts
    for lang in langs:
        lx = lexicon(lang)
        ev = evaluator(ctx, lang)
        sep = lx['decimal_sep']
        # separator predicate
        try:
            yes = ev.call_fn(interp_method(lang, 'is_decimal_sep'), [ev.self_value, sep])
            others = [lx['zero'][0], lx.get('conjunction') or 'x', 'point', 'virgule', 'coma', 'komma', 'vírgula', 'virgola', ',', '.', '']
            no = [w for w in others if w != sep and ev.call_fn(interp_method(lang, 'is_decimal_sep'), [ev.self_value, w])]
            rep.check(yes is True and not no, R, lang + '|separator', '"%s" and nothing else is the decimal separator' % sep,
                      'is_decimal_sep("%s") = %s; also true for %s' % (sep, yes, no))
        except Unanalysable as e:
            rep.anchor(R, lang + '|separator', 'is_decimal_sep not analysable: %s' % e)
        # decimal template
        body = f.body(interp_method(lang, 'format_decimal_and_value'))
        if body is None:
            rep.anchor(R, lang + '|decimal-template', 'format_decimal_and_value not found')
        else:
            lets = H.lets(body['value'])
            p_int = H.param_binding(body, 1)
            p_dec = H.param_binding(body, 2)
            ret = _final_tuple(body)
            ok, why = False, 'the function does not end in a (text, value) tuple'
            if ret is not None:
                text_t = _template(ctx, body, ret[0], lets)
                val_e = H.peel(ret[1])
                for _ in range(3):
                    if val_e.get('k') == 'Path' and val_e['res'].get('t') == 'local' and val_e['res']['id'] in lets:
                        val_e = H.peel(lets[val_e['res']['id']])
                val_t = None
                if val_e.get('k') == 'MethodCall' and val_e['name'] == 'unwrap' and H.peel(val_e['recv']).get('name') == 'parse':
                    val_t = _template(ctx, body, H.peel(val_e['recv'])['recv'], lets)
                mark = lx['decimal_mark']
                ok = True
                why = ''
                for what, tpl, sepch in (('text', text_t, mark), ('value', val_t, '.')):
                    if tpl is None:
                        ok, why = False, 'the %s is not built by a format! call' % what
                        break
                    pieces, args, _n = tpl
                    shape = [p[0] if p[0] == 'arg' else p[1] for p in pieces]
                    if shape != ['arg', sepch, 'arg'] or [p[1] for p in pieces if p[0] == 'arg'] != [0, 1] or \
                            not all(p[2] == 'Display' and p[3] for p in pieces if p[0] == 'arg'):
                        ok, why = False, 'the %s template is %s, expected {int}%s{dec}' % (what, pieces, sepch)
                        break
                    # arguments: int.to_string() then dec.to_string()
                    a0 = _arg_binding(body, lets, args[0])
                    a1 = _arg_binding(body, lets, args[1])
                    if not (a0 is not None and a1 is not None and _is_to_string_of(a0, lets, p_int[0]) and _is_to_string_of(a1, lets, p_dec[0])):
                        ok, why = False, 'the %s template is filled with (%s, %s), expected (int.to_string(), dec.to_string())' % (what, args[0], args[1])
                        break
            rep.check(ok, R, lang + '|decimal-template', 'text {int}%s{dec}, value parse of {int}.{dec}' % lx['decimal_mark'], why, f.loc(body['sp']))
        # integer / ordinal template
        body = f.body(interp_method(lang, 'format_and_value'))
        if body is None:
            rep.anchor(R, lang + '|ordinal-template', 'format_and_value not found')
            continue
        ok, why = _check_format_and_value(ctx, lang, body)
        rep.check(ok, R, lang + '|ordinal-template', 'text = repr (+ marker for ordinals%s), value = repr.parse()' % (', 1/repr for fractions' if lang == 'es' else ''),
                  why, f.loc(body['sp']))


def _final_tuple(body):
    e = body['value']
    while e.get('k') in ('BlockExpr', 'Block'):
        blk = e['block'] if e['k'] == 'BlockExpr' else e
        if not blk.get('expr'):
            return None
        e = blk['expr']
    if e.get('k') == 'Tup' and len(e['es']) == 2:
        return e['es']
    return None


def _arg_binding(body, lets, name_expr):
    """format argument given as source text (`irepr`, `b.to_string()`): find the let binding of that name, or
    parse the trivial method call."""
    for n in H.walk(body['value']):
        if n.get('k') == 'Let' and n.get('pat', {}).get('k') == 'Binding' and n['pat']['name'] == name_expr and n.get('init'):
            return n['init']
    m = re.match(r'^(\w+)\.to_string\(\)$', name_expr)
    if m:
        for n in H.walk(body['value']):
            if n.get('k') == 'MethodCall' and n['name'] == 'to_string' and H.local_name(n['recv']) == m.group(1):
                return n
    for p in body['params']:
        if p.get('k') == 'Binding' and p['name'] == name_expr:
            return {'k': 'Path', 'res': {'t': 'local', 'id': p['bid'], 'name': p['name']}}
    # a pattern binding (e.g. `marker` bound by `if let Ordinal(marker) = b.marker`)
    for n in H.walk(body['value']):
        if n.get('k') == 'Binding' and n.get('name') == name_expr:
            return {'k': 'Path', 'res': {'t': 'local', 'id': n['bid'], 'name': n['name']}}
    return None


def _check_format_and_value(ctx, lang, body):
    """Structural check of format_and_value: repr = b.to_string(); val = repr.parse().unwrap(); results are
    (format!("{}{}", <b.to_string()|repr>, marker), val) for Ordinal(marker) and (repr, val) otherwise;
    Spanish additionally (format!("1/{repr}"), val.recip()) for fractions."""
    lets = H.lets(body['value'])
    b = H.param_binding(body, 1)
    names = {b[0]: 'B'}
    repr_ids = [bid for bid, init in lets.items() if _is_to_string_of(init, lets, b[0])]
    if len(repr_ids) != 1:
        return False, 'expected exactly one `let repr = b.to_string()`'
    rid = repr_ids[0]
    val_ids = []
    for bid, init in lets.items():
        i = H.peel(init)
        if i.get('k') == 'MethodCall' and i['name'] == 'unwrap':
            r = H.peel(i['recv'])
            if r.get('k') == 'MethodCall' and r['name'] == 'parse' and H.local_id(r['recv']) == rid:
                val_ids.append(bid)
    if len(val_ids) != 1:
        return False, 'the value is not `repr.parse().unwrap()` of the rendered digits'
    vid = val_ids[0]
    tuples = [n for n in H.walk(body['value']) if n.get('k') == 'Tup' and len(n['es']) == 2 and not n.get('exp')]
    seen = set()
    for tp in tuples:
        text, val = tp['es']
        val_p = H.peel(val)
        tpl = _template(ctx, body, text, lets)
        if H.local_id(text) == rid and H.local_id(val) == vid:
            seen.add('plain')
        elif tpl is not None:
            pieces, args, _n = tpl
            shape = [p[0] if p[0] == 'arg' else p[1] for p in pieces]
            if shape == ['arg', 'arg'] and H.local_id(val) == vid:
                a0 = _arg_binding(body, lets, args[0])
                ok0 = a0 is not None and (_is_to_string_of(a0, lets, b[0]) or H.local_id(a0) == rid)
                if not ok0 or args[1] != 'marker':
                    return False, 'ordinal text is built from (%s, %s), expected the digits followed by the marker' % (args[0], args[1])
                seen.add('ordinal')
            elif lang == 'es' and shape == ['1/', 'arg']:
                a0 = _arg_binding(body, lets, args[0])
                if not (a0 is not None and (H.local_id(a0) == rid or _is_to_string_of(a0, lets, b[0]))):
                    return False, 'fraction text is not 1/{repr}'
                if not (val_p.get('k') == 'MethodCall' and val_p['name'] == 'recip' and H.local_id(val_p['recv']) == vid):
                    return False, 'fraction value is not val.recip()'
                seen.add('fraction')
            else:
                return False, 'unexpected text template %s' % (pieces,)
        else:
            return False, 'a result tuple `%s` is neither (repr, val) nor a known template' % H.render(tp, names)
    need = {'plain', 'ordinal'} | ({'fraction'} if lang == 'es' else set())
    if seen != need:
        return False, 'result forms found %s, expected %s' % (sorted(seen), sorted(need))
    return True, ''


# ---------------------------------------------------------------------------------------
def spell(lang, n):
    """Compact (single-token) standard spelling of 1 <= n < 10^6 for the compounding languages."""
    if lang == 'de':
        U = ['', 'ein', 'zwei', 'drei', 'vier', 'fünf', 'sechs', 'sieben', 'acht', 'neun']
        T = ['zehn', 'elf', 'zwölf', 'dreizehn', 'vierzehn', 'fünfzehn', 'sechzehn', 'siebzehn', 'achtzehn', 'neunzehn']
        Z = ['', '', 'zwanzig', 'dreißig', 'vierzig', 'fünfzig', 'sechzig', 'siebzig', 'achtzig', 'neunzig']

        def below100(k, final):
            if k == 0:
                return ''
            if k < 10:
                return 'eins' if (k == 1 and final) else U[k]
            if k < 20:
                return T[k - 10]
            u, z = k % 10, k // 10
            return (U[u] + 'und' if u else '') + Z[z]

        def below1000(k, final=True):
            h, r = k // 100, k % 100
            return (U[h] + 'hundert' if h else '') + below100(r, final)
        t, r = n // 1000, n % 1000
        return (below1000(t, False) + 'tausend' if t else '') + below1000(r)
    if lang == 'nl':
        U = ['', 'een', 'twee', 'drie', 'vier', 'vijf', 'zes', 'zeven', 'acht', 'negen']
        T = ['tien', 'elf', 'twaalf', 'dertien', 'veertien', 'vijftien', 'zestien', 'zeventien', 'achttien', 'negentien']
        Z = ['', '', 'twintig', 'dertig', 'veertig', 'vijftig', 'zestig', 'zeventig', 'tachtig', 'negentig']

        def below100(k):
            if k == 0:
                return ''
            if k < 10:
                return U[k]
            if k < 20:
                return T[k - 10]
            u, z = k % 10, k // 10
            if not u:
                return Z[z]
            return U[u] + ('ën' if U[u].endswith('e') else 'en') + Z[z]

        def below1000(k):
            h, r = k // 100, k % 100
            return ((U[h] if h > 1 else '') + 'honderd' if h else '') + below100(r)
        t, r = n // 1000, n % 1000
        return ((below1000(t) if t > 1 else '') + 'duizend' if t else '') + below1000(r)
    if lang == 'it':
        U = ['', 'uno', 'due', 'tre', 'quattro', 'cinque', 'sei', 'sette', 'otto', 'nove']
        T = ['dieci', 'undici', 'dodici', 'tredici', 'quattordici', 'quindici', 'sedici', 'diciassette', 'diciotto', 'diciannove']
        Z = ['', '', 'venti', 'trenta', 'quaranta', 'cinquanta', 'sessanta', 'settanta', 'ottanta', 'novanta']

        def below100(k):
            if k == 0:
                return ''
            if k < 10:
                return U[k]
            if k < 20:
                return T[k - 10]
            u, z = k % 10, k // 10
            s = Z[z]
            if u in (1, 8):
                s = s[:-1]
            if u == 3:
                return s + 'tré'
            return s + U[u]

        def below1000(k):
            h, r = k // 100, k % 100
            return ((U[h] if h > 1 else '') + 'cento' if h else '') + below100(r)
        t, r = n // 1000, n % 1000
        if t == 0:
            return below1000(r)
        return ('mille' if t == 1 else below1000(t) + 'mila') + below1000(r)
    raise ValueError(lang)


def spell_ordinal(lang, n):
    """Compact standard spelling of the n-th ordinal (masculine/base form) for the compounding languages."""
    if lang == 'de':
        U = {1: 'erste', 2: 'zweite', 3: 'dritte', 4: 'vierte', 5: 'fünfte', 6: 'sechste', 7: 'siebte', 8: 'achte', 9: 'neunte',
             10: 'zehnte', 11: 'elfte', 12: 'zwölfte'}
        r = n % 100
        head = n - r
        hs = spell('de', head) if head else ''
        if r == 0:
            return spell('de', n) + 'ste'
        if r in U:
            return hs + U[r]
        if r < 20:
            return hs + spell('de', r) + 'te'
        return hs + spell('de', r) + 'ste'
    if lang == 'nl':
        U = {1: 'eerste', 2: 'tweede', 3: 'derde', 4: 'vierde', 5: 'vijfde', 6: 'zesde', 7: 'zevende', 8: 'achtste', 9: 'negende',
             10: 'tiende', 11: 'elfde', 12: 'twaalfde'}
        r = n % 100
        head = n - r
        hs = spell('nl', head) if head else ''
        if r == 0:
            return spell('nl', n) + 'ste'
        if r in U:
            return hs + U[r]
        if r < 20:
            return hs + spell('nl', r) + 'de'
        return hs + spell('nl', r) + 'ste'
    if lang == 'it':
        U = {1: 'primo', 2: 'secondo', 3: 'terzo', 4: 'quarto', 5: 'quinto', 6: 'sesto', 7: 'settimo', 8: 'ottavo', 9: 'nono', 10: 'decimo'}
        if n in U:
            return U[n]
        c = spell('it', n)
        if n % 100 == 10:
            return c[:-5] + 'decimo'           # centodecimo, not *centodiecesimo
        if c.endswith('tré'):
            return c[:-3] + 'treesimo'
        if c.endswith('tre'):
            return c + 'esimo'                 # centotreesimo
        if c.endswith('sei'):
            return c + 'esimo'
        if c.endswith('mila'):
            return c[:-4] + 'millesimo'
        return c[:-1] + 'esimo'
    raise ValueError(lang)


def rule_split_closure(ctx, rep, langs=('de', 'it', 'nl')):
    R = 'A3-SPLIT-CLOSURE'
    rep.rule(R, 'splitter patterns and arm keys agree: every pattern has an arm, every compounding word is a pattern, patterns are '
                'non-empty and distinct, and every piece of every generated compound spelling selects an arm')
    limit = 9999 if ctx.tier == 'thorough' else 999
    for lang in langs:
        if lang not in ('de', 'it', 'nl'):
            continue
        lx = lexicon(lang)
        pats = splitter_patterns(ctx.facts, lang)
        if pats is None:
            rep.anchor(R, lang, 'no WordSplitter::new([...]) literal found for %s' % lang)
            continue
        sp = Splitter(pats)
        ok_distinct = all(pats) and len(set(pats)) == len(pats)
        rep.check(ok_distinct, R, lang + '|distinct', '%d non-empty, pairwise distinct patterns' % len(pats),
                  'splitter patterns are empty or duplicated (WordSplitter::new(..).unwrap() panics): %s' % [p for p in pats if pats.count(p) > 1 or not p])
        for p in pats:
            try:
                lem, arms = lookup(ctx, lang, p)
            except Unanalysable as e:
                rep.anchor(R, '%s|pattern|%s' % (lang, p), str(e))
                continue
            rep.check(bool(arms), R, '%s|pattern|%s' % (lang, p), 'pattern has an arm',
                      'splitter pattern "%s" has no arm in the word table: every compound containing it is rejected' % p)
        for w in lx.get('compounding', []):
            rep.check(w in pats, R, '%s|compounding|%s' % (lang, w), 'is a splitter pattern',
                      '"%s" must be a splitter pattern (compounds containing it cannot be split) but is not in the list' % w)
        # closure over generated compounds
        t = table(ctx, lang)
        ev = evaluator(ctx, lang)
        bad = {}
        checked = 0
        cache = {}

        def has_arm(piece):
            if piece not in cache:
                try:
                    lem = ev.lemma(t, piece)
                    cache[piece] = bool(t.arms_for(lem))
                except Unanalysable:
                    cache[piece] = False
            return cache[piece]
        nums = list(range(1, limit + 1)) + [k * 1000 for k in (1, 2, 21, 100, 999)]
        words = [(n, spell(lang, n)) for n in nums]
        if ctx.tier == 'thorough':
            words += [(n, spell_ordinal(lang, n)) for n in range(1, limit + 1)]
        for n, w in words:
            checked += 1
            try:
                lem = ev.call_fn('lang::%s::lemmatize' % lang, [w]) if ctx.facts.body('lang::%s::lemmatize' % lang) else w
            except Unanalysable:
                lem = w
            if sp.is_splittable(lem):
                pieces = sp.split(lem)
            else:
                pieces = [lem]
            for pc in pieces:
                if not has_arm(pc):
                    bad.setdefault(pc, (n, w))
        for pc, (n, w) in sorted(bad.items()):
            rep.violation(R, '%s|piece|%s' % (lang, pc), 'the standard spelling "%s" of %d splits into a piece "%s" that has no arm: the number is rejected' % (w, n, pc))
        rep.ok(R, lang + '|closure', '%d compound spellings (n <= %d) split into pieces that all have arms' % (checked, limit))
        rep.floor(R + '#' + lang, checked, 999, 'compound spellings checked')


# ---------------------------------------------------------------------------------------
def _alpha_names(node, keep=('self',)):
    names = {}
    for n in H.walk(node):
        if n.get('k') == 'Path' and n['res'].get('t') == 'local' and n['res']['name'] not in keep:
            if n['res']['id'] not in names:
                names[n['res']['id']] = '$%d' % (len(names) + 1)
    return names


def rule_o_annotate(ctx, rep):
    R = 'A-O-ANNOTATE'
    rep.rule(R, 'English::basic_annotate marks a token not-a-number only if it is "o" and neither significant neighbour (j-1, j+1 over '
                'non-whitespace tokens, bounds-guarded) is accepted by apply on a fresh scratch builder; `o` shares the arm of `zero`')
    f = ctx.facts
    path = interp_method('en', 'basic_annotate')
    body = f.body(path)
    if body is None:
        rep.anchor(R, 'body', 'English::basic_annotate not found')
        return
    outer = None
    for n in H.walk(body['value']):
        if n.get('k') == 'If' and not n.get('exp') and re.search(r'text_lowercase\(\) == "o"\)$', H.render(n['c'])):
            outer = n
            break
    if outer is None:
        rep.violation(R, 'o-test', 'no `if <token>.text_lowercase() == "o"` in the annotation pass: the rule is keyed on something else', f.loc(body['sp']))
        return
    names = _alpha_names(outer)
    c = H.render(outer['c'], names)
    rep.check(c == '($1[$2].text_lowercase() == "o")', R, 'o-test', 'the candidate is tokens[i] with lowercase text "o"', 'candidate test is `%s`' % c, f.loc(outer['sp']))
    inner = None
    for n in H.walk(outer['t']):
        if n.get('k') == 'If' and not n.get('exp'):
            inner = n
            break
    if inner is None:
        rep.violation(R, 'neighbour-test', 'no neighbour test under the "o" test', f.loc(outer['sp']))
        return
    ic = H.render(inner['c'], names)
    want = ('((($3 > 0) && self.apply($1[$4[($3 - 1)]].text_lowercase(), $5).is_ok()) || '
            '((($3 + 1) < $4.len()) && self.apply($1[$4[($3 + 1)]].text_lowercase(), $5).is_ok()))')
    rep.check(ic == want, R, 'neighbour-test', 'previous (j-1, guarded by j > 0) or next (j+1, guarded by j+1 < len) significant token is a number word',
              'neighbour test is `%s`, expected `%s`' % (ic, want), f.loc(inner['sp']))
    then_calls = [H.render(x, names) for x in H.find(inner['t'], 'MethodCall')]
    else_calls = [H.render(x, names) for x in H.find(inner['e'], 'MethodCall')] if inner.get('e') else []
    rep.check(then_calls == ['$5.reset()'], R, 'accepted-branch', 'a number neighbour only resets the scratch builder', 'accepted branch does %s' % then_calls)
    rep.check(else_calls == ['$1[$2].set_nan(true)'], R, 'rejected-branch', 'otherwise the candidate itself is marked not-a-number', 'rejected branch does %s' % else_calls)
    all_nan = [H.render(x, names) for x in H.find(body['value'], 'MethodCall') if x['name'] == 'set_nan']
    rep.check(len(all_nan) == 1, R, 'single-marking', 'set_nan is called at one place', 'set_nan is called at %d places' % len(all_nan))
    # roles
    inv = {v: k for k, v in names.items()}
    lets = H.lets(body['value'])
    tok = H.param_binding(body, 1)
    rep.check(inv.get('$1') == tok[0], R, 'role|tokens', '$1 is the token vector parameter', 'the indexed collection is not the tokens parameter')
    b_init = H.render(lets.get(inv.get('$5'))) if inv.get('$5') in lets else None
    rep.check(b_init == 'DigitString::new()', R, 'role|scratch', 'the scratch builder starts fresh', 'scratch builder is initialised by `%s`' % b_init)
    s_init = lets.get(inv.get('$4'))
    s_r = H.render(s_init, {tok[0]: 'T'}) if s_init else ''
    ok = s_r.startswith('T.iter().enumerate().filter_map(') and s_r.endswith('.collect()')
    cl = [n for n in H.walk(s_init)] if s_init else []
    ws = [n for n in cl if n.get('k') == 'MethodCall' and n['name'] in ('is_whitespace', 'is_ascii_whitespace')]
    ok = ok and len(ws) == 1 and (ws[0].get('callee') or '').startswith('core::char::methods::') and (ws[0].get('callee') or '').endswith('::is_whitespace')
    filt = [H.render(n['c']) for n in cl if n.get('k') == 'If']
    ok = ok and len(filt) == 1 and re.match(r'^!\w+\.text_lowercase\(\)\.chars\(\)\.all\(\|\.\.\| \w+\.is_whitespace\(\)\)$', filt[0]) is not None
    rep.check(ok, R, 'role|significant', 'significant tokens = indices of tokens that are not whitespace-only (so punctuation counts as a neighbour)',
              'significant-token filter is `%s`' % s_r[:200], f.loc(body['sp']))
    fors = [n for n in H.walk(body['value']) if n.get('k') == 'Match' and str(n.get('src', '')).startswith('ForLoop') and 'into_iter' in H.render(n['scrut'])]
    ok = len(fors) == 1 and H.render(fors[0]['scrut'], names) == 'IntoIterator::into_iter($4.iter().enumerate())'
    rep.check(ok, R, 'role|loop', 'j enumerates the significant indices, i is the token index', 'loop is over `%s`' % (H.render(fors[0]['scrut'], names) if fors else None))
    # o == zero in both tables
    for method in ('apply', 'apply_decimal'):
        t = table(ctx, 'en', method)
        z = t.arms_for('zero')
        o = t.arms_for('o')
        rep.check(bool(z) and bool(o) and z[0] is o[0], R, 'same-arm|' + method, '"o" is a pattern of the arm of "zero" in %s' % method,
                  '"o" and "zero" are handled by different arms in %s' % method)


# ---------------------------------------------------------------------------------------
# Context tables: scale words after a multiplier, blocked words after their blocker.  The builder state after
# the first word is a constant of the grammar (its digits, and the flags the first word's own arm stores), so
# the second word's arm selection and guards can be evaluated like the rest of the lexical fragment.

THOUSAND_M = [2, 3, 10, 11, 12, 20, 21, 30, 99, 100, 101, 110, 111, 120, 200, 201, 999]
MILLION_M = [2, 21, 100, 101, 999]
SCALE_CONTEXTS = {
    # lang: [(word, class, multipliers accepted, bare accepted?, multipliers rejected)]
    'en': [('hundred', 'hundred', list(range(1, 10)), True, []), ('thousand', 'thousand', [1] + THOUSAND_M, True, []),
           ('million', 'million', [1] + MILLION_M, True, []), ('billion', 'milliard', [1] + MILLION_M, True, [])],
    'fr': [('cent', 'hundred', list(range(2, 10)), True, [1]), ('cents', 'hundred', list(range(2, 10)), True, [1]),
           ('mille', 'thousand', THOUSAND_M, True, [1]), ('million', 'million', [1] + MILLION_M, True, []),
           ('millions', 'million', MILLION_M, True, []), ('milliard', 'milliard', [1] + MILLION_M, True, []),
           ('milliards', 'milliard', MILLION_M, True, [])],
    'es': [('mil', 'thousand', THOUSAND_M, True, [1]), ('millón', 'million', [1], True, []), ('millones', 'million', MILLION_M, True, [])],
    'pt': [('mil', 'thousand', THOUSAND_M, True, [1]), ('milhão', 'million', [1], True, []), ('milhões', 'million', MILLION_M, True, [])],
    'it': [('cento', 'hundred', list(range(2, 10)), True, [1]), ('mila', 'thousand', THOUSAND_M, False, [1]),
           ('milione', 'million', [1], False, [2, 21]), ('milioni', 'million', MILLION_M, False, [1]),
           ('miliardo', 'milliard', [1], False, [2, 21]), ('miliardi', 'milliard', MILLION_M, False, [1])],
    'de': [('hundert', 'hundred', list(range(1, 10)), True, []), ('tausend', 'thousand', [1] + THOUSAND_M, True, []),
           ('millionen', 'million', MILLION_M, True, []), ('milliarden', 'milliard', MILLION_M, True, [])],
    'nl': [('honderd', 'hundred', list(range(2, 10)), True, [1]), ('duizend', 'thousand', THOUSAND_M, True, [1]),
           ('miljoen', 'million', [1] + MILLION_M, True, []), ('miljard', 'milliard', [1] + MILLION_M, True, [])],
}
# flags stored by the word that ends the multiplier, where the scale arm looks at them (pt only)
PT_FLAGS_AFTER = {100: 2}


def rule_scale_contexts(ctx, rep, langs=ALL_LANGS):
    R = 'A1b-SCALE-CONTEXTS'
    rep.rule(R, 'hundred / thousand / million / milliard words, evaluated on the builder state left by each multiplier of the '
                'grammar table (digits of m, flags of its last word), issue their shift; multipliers the language forbids are refused')
    n = 0
    for lang in langs:
        ev = evaluator(ctx, lang)
        t = table(ctx, lang)
        for word, cls, ok_m, bare_ok, bad_m in SCALE_CONTEXTS.get(lang, []):
            want = sorted(expected_ops(lang, cls, 0))[0]
            cases = [(None, bare_ok)] + [(m, True) for m in ok_m] + [(m, False) for m in bad_m]
            for m, accept in cases:
                n += 1
                flags = PT_FLAGS_AFTER.get(m, 0) if lang == 'pt' else 0
                b0 = Builder() if m is None else Builder(digits=str(m).encode(), flags=flags)
                ent = '%s|%s|after %s' % (lang, word, 'nothing' if m is None else m)
                try:
                    r, b = ev.run_apply(word, b0)
                except Compound:
                    rep.violation(R, ent, 'scale word "%s" is split by the word splitter' % word)
                    continue
                except Unanalysable as e:
                    rep.anchor(R, ent, 'apply("%s") left the analysable fragment: %s' % (word, e))
                    continue
                ops = ['%s(%s)' % (o[0], ', '.join(str(x) for x in o[1:])) for o in b.ops if o[0] != 'freeze']
                got_ok = isinstance(r, Res) and r.ok
                loc = None
                arms = t.arms_for(ev.lemma(t, word))
                if arms:
                    loc = _loc(ctx, arms[0])
                if accept:
                    rep.check(got_ok and ops == [want], R, ent, '%s -> %s' % ('"%s" after %s' % (word, m), want),
                              '"%s" after the multiplier %s is %r with %s, expected Ok with [%s]: the standard spelling of %s is rejected or split' % (
                                  word, m, r, ops, want, ('%d x 10^k' % m) if m else 'the bare scale word'), loc)
                else:
                    rep.check(not got_ok, R, ent, '"%s" after %s is refused' % (word, 'nothing' if m is None else m),
                              '"%s" after %s is accepted (%s) although the language does not allow that multiplier' % (word, m, ops), loc)
    rep.floor(R, n, 280, 'scale-word contexts evaluated')


BLOCK_CONTEXTS = {
    # lang: [(first words, second words that must be refused right after, second words that must stay accepted)]
    'fr': [(['dix'], ['un', 'deux', 'trois', 'quatre', 'cinq', 'six'], ['sept', 'huit', 'neuf']),
           (['vingt', 'trente', 'quarante', 'cinquante', 'soixante', 'septante', 'huitante', 'octante', 'nonante'], ['un'],
            ['deux', 'trois', 'quatre', 'cinq', 'six', 'sept', 'huit', 'neuf'])],
    'de': [(['ein', 'zwei', 'drei', 'vier', 'fünf', 'sechs', 'sieben', 'acht', 'neun'],
            ['zwanzig', 'dreißig', 'vierzig', 'fünfzig', 'sechzig', 'siebzig', 'achtzig', 'neunzig'], [])],
    'nl': [(['een', 'twee', 'drie', 'vier', 'vijf', 'zes', 'zeven', 'acht', 'negen'],
            ['twintig', 'dertig', 'veertig', 'vijftig', 'zestig', 'zeventig', 'tachtig', 'negentig'], [])],
    'pt': [(['cem'], ['um', 'dois', 'dez', 'onze', 'vinte', 'noventa', 'duzentos'], [])],
}


def rule_block_contexts(ctx, rep, langs=ALL_LANGS):
    R = 'A7b-BLOCK-CONTEXTS'
    rep.rule(R, 'the flags a word stores really block the words its class must keep apart: evaluated on the builder state (digits, '
                'flags) the first word leaves on a fresh builder, the second word is refused (resp. still accepted)')
    n = 0
    for lang in langs:
        ev = evaluator(ctx, lang)
        for firsts, refused, accepted in BLOCK_CONTEXTS.get(lang, []):
            for f1 in firsts:
                try:
                    r1, b1 = ev.run_apply(f1)
                except (Compound, Unanalysable) as e:
                    rep.anchor(R, '%s|%s' % (lang, f1), 'cannot evaluate apply("%s"): %s' % (f1, e))
                    continue
                digits = _digits_after(b1)
                if not (isinstance(r1, Res) and r1.ok) or digits is None:
                    rep.anchor(R, '%s|%s' % (lang, f1), 'first word "%s" is not accepted on a fresh builder (%r)' % (f1, r1))
                    continue
                for w2, must_refuse in [(w, True) for w in refused] + [(w, False) for w in accepted]:
                    n += 1
                    ent = '%s|%s %s' % (lang, f1, w2)
                    try:
                        r2, b2 = ev.run_apply(w2, Builder(digits=digits, flags=b1.flags))
                    except (Compound, Unanalysable) as e:
                        rep.anchor(R, ent, 'cannot evaluate apply("%s"): %s' % (w2, e))
                        continue
                    ok2 = isinstance(r2, Res) and r2.ok
                    if must_refuse:
                        rep.check(not ok2, R, ent, '"%s" right after "%s" is refused' % (w2, f1),
                                  '"%s" right after "%s" is accepted (flags %s): the two numbers are fused' % (w2, f1, b1.flags))
                    else:
                        rep.check(ok2, R, ent, '"%s" right after "%s" is accepted' % (w2, f1),
                                  '"%s" right after "%s" is refused (%r): a standard compound is rejected' % (w2, f1, r2))
    rep.floor(R, n, 150, 'blocking contexts evaluated')
    # flag constants: single distinct bits, aggregates are the union of their members
    for lang, ty, singles, aggregates in (('fr', 'lang::fr::Excludable', ['UN', 'DEUX', 'TROIS', 'QUATRE', 'CINQ', 'SIX'], {'UN_SIX': ['UN', 'DEUX', 'TROIS', 'QUATRE', 'CINQ', 'SIX']}),
                                          ('de', 'lang::de::Excludable', ['TENS'], {}), ('nl', 'lang::nl::Excludable', ['TENS'], {}),
                                          ('pt', 'lang::pt::Restriction', ['CONJUNCTION', 'ONLY_MULTIPLIERS'], {})):
        if lang not in langs:
            continue
        ev = evaluator(ctx, lang)
        try:
            vals = {nme: ev.const_value('%s::%s' % (ty, nme)).bits for nme in singles + list(aggregates)}
        except (Unanalysable, AttributeError) as e:
            rep.anchor(R, lang + '|flag-constants', 'cannot evaluate the flag constants of %s: %s' % (ty, e))
            continue
        ok = all(vals[s] and vals[s] & (vals[s] - 1) == 0 for s in singles) and len({vals[s] for s in singles}) == len(singles)
        for agg, members in aggregates.items():
            u = 0
            for mname in members:
                u |= vals[mname]
            ok = ok and vals[agg] == u
        rep.check(ok, R, lang + '|flag-constants', 'flag constants are distinct single bits, aggregates are unions: %s' % vals,
                  'flag constants of %s are inconsistent: %s' % (ty, vals))


def _digits_after(b):
    """Digits a fresh builder holds after the single logged placing operation."""
    ops = [o for o in b.ops if o[0] in ('put', 'fput', 'put_digit_at', 'shift', 'push')]
    if len(ops) != 1:
        return None
    o = ops[0]
    if o[0] in ('put', 'fput', 'push'):
        return bytes(o[1])
    if o[0] == 'put_digit_at':
        return bytes([o[1]]) + b'0' * o[2]
    if o[0] == 'shift':
        return b'1' + b'0' * o[1]
    return None


# ---------------------------------------------------------------------------------------
GROUP_ORDINALS = {
    # lang: (compound ordinal token, digits of the group, marker the group / the token carries)
    'en': ('twenty-first', b'21', 'st'), 'fr': ('vingt-et-unième', b'21', 'ème'), 'de': ('einundzwanzigste', b'21', '.'),
    'nl': ('eenentwintigste', b'21', 'e'), 'it': ('ventitreesimo', b'23', 'º'),
}


def rule_group_ordinal(ctx, rep, langs=ALL_LANGS):
    R = 'A2b-GROUP-ORDINAL'
    rep.rule(R, 'the group path of apply (hyphen groups en/fr, compound words de/nl/it), evaluated with an abstract group result, '
                'places the group digits with one put, carries the ordinal marker over and freezes the builder')
    from ..peval import Res as _Res
    for lang in langs:
        if lang not in GROUP_ORDINALS:
            continue
        word, digits, mk = GROUP_ORDINALS[lang]
        ev = LexEvaluator(ctx.facts, lang)
        ds = Builder(digits=digits, marker=Marker('Ordinal', mk))
        ds.frozen = True
        ev.group_result = _Res(True, ds)
        ent = '%s|%s' % (lang, word)
        try:
            r, b = ev.run_apply(word)
        except Unanalysable as e:
            rep.anchor(R, ent, 'group path of apply left the analysable fragment: %s' % e)
            continue
        except Compound:
            rep.anchor(R, ent, 'group path not taken')
            continue
        puts = [o for o in b.ops if o[0] in ('put', 'fput', 'push', 'shift', 'put_digit_at')]
        problems = []
        if not (isinstance(r, _Res) and r.ok):
            problems.append('returns %r' % (r,))
        if puts != [('put', digits)]:
            problems.append('places %s, expected one put of the group digits' % puts)
        if b.marker != Marker('Ordinal', mk):
            problems.append('marker is %r, expected Ordinal(%r)' % (b.marker, mk))
        if not b.frozen:
            problems.append('builder not frozen after the ordinal group')
        rep.check(not problems, R, ent, 'group digits placed once, marker %s kept, builder frozen' % mk,
                  'compound ordinal "%s": %s' % (word, '; '.join(problems)), ctx.facts.loc(table(ctx, lang).body['sp']))
        # a failing group must be propagated unchanged, with nothing placed
        ev2 = LexEvaluator(ctx.facts, lang)
        ev2.group_result = _Res(False, 'NaN')
        try:
            r2, b2 = ev2.run_apply(word)
            rep.check(isinstance(r2, _Res) and not r2.ok and not b2.ops, R, ent + '|error', 'a rejected group places nothing and is reported',
                      'a rejected group yields %r with operations %s' % (r2, b2.ops))
        except (Unanalysable, Compound) as e:
            rep.anchor(R, ent + '|error', 'error path not analysable: %s' % e)


COMPOSE = {
    # lang: [(first words, second-word classes that must be accepted right after, flags override)]
    'en': [(['twenty', 'thirty', 'forty', 'fifty', 'sixty', 'seventy', 'eighty', 'ninety'], ['unit'], None),
           (['hundred', 'thousand', 'million'], ['unit', 'teen', 'ten'], None)],
    'fr': [(['vingt', 'trente', 'quarante', 'cinquante', 'soixante'], ['unit!un'], None),
           (['cent', 'mille', 'million'], ['unit', 'vig_teen', 'vig_vingt', 'ten'], None)],
    'es': [(['treinta', 'cuarenta', 'cincuenta', 'sesenta', 'setenta', 'ochenta', 'noventa'], ['unit'], None),
           (['ciento', 'doscientos', 'mil'], ['unit', 'teen', 'ten', 'ten_unit'], None)],
    'pt': [(['vinte', 'trinta', 'quarenta', 'cinquenta', 'sessenta', 'setenta', 'oitenta', 'noventa'], ['unit'], 1),
           (['cento', 'duzentos', 'mil'], ['unit', 'teen', 'ten'], 1)],
    'it': [(['cento', 'mille'], ['unit', 'teen', 'ten', 'ten_unit'], None)],
    'de': [(['hundert', 'tausend'], ['unit', 'teen', 'ten'], None)],
    'nl': [(['honderd', 'duizend'], ['unit', 'teen', 'ten'], None)],
}


def rule_compose_contexts(ctx, rep, langs=ALL_LANGS):
    R = 'A1c-COMPOSE-CONTEXTS'
    rep.rule(R, 'a smaller number word right after a tens / hundred / thousand word (builder state = what that word leaves on a fresh '
                'builder) is accepted with its own instruction: the guards are not stricter than the grammar')
    n = 0
    for lang in langs:
        lx = lexicon(lang)
        ev = evaluator(ctx, lang)
        cards = [c for c in lx['cardinals'] if c['tier'] == 'core']
        for firsts, classes, flags_override in COMPOSE.get(lang, []):
            for f1 in firsts:
                try:
                    r1, b1 = ev.run_apply(f1)
                except (Compound, Unanalysable) as e:
                    rep.anchor(R, '%s|%s' % (lang, f1), 'cannot evaluate apply("%s"): %s' % (f1, e))
                    continue
                digits = _digits_after(b1)
                if not (isinstance(r1, Res) and r1.ok) or digits is None:
                    rep.anchor(R, '%s|%s' % (lang, f1), '"%s" is not accepted on a fresh builder (%r)' % (f1, r1))
                    continue
                flags = b1.flags if flags_override is None else flags_override
                for cspec in classes:
                    cls, _, excl = cspec.partition('!')
                    for c in cards:
                        if c['class'] != cls or c['w'] == excl:
                            continue
                        if len(str(c['v'])) > len(digits) or (len(str(c['v'])) == len(digits) and cls != 'unit' and not digits.endswith(b'0' * len(str(c['v'])))):
                            continue
                        if not digits.endswith(b'0' * len(str(c['v']))):
                            continue
                        n += 1
                        ent = '%s|%s %s' % (lang, f1, c['w'])
                        try:
                            r2, b2 = ev.run_apply(c['w'], Builder(digits=digits, flags=flags))
                        except (Compound, Unanalysable) as e:
                            rep.anchor(R, ent, 'cannot evaluate apply("%s"): %s' % (c['w'], e))
                            continue
                        ops = [o for o in b2.ops if o[0] != 'freeze']
                        want_op = sorted(expected_ops(lang, 'unit' if cls.startswith('vig') and False else cls, c['v']))
                        ok = isinstance(r2, Res) and r2.ok and len(ops) == 1 and ops[0][0] in ('put', 'put_digit_at')
                        rep.check(ok, R, ent, '"%s" after "%s" is accepted' % (c['w'], f1),
                                  '"%s" right after "%s" (builder %s) is %r with %s: the standard spelling of %s+%d is rejected' % (
                                      c['w'], f1, digits.decode(), r2, ops, digits.decode(), c['v']))
    rep.floor(R, n, 500, 'composition contexts evaluated')


# ---------------------------------------------------------------------------------------
GROUP_TOKENS = {'en': 'twenty-one', 'fr': 'vingt-deux', 'de': 'einundzwanzig', 'nl': 'eenentwintig', 'it': 'ventidue'}


def rule_zero_invariance(ctx, rep, langs=ALL_LANGS):
    R = 'A9b-ZERO-INVARIANCE'
    rep.rule(R, 'leading zeros never change how the next word is interpreted: for every core cardinal word, scale-word context and '
                'group path, apply evaluated on a builder with k leading zeros decides and instructs exactly as with none')
    n = 0

    def outcome(ev, word, digits, k, flags=0):
        b0 = Builder(digits=digits, leading_zeroes=k, flags=flags)
        r, b = ev.run_apply(word, b0)
        return (isinstance(r, Res) and r.ok, repr(r) if not (isinstance(r, Res) and r.ok) else 'Ok',
                tuple(o for o in b.ops), repr(b.marker), b.frozen)

    for lang in langs:
        lx = lexicon(lang)
        ev = evaluator(ctx, lang)
        cases = []   # (label, word, digits, flags, evaluator)
        for c in lx['cardinals']:
            if c['tier'] == 'core':
                cases.append(('%s' % c['w'], c['w'], b'', 0, ev))
        for word, cls, ok_m, bare_ok, bad_m in SCALE_CONTEXTS.get(lang, []):
            for m in [x for x in (1, 2, 21, 101) if x in ok_m or x in bad_m]:
                cases.append(('%s after %d' % (word, m), word, str(m).encode(), PT_FLAGS_AFTER.get(m, 0) if lang == 'pt' else 0, ev))
        if lang in GROUP_TOKENS:
            for gd in (b'21', b'1200', b'21000'):
                gev = LexEvaluator(ctx.facts, lang)
                gev.group_result = Res(True, Builder(digits=gd))
                cases.append(('group %s' % gd.decode(), GROUP_TOKENS[lang], b'', 0, gev))
        for label, word, digits, flags, e in cases:
            try:
                base = outcome(e, word, digits, 0, flags)
                diffs = []
                for k in (1, 3, 6):
                    n += 1
                    o = outcome(e, word, digits, k, flags)
                    if o != base:
                        diffs.append((k, o[1], [x for x in o[2]]))
            except (Unanalysable, Compound) as ex:
                rep.anchor(R, '%s|%s' % (lang, label), 'not analysable: %s' % ex)
                continue
            ent = '%s|%s' % (lang, label)
            if diffs:
                k, res, ops = diffs[0]
                rep.violation(R, ent, '"%s"%s: without leading zeros apply gives %s %s, after %d spoken zero(s) it gives %s %s — zeros before a number '
                              'change how it is read' % (word, (' (builder %s)' % digits.decode()) if digits else '', base[1], list(base[2]), k, res, ops))
            else:
                rep.ok(R, ent, 'same decision and instruction with 0, 1, 3 and 6 leading zeros')
    rep.floor(R, n, 900, 'zero-invariance evaluations')


# ---------------------------------------------------------------------------------------
def rule_arm_atomic(ctx, rep, langs=ALL_LANGS):
    R = 'A8-ARM-ATOMIC'
    rep.rule(R, 'every arm of every word table issues at most one builder operation per path and its value is that operation\'s '
                'result or a constant Err; the default arm is Err(NaN): a rejected word leaves no digits behind')
    n = 0
    for lang in langs:
        for method in ('apply', 'apply_decimal'):
            try:
                t = table(ctx, lang, method)
            except Unanalysable as e:
                rep.anchor(R, '%s|%s' % (lang, method), str(e))
                continue
            if t.match is None:
                continue
            for arm in t.arms:
                n += 1
                ent = '%s|%s|%s' % (lang, method, '/'.join(arm.pats[:2]) or 'default')
                bad = []
                for l in t.leaves(arm):
                    if l.kind == 'other':
                        bad.append('value `%s`' % l.op)
                    for sd in l.sides:
                        if re.search(r'\bB\.(put|fput|push|shift|put_digit_at|freeze|reset)\(', sd) or sd.startswith('stmt:') and 'B.' in sd:
                            bad.append('extra builder operation `%s` before the result' % sd)
                if arm.is_default:
                    lv = t.leaves(arm)
                    if not (len(lv) == 1 and lv[0].sig() == 'Err(NaN)'):
                        bad.append('default arm is %s, expected Err(NaN)' % lv)
                rep.check(not bad, R, ent, 'single operation or constant error per path', 'arm %s: %s' % (arm.pats or 'default', '; '.join(bad)), _loc(ctx, arm))
    rep.floor(R, n, 320, 'arms inspected')
