"""B8 THRESHOLD-NONINTERFERENCE and B16 POLICY-TABLE (property C09)."""
import itertools
import re

from ..absint import Enum, Interp, Ref, Struct, Unsupported
from ..mirx import pretty, short_callee, untag
from .scanner import q, _loc, FN, TRACKER


def rule_threshold(ctx, rep):
    R = 'B8-THRESHOLD'
    rep.rule(R, 'the threshold is read once, as the right operand of a strict `value < threshold`, conjoined with "one digit or '
                'ordinal"; the result only selects hold vs emit in NumTracker::number_end; the field is never written after new')
    f = ctx.facts
    # every place mentioning the field
    reads = []
    writes = []
    for path, m in f.mir.items():
        for bi, b in enumerate(m['blocks']):
            if b.get('cleanup'):
                continue
            for s in b['stmts']:
                if s['k'] != 'assign':
                    continue
                if any(isinstance(p, dict) and p.get('name') == 'threshold' for p in s['pl']['p']):
                    writes.append((path, f.loc(s['sp'])))
                rv = s['rv']
                for key in ('op', 'a', 'b'):
                    o = rv.get(key)
                    if isinstance(o, dict) and 'pl' in o and any(isinstance(p, dict) and p.get('name') == 'threshold' for p in o['pl']['p']):
                        reads.append((path, bi, f.loc(s['sp'])))
                if 'pl' in rv and any(isinstance(p, dict) and p.get('name') == 'threshold' for p in rv['pl']['p']):
                    reads.append((path, bi, f.loc(s['sp'])))
    rep.check(not writes, R, 'never-written', 'FindNumbers.threshold is only initialised by the constructor',
              'threshold is written at %s' % writes)
    rfns = sorted({r[0] for r in reads})
    rep.check(rfns == [FN + 'number_end'], R, 'single-reader', 'threshold is read only in FindNumbers::number_end',
              'threshold is read in %s: recognition may depend on it' % rfns)
    qn = q(ctx, FN + 'number_end')
    if qn is None:
        rep.anchor(R, 'number_end', 'not found')
        return
    x = qn.x
    # the value handed to the tracker
    ne = qn.calls('NumTracker::number_end')
    if len(ne) != 1:
        rep.anchor(R, 'tracker-call', 'expected one call of NumTracker::number_end')
        return
    t = qn.term(ne[0])
    fop = t['args'][4]
    fl = fop['pl']['l'] if 'pl' in fop else None
    # follow plain copies back to the (multi-definition) flag variable
    for _ in range(6):
        ds = x.whole_defs(fl) if fl is not None else []
        if len(ds) == 1 and ds[0][0] == 'assign' and ds[0][3]['rv']['k'] == 'use' and 'pl' in ds[0][3]['rv']['op'] \
                and not ds[0][3]['rv']['op']['pl']['p']:
            fl = ds[0][3]['rv']['op']['pl']['l']
        else:
            break
    defs = []
    for d in x.whole_defs(fl) if fl is not None else []:
        if d[0] == 'assign':
            defs.append((d[1], untag(pretty(x.desc_rvalue(d[3]['rv'])))))
    vals = sorted(v for _b, v in defs)
    value = 'WordToDigitParser::string_and_value(self.parser).1'
    digits = 'WordToDigitParser::string_and_value(self.parser).0'
    ordn = 'WordToDigitParser::is_ordinal(self.parser)'
    want_lt = '(%s < self.threshold)' % value
    rep.check(vals == sorted([want_lt, 'false']), R, 'comparison', 'forget_if_isolate is `value < threshold` (strict, value on the left) or false',
              'forget_if_isolate is computed as %s: the threshold no longer enters through one strict `value < threshold`' % vals,
              _loc(ctx, qn, ne[0]))
    for b, v in defs:
        facts = set(qn.facts(b))
        if v == 'false':
            want = {'(1 != String::len(%s))' % digits, '!%s' % ordn}
            rep.check(facts == want, R, 'small-test|false-branch', 'false exactly when neither one digit nor ordinal',
                      'the constant-false branch is taken under %s, expected %s' % (sorted(facts), sorted(want)))
        elif v == want_lt:
            # reached from (len == 1) or from (!len==1 && ordinal): no single dominating fact; the complement is checked above
            srcs = set()
            for src, dst, fact in qn.edge_targets_re(r'^\(1 == String::len\(|^WordToDigitParser::is_ordinal\(self\.parser\)$'):
                if b in qn.reachable([dst]):
                    srcs.add(fact)
            rep.check(len(srcs) == 2, R, 'small-test|lt-branch', 'the comparison is evaluated when the text has one digit or the number is ordinal',
                      'the comparison branch is entered from %s' % sorted(srcs))
    # no other use of the flag in this function
    def root(op):
        if 'pl' not in op or op['pl']['p']:
            return None
        l = op['pl']['l']
        for _ in range(6):
            ds = x.whole_defs(l)
            if len(ds) == 1 and ds[0][0] == 'assign' and ds[0][3]['rv']['k'] == 'use' and 'pl' in ds[0][3]['rv']['op'] \
                    and not ds[0][3]['rv']['op']['pl']['p']:
                l = ds[0][3]['rv']['op']['pl']['l']
            else:
                break
        return l
    uses = 0
    for b in x.blocks:
        if b.get('cleanup'):
            continue
        tt = b.get('term') or {}
        for a in tt.get('args', []):
            if root(a) == fl:
                uses += 1
        if tt.get('k') == 'switch' and root(tt['op']) == fl:
            uses += 1
    rep.check(uses == 1, R, 'flag-single-use', 'the flag is only passed to NumTracker::number_end', 'the flag is used %d times' % uses)
    # in the tracker: a5 only selects hold vs emit
    qt = q(ctx, TRACKER + 'number_end', expand=False)
    xt = qt.x
    a5_uses = []
    for bi, b in enumerate(xt.blocks):
        tt = b.get('term') or {}
        if tt.get('k') == 'switch' and untag(pretty(xt.desc_op(tt['op']))) == 'a5':
            a5_uses.append(('switch', bi))
        for a in tt.get('args', []):
            if untag(pretty(xt.desc_op(a))) == 'a5':
                a5_uses.append(('arg', bi))
    rep.check([u[0] for u in a5_uses] == ['switch'], R, 'tracker|flag-use', 'forget_if_isolate is only branched on, once',
              'forget_if_isolate is used as %s' % a5_uses)
    # what the two outcomes do is decided completely by B16 (24-case table of the same function)


def _case_heap(last, hold):
    held = Struct('Occurence', {'start': 'HS', 'end': 'HE', 'text': 'HELDTEXT', 'value': 'HV', 'is_ordinal': 'H?'})
    return {'tracker': Struct('NumTracker', {
        'matches': 'QUEUE',
        'on_hold': Enum('core::option::Option', 'Some', [held]) if hold else Enum('core::option::Option', 'None'),
        'last_contiguous_match': Enum('word_to_digit::MatchKind', last),
        'match_start': 'S', 'match_end': 'E',
    })}


def rule_policy_table(ctx, rep):
    R = 'B16-POLICY-TABLE'
    rep.rule(R, 'the hold/release function NumTracker::number_end, evaluated on its 24 finite-domain cases (last kind x held x '
                'ordinal x small), behaves as the statement prescribes; sequence_breaker only forgets the last kind')
    f = ctx.facts
    m = f.mir_body(TRACKER + 'number_end')
    if m is None:
        rep.anchor(R, 'number_end', 'not found')
        return
    n = 0
    for last, hold, is_ord, small in itertools.product(['None', 'Cardinal', 'Ordinal'], [False, True], [False, True], [False, True]):
        ent = 'last=%s,held=%s,ordinal=%s,small=%s' % (last, hold, is_ord, small)
        it = Interp(f)
        heap = _case_heap(last, hold)
        try:
            it.run(m, [Ref('heap', 'tracker'), is_ord, 'DIGITS', 'VALUE', small], heap=heap)
        except Unsupported as e:
            rep.anchor(R, ent, 'the policy function left the analysable fragment: %s' % e)
            continue
        n += 1
        tr = it.heap['tracker']
        emits = []
        for e in it.log:
            if e[0] == 'push_back':
                emits.append('held' if 'HELDTEXT' in e[1] else ('current' if 'DIGITS' in e[1] else '?'))
        oh = tr.fields['on_hold']
        final_hold = 'none' if oh.variant == 'None' else ('current' if 'DIGITS' in str(oh) else 'held')
        kind = 'Ordinal' if is_ord else 'Cardinal'
        # expected behaviour (statement of C09)
        if last == kind:
            exp_emits = (['held'] if hold else []) + ['current']
            exp_hold = 'none'
        elif small:
            exp_emits = []
            exp_hold = 'current'
        else:
            exp_emits = ['current']
            exp_hold = 'none'
        got = (emits, final_hold, tr.fields['last_contiguous_match'].variant, tr.fields['match_start'])
        exp = (exp_emits, exp_hold, kind, 'E')
        # the constructed occurrence carries the flag it was given
        rep.check(got == exp, R, ent, 'emits %s, holds %s, last := %s, span closed' % (exp_emits, exp_hold, kind),
                  'policy deviates: emits %s / holds %s / last=%s / match_start=%s, expected emits %s / holds %s / last=%s / match_start=E' % (
                      got[0], got[1], got[2], got[3], exp[0], exp[1], exp[2]))
    rep.floor(R, n, 24, 'policy cases evaluated')
    qs = q(ctx, TRACKER + 'sequence_breaker')
    if qs is None:
        rep.anchor(R, 'sequence_breaker', 'not found')
    else:
        w = sorted((untag(pretty(s[5])), untag(pretty(s[3]))) for s in qs.x.mut_analysis()['sites'])
        rep.check(w == [('self.last_contiguous_match', 'None')], R, 'sequence_breaker', 'only forgets the last kind',
                  'sequence_breaker writes %s' % w)


def rule_breaker_condition(ctx, rep):
    """Truth table of the sequence-breaker condition in FindNumbers::outside_number over its three atoms."""
    R = 'B8-BREAKER-CONDITION'
    rep.rule(R, 'outside_number breaks the sequence exactly when NOT((no alphabetic char AND not a lone period) OR linking word) '
                '(8-row truth table of the source function)')
    f = ctx.facts
    m = f.mir_body(FN + 'outside_number')
    if m is None:
        rep.anchor(R, 'outside_number', 'not found')
        return
    n = 0
    for A, B, C in itertools.product([False, True], repeat=3):
        asked = []

        def oracle(desc, args, A=A, B=B, C=C, asked=asked):
            asked.append(desc)
            if desc.startswith('Iterator::all(str::chars(Token::text(a2))'):
                return A
            if desc.startswith('PartialEq::ne(str::trim(Token::text(a2)), ".")'):
                return B
            if desc.startswith('LangInterpreter::is_linking('):
                return C
            if desc.startswith('NumTracker::sequence_breaker'):
                return ()
            if desc.startswith(('Token::text', 'Token::text_lowercase', 'str::chars', 'str::trim')):
                return ('opaque', desc)
            raise Unsupported('unexpected call ' + desc)
        it = Interp(f, oracle)
        heap = {'fn': Struct('FindNumbers', {'lang': 'LANG', 'tracker': Struct('NumTracker', {
            'last_contiguous_match': Enum('word_to_digit::MatchKind', 'Cardinal')})}), 'token': 'TOKEN'}
        ent = 'nonalpha=%s,notperiod=%s,linking=%s' % (A, B, C)
        try:
            it.run(m, [Ref('heap', 'fn'), Ref('heap', 'token')], heap=heap)
        except Unsupported as e:
            rep.anchor(R, ent, 'condition left the analysable fragment: %s' % e)
            continue
        n += 1
        broke = it.heap['fn'].fields['tracker'].fields['last_contiguous_match'].variant == 'None'
        want = not ((A and B) or C)
        rep.check(broke == want, R, ent, 'sequence %s' % ('broken' if want else 'kept'),
                  'outside_number %s the sequence for this combination, expected %s' % ('breaks' if broke else 'keeps', 'break' if want else 'keep'))
    rep.floor(R, n, 8, 'truth-table rows')
    # atoms are what they are supposed to be
    qc = q(ctx, FN + 'outside_number::{closure#0}')
    if qc is not None:
        rets = [v for _b, v in qc.return_values()]
        rep.check(rets == ['!methods::is_alphabetic(a2)'], R, 'atom|non-alphabetic', 'the per-character test is !is_alphabetic',
                  'the per-character test is %s' % rets)
