"""Property registry: which rules decide which property, and the text that goes to the evidence."""
from .rules import facade, stateless

TRUST_COMMON = [
    'rustc nightly 1.97 front end (name resolution, type check, MIR construction) — the facts',
    'the fact serialiser /verif/driver (no judgement, prints what rustc resolved)',
    'the Python rule engine /verif/analysis',
]

ASSUME_COMMON = [
    'closed world: LangInterpreter / Token / Replace / BasicAnnotate impls written by users are outside the claim',
    'library target only (cfg(test) modules and doctests are not analysed)',
    'dependencies (std, phf, daachorse, bitflags) are trusted by signature, not analysed',
]


class Prop:
    def __init__(self, pid, level, rules, explanation, assumptions=(), trusted=()):
        self.pid = pid
        self.level = level
        self.rules = rules
        self.explanation = explanation
        self.assumptions = list(assumptions) + ASSUME_COMMON
        self.trusted = list(trusted) + TRUST_COMMON


PROPS = {}


def reg(p):
    PROPS[p.pid] = p


reg(Prop('C13', 'proof',
         [facade.rule_delegation, facade.rule_constructors, facade.rule_iso, facade.rule_no_downcast],
         'Decides the whole statement structurally. C-DELEGATION: every trait method that any concrete interpreter '
         'defines is defined by `impl LangInterpreter for Language` as `match self` with exactly one arm per variant, '
         'each arm calling the same-named trait method on the bound payload (resolved by rustc to that payload type\'s '
         'impl) with the facade\'s own parameters in order and returning the result unchanged. C-CTOR: Language::x() '
         'wraps <X as Default>::default() in variant X and X::new() is the same default. C-ISO: the code table maps '
         'de,en,es,fr,it,nl,pt to exactly those constructors, nothing else resolves, the parameter is matched '
         'unnormalised, the default arm is None. C-NO-DOWNCAST: no type-identity dispatch. Since every API function is '
         'generic over L: LangInterpreter and reaches the language only through trait methods, the facade and the '
         'concrete type perform identical calls for every input.',
         trusted=['ISO 639-1 table frozen in rules/facade.py']))

reg(Prop('C14', 'proof',
         [stateless.rule_types, stateless.rule_statics, stateless.rule_effects],
         'Decides the whole statement modulo dependencies. (i) the seven interpreters and Language are Freeze, Send and '
         'Sync according to rustc\'s trait solver; every LangInterpreter method takes &self, so no call can modify the '
         'interpreter; (ii) no static mut, no interior-mutable or thread-local static, no user-written unsafe; (iii) the '
         'complete callee inventory of the library MIR contains no effectful callee (std::io incl. _print/_eprint used '
         'by print!/dbg!, fs, env, time, process, net, thread, sync, cell, rand, raw pointers, FFI) and no indirect or '
         'unclassified call. With no mutable state reachable and no effect, each result is a function of the call\'s '
         'arguments; with Send+Sync interpreters may be shared across threads.',
         trusted=['std / phf / daachorse / bitflags bodies keep no hidden global state and do not print on the calls made']))


# ---------------------------------------------------------------------------------------
# texts for MANIFEST.json (tools/gen_manifest.py)

MANIFEST_TEXT = {}
NOT_APPLICABLE = {}


def mtext(pid, text, note, technique, design_ref):
    MANIFEST_TEXT[pid] = {'text': text, 'note': note, 'technique': technique, 'design_ref': design_ref}


mtext('C13',
      'Proof by exhaustive structural obligations: the statement reduces completely to facts visible in the code '
      '(verbatim delegation per method and variant, constructor/variant/payload agreement, the code table). 56 delegation + '
      '14 constructor + 7 code obligations + default arm + no-normalisation + no-downcast are each checked on rustc\'s '
      'resolved HIR; all must be discharged.',
      'Trusted: rustc name resolution/type check (facts), the fact serialiser, the Python rules, the frozen ISO 639-1 table. '
      'Closed world: user-written interpreters are outside the claim.',
      'static analysis: HIR shape/obligation check of the delegate match arms and the ISO table on type-resolved callees',
      'DESIGN.md §2 Family C, §4 C13')
mtext('C14',
      'Proof modulo dependencies: Freeze/Send/Sync obligations answered by rustc\'s trait solver for the seven interpreters '
      'and Language, &self receivers, absence of mutable/interior-mutable/thread-local statics and of user unsafe, and a '
      'complete effect inventory (every call site of the library MIR classified; no effectful, indirect or unclassified callee).',
      'Trusted: std, phf, daachorse, bitflags keep no hidden global state and do not print on the calls made (their bodies are '
      'outside the crate\'s MIR); the trait solver\'s answers; the callee classification table in analysis/t2n/callees.py.',
      'static analysis: trait-solver obligations (Freeze/Send/Sync) + whole-crate MIR effect inventory + static/unsafe inventory',
      'DESIGN.md §2 Family C, §4 C14')
