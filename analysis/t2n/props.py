"""Property registry: which rules decide which property, and the text that goes to the evidence and MANIFEST.json.

Rule families (DESIGN.md §10):
  A*   lexical rules: the source (HIR) of each interpreter's apply / apply_decimal / lemmatize / get_morph_marker /
       format_* / basic_annotate is evaluated on the constants of the reference lexicon and grammar tables, the digit
       builder being an abstract state                                                         (rules/lexeval.py, lexical.py)
  V*   abstract-machine rules: the MIR of the scanner, tokenizer, rewriter, digit builder, facade and code table is
       interpreted against a finite abstraction of its environment; every case of the abstraction up to a bounded
       length is tabulated and the property's clauses are predicates over those tables          (vm.py, rules/*vm.py)
  B*   MIR dataflow rules: panic-site inventory + prover, write-before-Err reachability, frozen-first dominance, loop
       progress, raw-case taint, scratch-builder typestate                                     (rules/panics.py, builder.py, ...)
  C*   type-level / inventory rules: trait-solver obligations, statics, effect inventory       (rules/stateless.py, facade.py)
"""
from .rules import (builder, dsvm, facade, facadevm, lexeval, lexical, panics, phrases, progress, scanner, scanvm, sentences,
                    stateless, textflow, textvm)

TRUST_COMMON = [
    'rustc nightly 1.97 front end (name resolution, type check, MIR construction) — the facts',
    'the fact serialiser /verif/driver (no judgement, prints what rustc resolved)',
    'the Python rule engine /verif/analysis, incl. its MIR/HIR evaluators (vm.py, peval.py) and their models of the std functions used',
]

ASSUME_COMMON = [
    'closed world: LangInterpreter / Token / Replace / BasicAnnotate impls written by users are outside the claim',
    'library target only (cfg(test) modules and doctests are not analysed)',
    'dependencies (std, phf, daachorse, bitflags) are trusted by signature, not analysed',
]

MACHINE = ('Bounded: the case tables of the abstract machine are complete up to the stated script length over the stated class alphabet; '
           'a violation that needs a longer script, or a distinction the abstraction does not make, is not seen.')


class Prop:
    def __init__(self, pid, level, rules, explanation, assumptions=(), trusted=()):
        self.pid = pid
        self.level = level
        self.rules = rules
        self.explanation = explanation
        self.assumptions = list(assumptions) + ASSUME_COMMON
        self.trusted = list(trusted) + TRUST_COMMON


PROPS = {}
MANIFEST_TEXT = {}
NOT_APPLICABLE = {}


def reg(pid, level, rules, explanation, text, note, technique, design_ref, assumptions=(), trusted=()):
    PROPS[pid] = Prop(pid, level, rules, explanation, assumptions, trusted)
    MANIFEST_TEXT[pid] = {'text': text, 'note': note, 'technique': technique, 'design_ref': design_ref}


def only(rule, pattern, label=None):
    """The clauses of a shared rule that belong to this property: instances whose entity matches `pattern` (anchors and floors always).
    A case table is computed once; each property reports the part of it that its own statement is about."""
    import re as _re
    rx = _re.compile(pattern)

    def run(ctx, rep):
        from .engine import Report
        sub = Report(rep.prop)
        rule(ctx, sub)
        for rid, desc in sub.rules.items():
            rep.rules[rid] = desc + ' [clauses reported for this property: /%s/]' % pattern
        for rid, fl in sub.floors.items():
            rep.floors[rid] = fl
        kept = 0
        for i in sub.instances:
            if i.verdict == 'anchor' or rx.search(i.entity):
                rep.instances.append(i)
                kept += i.verdict != 'anchor'
        if not kept and not any(i.verdict == 'anchor' for i in sub.instances):
            rep.anchor(next(iter(sub.rules), 'ENGINE'), 'FILTER', 'no instance of the shared rule matches /%s/ (clause renamed?)' % pattern)
    run.__name__ = (label or rule.__name__) + '~' + pattern
    return run


def _c03_sites(ctx, rep):
    panics.rule_panic_sites(ctx, rep, 'C03')


def _c12_sites(ctx, rep):
    panics.rule_panic_sites(ctx, rep, 'C12')


T_LEX = 'static analysis: partial evaluation of the interpreter source (HIR) on lexicon / grammar-table constants with an abstract digit builder'
T_VM = 'static analysis: abstract interpretation of rustc MIR against a finite abstraction of the environment, complete bounded case tables'

# ------------------------------------------------------------------------------------------------------------------
reg('C01', 'other',
    [phrases.rule_roundtrip, sentences.rule_numbers_in_sentences, textvm.rule_word_splitter, lexeval.rule_lex_card, lexical.rule_scale_contexts, lexical.rule_compose_contexts, lexeval.rule_split_closure,
     lexeval.rule_zero_arm, lexeval.rule_conj, lexeval.rule_neg_contexts],
    "A0-ROUNDTRIP: the validator path — the provided exec_group, the language's apply and the crate's own DigitString, all interpreted from MIR — "
    "turns the standard spelling of n and its orthographic variants (hyphen/space, optional conjunction, regional forms) into exactly the digits "
    "of n, for every n < 1000 (10 000 thorough) and structural samples up to 10^9, in all seven languages. Word-level diagnosis by evaluating "
    "apply on the frozen reference lexicon: A1 every core cardinal form (7 languages, ~350 forms incl. plural/inflected scale words, regional "
    "tens, national variants) is accepted on the builder state its class requires and issues exactly the instruction its value prescribes (put of "
    "its digits; de/nl tens put_digit_at; scale words shift 2/3/6/9/12; French vigesimal forms on 60/80/4); A1b every scale word after every "
    "multiplier of the grammar table, refused after the forbidden ones; A1c every (first word, following class) pair the grammar composes is "
    "accepted; A3 splitter patterns and known words agree and every piece of every generated compound spelling (de/it/nl, n <= 999 quick, <= 9999 "
    "thorough) is a known word; A6 zero words; A10 the conjunction is Incomplete after each word it may follow; A7 the contexts that must be refused "
    "(never split / never fused needs both). Does NOT decide that the composition of correct instructions yields decimal(n) for every n < 10^12 "
    "in every sentence context.",
    'Lexical mechanism of the round-trip decided by evaluating the interpreter source on ~350 cardinal forms x the builder states of the grammar '
    'tables; the digit arithmetic of the composition is left to C12\'s builder clauses.',
    'Not decided: the full composition for every n < 10^12 (run-time buffer contents). The reference lexicons /verif/lexicon/*.json are the oracle.',
    T_LEX, 'DESIGN.md §10.2, §3')
reg('C02', 'other',
    [only(textvm.rule_tokenizer, r'^(?!whitespace-invariant)'), textvm.rule_text_rewrite, scanvm.rule_replace_tokenwise],
    "V02-TOKENIZER: tokenizer::tokenize interpreted on every string up to length 4 (5 thorough) over one representative per (char class x UTF-8 "
    "width): tokens concatenate to the input, are non-empty, alternate word/separator, lowercase form = lowercased text, no slice off a char boundary. "
    "V02-REPLACE-TOKENWISE: replace_numbers_in_stream on every token script: every token kept or consumed exactly once, in order, by the replacement "
    "of the occurrence covering it; replacements = the occurrences find_numbers reports. V02-TEXT-REWRITE: replace_numbers_in_text on texts composed "
    "of word and separator classes (zero-width, no-break, BOM): result = tokens joined with the reported occurrences replaced; no-number texts identical. "
    + MACHINE,
    'Locality decided on complete bounded case tables: tokenizer lossless over all class strings, token-wise conservation of the stream rewriter over all '
    'token scripts, text rewriting = tokenize + find + replace + join over composed texts.',
    MACHINE + ' The abstract language of the scanner model stands for the seven interpreters (the scanner is generic over L).',
    T_VM, 'DESIGN.md §10.3')
reg('C03', 'other',
    [_c03_sites, only(scanvm.rule_validator_entry, r'^result\|'), lexeval.rule_digit_ops, progress.rule_loops, progress.rule_recursion, scanvm.rule_scanner_total, sentences.rule_scale_stacks,
     only(textvm.rule_tokenizer, r'^no-panic$'), only(textvm.rule_word_splitter, r'^no-panic$'), only(lexeval.rule_split_closure, r'\|distinct$'), only(dsvm.rule_builder_cases, r'^no-panic$')],
    "B1 the complete inventory of panic-capable sites in the library MIR (Assert terminators + calls to partial callees) with each site discharged "
    "by a dominating guard (difference-constraint prover over branch facts), constant call-site arguments, constant constructor input or a named "
    "instance whose guards are checked; a site the prover cannot discharge is reported only if the bounded case tables of the abstract machine that "
    "cover its function also reach a panic (otherwise it is listed as BOUNDED). V03: the stream entry points on every token script x thresholds "
    "(NaN, inf, negative), text2digits for every answer of the group interpreter (an empty result is an error, never formatted), the tokenizer on all "
    "class strings and the builder on all operation sequences reach no panic site. S03-SCALE-STACKS: replace_numbers_in_text, interpreted end to end in "
    "each real language, on every order of one to three scale words after 1 / 20 / 999 (values beyond 2^64, 30+ digit texts; glued compounds in de/nl/it) "
    "reaches no panic site; the format functions are evaluated on 20-, 26- and 321-digit builders. B2 every loop consumes from an iterator; recursion "
    "inventory = the confirmed bounded set.",
    'Totality as a site inventory (every panic-capable MIR site discharged by the prover, else covered by a panic-free bounded case table) plus loop / '
    'recursion progress.',
    'Trusted: std/daachorse/phf do not panic on valid arguments; allocation failure and stack exhaustion out of scope. BOUNDED discharges are weaker '
    'than prover discharges and are marked as such in the evidence.',
    'static analysis: MIR panic-site inventory + dominator/edge-fact prover, with abstract-machine case tables as bounded fallback; loop/recursion progress',
    'DESIGN.md §10.3, §10.5, §2 B1 B2',
    assumptions=['token iterators supplied by the caller are finite'])
reg('C04', 'other',
    [phrases.rule_ordinal_roundtrip, sentences.rule_ordinals_in_sentences, lexeval.rule_lex_ord, lexical.rule_group_ordinal, lexeval.rule_split_closure, builder.rule_frozen_first,
     only(lexeval.rule_sep_mark, r'\|ordinal-template$')],
    "A0-ORDINALS: the validator path (exec_group, apply, the crate's DigitString, interpreted) turns the standard spelling of the n-th ordinal into "
    "the digits of n with the language's marker and a frozen builder, for every n < 1000 (10 000 thorough) in en, fr, de, nl, it. "
    "A2 every core ordinal form and inflection of the reference lexicon (~750 forms), evaluated through apply, is accepted with the instruction of its "
    "cardinal, receives the expected marker (get_morph_marker and the postlude are evaluated on the form) and freezes the builder where the language "
    "does; A2b the group path (hyphen groups, compounds) carries digits, marker and freeze over; A3 closure of compound ordinal stems (thorough); B4 a "
    "frozen builder refuses every further word; A5 format_and_value, evaluated, renders digits + marker with the value of the digits.",
    'Ordinal mechanism decided by evaluating the interpreter source on ~750 ordinal forms and the formatter on marked builders.',
    'Not decided: the composition for every rank (same limit as C01).', T_LEX, 'DESIGN.md §10.2')
reg('C05', 'other',
    [sentences.rule_decimals_in_sentences, lexeval.rule_dec_table, only(lexeval.rule_sep_mark, r'\|(separator|decimal-template)$'), scanvm.rule_decimal_scanner, only(dsvm.rule_builder_cases, r'^(push-appends|rendering|zeros)$')],
    "A4 apply_decimal evaluated: en/de append each spoken digit with push (zero synonyms alike, anything else refused), the other languages read the "
    "fraction with apply itself; A5 is_decimal_sep is true exactly on the separator word and format_decimal_and_value renders {int}<mark>{frac} with "
    "leading zeros kept and value {int}.{frac}; V05 the scanner on every script over {number words, zero, separator, ordinal, ordinary word}: integer + "
    "separator + fraction is one occurrence formatted from both builders, a separator without number before it, after an ordinal or with nothing usable "
    "after it stays a word; V12 push appends its digits in every builder state. " + MACHINE,
    'Decimal path decided by evaluation of the language functions and by the scanner\'s complete case table over decimal scripts.',
    MACHINE, T_VM + '; ' + T_LEX, 'DESIGN.md §10.2, §10.3')
reg('C06', 'other',
    [scanvm.rule_occurrence_wellformed, sentences.rule_occurrences_in_sentences, only(lexeval.rule_sep_mark, r'\|(decimal-template|ordinal-template)$'), scanvm.rule_decimal_scanner],
    "V06 on every token script: spans inside the stream, strictly increasing, disjoint, begin and end on the first / last word the interpreter accepted "
    "for that number; text and value are the two halves of one formatter result for the words inside the span; the ordinal flag is that of the integer "
    "part. A5 the formatters, evaluated: digits, optional mark + digits, optional marker (es 1/n), value = reading of the digits. " + MACHINE,
    'Occurrence well-formedness decided on the scanner\'s complete case tables plus evaluation of the per-language formatters.',
    MACHINE + ' Float precision of huge values is not examined (the digit text is checked, the value only through the formatter).',
    T_VM, 'DESIGN.md §10.3')
reg('C07', 'other',
    [lexeval.rule_reject_inert, lexeval.rule_group_inert, builder.rule_fail_atomic, scanvm.rule_scanner_validator, scanvm.rule_validator_scanner, sentences.rule_spans_validate, sentences.rule_numbers_after_linking],
    "A8b every lexicon word x builder-state x {apply, apply_decimal}: an accepted word issues exactly one builder operation, a rejected word issues none, "
    "writes no marker, does not freeze; B3 in every &mut self -> Result method of DigitString no write can be followed by an Err exit (a failed operation "
    "changes nothing); V07 the scanner's case table: spans hold accepted / linking words only and end on an accepted word, a word rejected inside a number "
    "is retried on an empty builder, at threshold 0 every number word is covered; exec_group and the scanner interpreted against the same abstract "
    "language agree on every word script (each span validates to its text, each accepted script is one occurrence). S07 in the seven real languages: the "
    "words of every non-decimal span validate to the span's text (incl. groups ending on the conjunction); every vocabulary word and sample phrase after a "
    "free-standing conjunction / linking / separator word is found exactly as without it (a word answered Incomplete on an empty builder leaves nothing "
    "behind). A8d a rejected group leaves the caller's builder untouched. " + MACHINE,
    'Scanner/validator agreement decided as: rejected words are inert (evaluation over the lexicon), builder operations fail without side effect (MIR '
    'reachability), and the two drivers agree on every script of an abstract language (case tables).',
    MACHINE + ' Agreement on the real vocabularies follows only to the extent that they behave like the abstract language classes.',
    T_VM + '; ' + T_LEX + '; MIR write-before-Err reachability', 'DESIGN.md §10.2, §10.3')
reg('C08', 'other',
    [phrases.rule_pairs, sentences.rule_pairs_in_sentences, lexeval.rule_neg_contexts, lexical.rule_block_contexts, lexeval.rule_flags_lifecycle, lexeval.rule_conj, lexeval.rule_zero_arm,
     only(dsvm.rule_builder_cases, r'^(zeros|put-value|put-digit-value)$')],
    "A0-NO-FUSION: for pairs of numbers below 100 (29 x 29 representative values; all 99 x 99 thorough), with and without the conjunction "
    "between them, the validator path accepts the phrase as ONE number only when the words are (a variant of) the standard spelling of a number, "
    "and then with its digits. A7 each unit / teen / tens / scale word, evaluated on the builder states in which the language forbids it (unit after a teen or tens, second "
    "thousand, ordinal stems on a non-empty builder, pt without conjunction), is refused; A7b the flags a word stores block exactly the following words "
    "of the grammar table and no others; A7c flags are stored on success, cleared on failure; A10 the conjunction is Incomplete only inside a number; "
    "A6 zero is a plain put(0); V12 the builder accepts zeros only while the value is zero, keeps them, and refuses occupied positions.",
    'No-fusion guards decided by evaluating apply on the forbidden and allowed contexts of the grammar tables; zero handling by the builder\'s case table.',
    'Not decided: every pair of numbers below 100 in every language (the contexts are the grammar table\'s classes, not all 10^4 pairs).',
    T_LEX + '; ' + T_VM, 'DESIGN.md §10.2, §10.4')
reg('C09', 'other',
    [scanvm.rule_lone_policy, sentences.rule_threshold_in_sentences, sentences.rule_threshold_corpus],
    "V09 on every token script (length <= 4, 5 thorough) over {single-digit word, two-digit word, ordinal, linking word, decimal separator word, ordinary word, comma, period} "
    "and thresholds 0, 1, 10, 21, inf, NaN (+ 2, 100, -1 thorough): the recognised numbers are the same at every threshold; the reported occurrences "
    "are exactly the recognised numbers minus those small (one digit or ordinal, value < t) and isolated (no same-kind number adjacent once non-breakers "
    "are ignored); threshold 0 / NaN report all; what breaks a sequence is tabulated per token class (alphabetic non-linking word, lone period incl. "
    "with Unicode spaces; not commas, digits, ellipses, linking words in any case); scripts in which a separator word ends up outside every number are "
    "counted but not compared (the statement does not say whether it separates). S09: the same policy on generated sentences in the seven languages "
    "at thresholds 0, 3, 10, 100, NaN, incl. a lone digit next to a decimal on either side; S09-THRESHOLD-CORPUS: over the generated corpus "
    "(every kind of number phrase x 11 contexts per language) the occurrences at threshold 10 are a subset of those at 0 and only small numbers are hidden. " + MACHINE,
    'The hold/release policy compared, on the scanner\'s complete case tables, with the policy as the property states it.',
    MACHINE, T_VM, 'DESIGN.md §10.3')
reg('C10', 'other',
    [scanvm.rule_fresh_start, sentences.rule_context_in_sentences, sentences.rule_corpus_context, only(lexeval.rule_neuf_annotate, r'^fr\|multi\|'), only(lexeval.rule_o_annotate, r'^en\|multi\|'), scanner.rule_scratch_hygiene, only(dsvm.rule_builder_cases, r'^reset-is-new$')],
    "V10 on every token script the first word after a finished number is offered to apply on an empty, non-ordinal integer builder in integer mode; "
    "scripts A + [word word word .] + B give the occurrences of A then those of B at thresholds 0, 10, 100; punctuation keeps two numbers apart; "
    "A-NEUF-ANNOTATE / A-O-ANNOTATE: the French and English ambiguity passes, evaluated with the crate's own digit builder on texts with two "
    "ambiguous words, judge each by its own neighbours (a scratch builder left dirty by the first flips the second); B7 typestate "
    "(path-sensitive): the scratch builder of each annotation pass is fresh whenever it is handed to apply; V12 reset() restores the state "
    "of new() (all queries and fields). " + MACHINE,
    'Context independence decided on the scanner\'s case tables (fresh start, A+separator+B) and by a typestate analysis of the scratch builders.',
    MACHINE, T_VM + '; MIR typestate dataflow', 'DESIGN.md §10.3, §10.5')
reg('C11', 'other',
    [sentences.rule_linking_case, scanvm.rule_case_scanner, only(scanvm.rule_validator_entry, r'^words\|(case|plain)\|'), sentences.rule_case_in_sentences, sentences.rule_corpus_case],
    "S11 sentences with numbers and with the language's own linking words, in lower, UPPER and Capitalised form, give the same numbers in each real "
    "language at thresholds 0 and 10; V11 the scanner's case table is unchanged when every token text is upper-cased "
    "(lowercase form kept); text2digits hands the lower-cased words to the group interpreter.",
    'Case-insensitivity decided by the scanner case table under upper-casing and by re-cased sentences in the seven real languages.',
    'Unicode special casing (ß, İ) is whatever str::to_lowercase does.', T_VM, 'DESIGN.md §10.2, §10.3')
reg('C12', 'other',
    [dsvm.rule_builder_cases, builder.rule_fail_atomic, builder.rule_frozen_first, _c12_sites],
    "V12 every sequence of public building operations (35 operation instances x depth 2, 12 x depth 4; deeper in thorough) interpreted from the MIR of "
    "the methods, all public queries evaluated after each step: rendering = ASCII digits of the reported length; an Err step changes no query result and "
    "no field; a successful step keeps placed non-zero digits in order; put adds its digits into free positions or fails; put_digit_at adds d x 10^p; "
    "shift(p) multiplies the rightmost p-digit group or an implicit 1 by 10^p; push appends; frozen refuses every mutator; zeros only while the value is "
    "zero; reset = new; no panic. For all inputs (not bounded): B3 no write before a possible Err exit, B4 the frozen test dominates every write, B1 "
    "every panic site of the public methods discharged for symbolic arguments (or BOUNDED).",
    'Builder clauses decided by a bounded exhaustive case table of operation sequences (value semantics included) and, for all inputs, by MIR '
    'reachability / dominance rules for failure atomicity, frozen-first and panic freedom.',
    'The value clauses (place / shift arithmetic, digits kept) are bounded: sequences up to the stated depth over the argument alphabet.',
    T_VM + '; MIR write-before-Err reachability, guard dominance, panic-site prover', 'DESIGN.md §10.4, §2 B1 B3 B4')
reg('C13', 'proof',
    [facadevm.rule_delegation_vm, facadevm.rule_constructors_vm, facadevm.rule_iso_vm, facade.rule_no_downcast],
    "Decides the whole statement. C-DELEGATION: every trait method a concrete interpreter defines is defined by the facade, and for each (method, "
    "variant) the facade's MIR, interpreted with opaque arguments, makes exactly one call — the same-named method of that variant's interpreter with its "
    "own arguments in order — and returns its result unchanged (56 obligations). C-CTOR: Language::x() is variant X holding <X as Default>::default(); "
    "X::new() is the same value. C-ISO: get_interpreter_for interpreted with a symbolic code that supports only comparison with literals: the complete "
    "case table (each literal + a string equal to none) maps the seven codes to their languages and everything else to None. C-NO-DOWNCAST. Since every "
    "API function is generic over L: LangInterpreter and reaches the language only through trait methods, facade and concrete type perform identical calls.",
    'Proof by complete case analysis: 56 (method, variant) delegation obligations, 14 constructor obligations and the complete case table of the code '
    'function, each obtained by interpreting the function\'s MIR with opaque / symbolic arguments. If a future tree looks the code up by anything other '
    'than equality with literals (ordering, hashing), the ISO clause is decided on a bounded set of concrete strings instead and its verdicts are prefixed BOUNDED.',
    'Trusted: rustc name resolution and MIR, the abstract machine, the frozen ISO 639-1 table. Closed world: user-written interpreters are outside the claim.',
    'static analysis: abstract interpretation of the facade\'s MIR with opaque arguments (complete case table per method x variant) + inventory rules',
    'DESIGN.md §10.6', trusted=['ISO 639-1 table frozen in rules/facade.py'])
reg('C14', 'proof',
    [stateless.rule_types, stateless.rule_statics, stateless.rule_effects],
    "Decides the whole statement modulo dependencies. (i) the seven interpreters and Language are Freeze, Send and Sync according to rustc's trait "
    "solver; every LangInterpreter method takes &self; (ii) no static mut, no interior-mutable or thread-local static, no user-written unsafe; (iii) "
    "the complete callee inventory of the library MIR contains no effectful callee (std::io incl. _print/_eprint, fs, env, time, process, net, thread, "
    "sync, cell, rand, raw pointers, FFI) and no indirect or unclassified call.",
    'Proof modulo dependencies: trait-solver obligations, static/unsafe inventory and a complete effect inventory of the library MIR.',
    'Trusted: std, phf, daachorse, bitflags keep no hidden global state and do not print on the calls made; the callee classification table.',
    'static analysis: trait-solver obligations (Freeze/Send/Sync) + whole-crate MIR effect inventory + static/unsafe inventory', 'DESIGN.md §2 Family C',
    trusted=['std / phf / daachorse / bitflags bodies keep no hidden global state and do not print on the calls made'])
reg('C15', 'other',
    [scanvm.rule_lazy_batch, scanvm.rule_token_hints],
    "V15 on every token script (15 token classes incl. hinted ones, length <= 3, 4 thorough; thresholds 10 and 0) find_numbers_iter — constructed, then "
    "Iterator::next interpreted call by call on the same object — yields exactly the occurrences of find_numbers, in order, then None (and None again); "
    "nothing is read before the first next() (also for NaN / inf / negative thresholds); when it returns a number it has not read beyond the end of the "
    "second number after it (scripts up to length 5-6 over a small alphabet). A token flagged not-a-number-part is never handed to the interpreter and "
    "never inside an occurrence; a token flagged separated is never in the same occurrence as its predecessor and the result equals that of the script "
    "with a comma token inserted. " + MACHINE,
    'Lazy/batch agreement, bounded look-ahead and both token hints decided on complete case tables of the two drivers over all token scripts.',
    MACHINE, T_VM, 'DESIGN.md §10.3')
reg('C16', 'other',
    [phrases.rule_zeros_phrases, sentences.rule_zeros_in_sentences, lexeval.rule_zero_arm, lexical.rule_zero_invariance, only(dsvm.rule_builder_cases, r'^(zeros|rendering|emptiness)$')],
    "A0-LEADING-ZEROS: k = 1..3 zeros followed by the spelling of n validate to k zeros + digits of n (20 values of n up to 2 000 000, seven "
    "languages), a zero after a number is refused, a lone zero is 0. A6 the zero words issue put(0) whatever the builder holds; A9b for every core cardinal word, scale-word context and group path, apply evaluated on a "
    "builder with 1, 3, 6 leading zeros decides and instructs exactly as with none; V12 the builder counts a zero only while the value is zero, keeps the "
    "zeros in rendering / length / emptiness, refuses a zero after a non-zero digit.",
    'Leading zeros decided by evaluation (zeros never change how the next word is read) and by the builder\'s case table (zeros kept, never appended).',
    'Not decided: the scanner-level split of "n zero" for every language (covered for the abstract language by C07/C15 tables).',
    T_LEX + '; ' + T_VM, 'DESIGN.md §10.2, §10.4')
reg('C17', 'other',
    [textflow.rule_ws_api, textvm.rule_tokenizer, scanvm.rule_ws_scanner, only(scanvm.rule_validator_entry, r'^words\|(ws|plain)\|'), sentences.rule_ws_in_sentences, sentences.rule_ws_context_sentences, sentences.rule_corpus_whitespace],
    "B10 no ASCII-only whitespace facility anywhere in the library (call and fn-item inventory); V02-TOKENIZER separators are maximal non-alphanumeric "
    "runs for every class string incl. 2- and 3-byte spaces; V17 the scanner's case table is unchanged when whitespace tokens are replaced by other "
    "Unicode whitespace, when whitespace tokens are added at either end, and when the whitespace glued to punctuation tokens changes; text2digits splits "
    "on Unicode whitespace (NBSP, thin, ideographic space) and ignores leading / trailing whitespace. S17: generated sentences re-spaced (tabs, newlines, "
    "NBSP, leading / trailing runs) give the same numbers; S17-WS-AMBIGUOUS-WORDS: the sentences with English 'o' / French 'neuf', whose reading is decided "
    "by a pass over token positions, are read the same under leading / trailing whitespace and wider inner runs.",
    'Whitespace-insensitivity decided by an API inventory plus case tables of tokenizer, scanner and validator entry under whitespace substitution.',
    MACHINE, 'static analysis: callee inventory; ' + T_VM, 'DESIGN.md §10.3')
reg('C18', 'other',
    [sentences.rule_o_in_sentences, lexeval.rule_o_annotate, lexeval.rule_zero_arm, lexeval.rule_dec_table, scanner.rule_scratch_hygiene,
     only(scanvm.rule_token_hints, r'^nan\|')],
    "A-O-ANNOTATE English::basic_annotate evaluated on a table of neighbour combinations (number word / ordinary word / punctuation / text boundary, any "
    "Unicode whitespace between): 'o' is marked exactly when neither nearest non-whitespace token is a number word, nothing else is ever marked, 'o' "
    "behaves as 'zero' in apply and apply_decimal; B7 the scratch builder is fresh at each apply; V15 marked tokens are skipped by the scanner.",
    'The neighbour test decided by evaluating the annotation pass on a table of neighbour classes; the skip by the scanner\'s case table.',
    'The neighbour table lists classes of neighbours, not every English word.', T_LEX + '; ' + T_VM, 'DESIGN.md §10.2')
