"""Property registry: which rules decide which property, and the text that goes to the evidence."""
from .rules import facade, stateless, facadevm

TRUST_COMMON = [
    'rustc nightly 1.97 front end (name resolution, type check, MIR construction) — the facts',
    'the fact serialiser /verif/driver (no judgement, prints what rustc resolved)',
    'the Python rule engine /verif/analysis',
]

ASSUME_COMMON = [
    'closed world: LangInterpreter / Token / Replace / BasicAnnotate impls written by users are outside the claim',
    'library target only (cfg(test) modules and doctests are not analysed)',
    'dependencies (std, phf, daachorse, bitflags) are trusted by signature, not analysed',
]


class Prop:
    def __init__(self, pid, level, rules, explanation, assumptions=(), trusted=()):
        self.pid = pid
        self.level = level
        self.rules = rules
        self.explanation = explanation
        self.assumptions = list(assumptions) + ASSUME_COMMON
        self.trusted = list(trusted) + TRUST_COMMON


PROPS = {}


def reg(p):
    PROPS[p.pid] = p


reg(Prop('C13', 'proof',
         [facade.rule_delegation, facade.rule_constructors, facadevm.rule_iso_vm, facade.rule_no_downcast],
         'Decides the whole statement structurally. C-DELEGATION: every trait method that any concrete interpreter '
         'defines is defined by `impl LangInterpreter for Language` as `match self` with exactly one arm per variant, '
         'each arm calling the same-named trait method on the bound payload (resolved by rustc to that payload type\'s '
         'impl) with the facade\'s own parameters in order and returning the result unchanged. C-CTOR: Language::x() '
         'wraps <X as Default>::default() in variant X and X::new() is the same default. C-ISO: the code table maps '
         'de,en,es,fr,it,nl,pt to exactly those constructors, nothing else resolves, the parameter is matched '
         'unnormalised, the default arm is None. C-NO-DOWNCAST: no type-identity dispatch. Since every API function is '
         'generic over L: LangInterpreter and reaches the language only through trait methods, the facade and the '
         'concrete type perform identical calls for every input.',
         trusted=['ISO 639-1 table frozen in rules/facade.py']))

reg(Prop('C14', 'proof',
         [stateless.rule_types, stateless.rule_statics, stateless.rule_effects],
         'Decides the whole statement modulo dependencies. (i) the seven interpreters and Language are Freeze, Send and '
         'Sync according to rustc\'s trait solver; every LangInterpreter method takes &self, so no call can modify the '
         'interpreter; (ii) no static mut, no interior-mutable or thread-local static, no user-written unsafe; (iii) the '
         'complete callee inventory of the library MIR contains no effectful callee (std::io incl. _print/_eprint used '
         'by print!/dbg!, fs, env, time, process, net, thread, sync, cell, rand, raw pointers, FFI) and no indirect or '
         'unclassified call. With no mutable state reachable and no effect, each result is a function of the call\'s '
         'arguments; with Send+Sync interpreters may be shared across threads.',
         trusted=['std / phf / daachorse / bitflags bodies keep no hidden global state and do not print on the calls made']))


# ---------------------------------------------------------------------------------------
# texts for MANIFEST.json (tools/gen_manifest.py)

MANIFEST_TEXT = {}
NOT_APPLICABLE = {}


def mtext(pid, text, note, technique, design_ref):
    MANIFEST_TEXT[pid] = {'text': text, 'note': note, 'technique': technique, 'design_ref': design_ref}


mtext('C13',
      'Proof by exhaustive structural obligations: the statement reduces completely to facts visible in the code '
      '(verbatim delegation per method and variant, constructor/variant/payload agreement, the code table). 56 delegation + '
      '14 constructor + 7 code obligations + default arm + no-normalisation + no-downcast are each checked on rustc\'s '
      'resolved HIR; all must be discharged.',
      'Trusted: rustc name resolution/type check (facts), the fact serialiser, the Python rules, the frozen ISO 639-1 table. '
      'Closed world: user-written interpreters are outside the claim.',
      'static analysis: HIR shape/obligation check of the delegate match arms and the ISO table on type-resolved callees',
      'DESIGN.md §2 Family C, §4 C13')
mtext('C14',
      'Proof modulo dependencies: Freeze/Send/Sync obligations answered by rustc\'s trait solver for the seven interpreters '
      'and Language, &self receivers, absence of mutable/interior-mutable/thread-local statics and of user unsafe, and a '
      'complete effect inventory (every call site of the library MIR classified; no effectful, indirect or unclassified callee).',
      'Trusted: std, phf, daachorse, bitflags keep no hidden global state and do not print on the calls made (their bodies are '
      'outside the crate\'s MIR); the trait solver\'s answers; the callee classification table in analysis/t2n/callees.py.',
      'static analysis: trait-solver obligations (Freeze/Send/Sync) + whole-crate MIR effect inventory + static/unsafe inventory',
      'DESIGN.md §2 Family C, §4 C14')

from .rules import builder, dsvm  # noqa: E402

reg(Prop('C12', 'other',
         [dsvm.rule_builder_cases, builder.rule_fail_atomic, builder.rule_frozen_first],
         'Decides structural clauses of the digit builder on its MIR, for symbolic arguments (public API): B3 no write through '
         'self can be followed by an Err exit in put/put_digit_at/push/fput/shift (failed operations change nothing; one named '
         'exception, the implicit-one push of shift, with its premises checked); B4 every mutator tests self.frozen on an edge '
         'dominating every write and returns Err(Frozen); B5 overwrites are dominated by the free-slot test of the same range / '
         'position, zeros are counted only on an empty buffer for the digit "0", all-zero input is refused, who-writes '
         'leading_zeroes/frozen; B6 reset covers all fields, len/is_empty/to_string read buffer and leading_zeroes; B1 every '
         'panic-capable site of the DigitString methods is discharged without assuming anything about callers (difference-'
         'constraint prover over dominating branch facts, or a named instance whose guards are checked to dominate). '
         'Does NOT decide the arithmetic meaning of put/shift (value after each step, "no digit lost"): that is a functional-'
         'correctness statement about byte arrays, outside static analysis.',
         assumptions=['arguments are ASCII digits and positions < 2^31 (stated bound of the property)']))

from .rules import panics, progress  # noqa: E402


def _c03_sites(ctx, rep):
    panics.rule_panic_sites(ctx, rep, 'C03')


def _c03_premises(ctx, rep):
    """Premises the named (D6) instances of NumTracker::replace / number_advanced rely on: spans are enumerate
    indices, closed after each number, emitted once and in stream order."""
    from .rules import scanvm
    scanvm.rule_scanner_total(ctx, rep)
    scanvm.rule_occurrence_wellformed(ctx, rep)
    scanvm.rule_replace_tokenwise(ctx, rep)


def _c12_sites(ctx, rep):
    panics.rule_panic_sites(ctx, rep, 'C12')


reg(Prop('C03', 'other', [_c03_sites, panics.rule_nonempty_format, panics.rule_digit_args, progress.rule_loops, progress.rule_recursion, _c03_premises],
         'Decides totality structurally: B1 the complete inventory of panic-capable sites in the library MIR (Assert terminators '
         '+ calls to partial callees such as unwrap, index, copy_from_slice, drain) with each site discharged by D1 a dominating '
         'guard (difference-constraint prover over branch facts), D3 constant arguments at every in-crate call site, D4 non-empty '
         'dominance for the float parse in format_and_value, D5 constant constructor input, or D6 a named instance whose guards '
         'are checked to dominate; B2 every natural loop consumes from an iterator on every cycle and the recursion inventory '
         'equals the confirmed bounded set (apply/exec_group over strictly shorter pieces; WordSplitIterator::next depth <= 2). '
         'Thresholds need no rule: f64 comparison is total. Out of scope: panics inside std/daachorse/phf on valid arguments, '
         'allocation failure, stack exhaustion on adversarially long words.',
         assumptions=['token iterators supplied by the caller are finite', 'callee partiality table analysis/t2n/callees.py is complete for the callees used']))
PROPS['C12'].rules.append(_c12_sites)

mtext('C03',
      'Static totality argument over code sites, not inputs: every panic-capable site reachable in the library MIR is enumerated '
      '(100 on this tree) and discharged by a dominance-based rule or a named, guard-checked instance; loops and recursion are '
      'shown to make progress. This is close to the whole statement modulo the trusted base; it is `other` rather than `proof` '
      'because 44 D6 instances rest on one-line hand arguments (their premises are machine-checked, the arithmetic is not).',
      'Trusted: std/daachorse/phf do not panic on valid arguments; the partial-callee table; the D6 table tables/panic_sites.json '
      '(each entry: guards checked mechanically, argument by hand); allocation failure and stack exhaustion out of scope.',
      'static analysis: MIR panic-site inventory + dominator/edge-fact difference-constraint prover + call-site constant and non-empty dominance rules + loop/recursion progress',
      'DESIGN.md §2 B1 B2, §4 C03')
mtext('C12',
      'Structural clauses of the builder decided on MIR for symbolic arguments: failure atomicity (no write before a possible Err), '
      'frozen-first, guarded overwrites and zero counting, field coverage of reset/len/is_empty/to_string, and panic-freedom of every '
      'public method. Each is a necessary condition of the property; the arithmetic meaning of place/shift is not decided.',
      'Not decided: value semantics of put/shift ("multiplies the rightmost group by 10^p", "keeps every non-zero digit"). Assumes ASCII-digit '
      'arguments and positions < 2^31.',
      'static analysis: MIR mutation/dominance analysis (write-before-Err reachability, guard dominance, who-writes) + panic-site prover',
      'DESIGN.md §2 B1 B3 B4 B5 B6, §4 C12')

from .rules import scanner, scanvm, textvm  # noqa: E402


def _arm_atomic(ctx, rep):  # A8b, evaluation based
    from .rules import lexeval
    lexeval.rule_reject_inert(ctx, rep)


def _policy_table(ctx, rep):
    from .rules import policy
    policy.rule_policy_table(ctx, rep)


def _sep_mark(ctx, rep):
    from .rules import lexeval
    lexeval.rule_sep_mark(ctx, rep)

reg(Prop('C15', 'other', [scanvm.rule_lazy_batch, scanvm.rule_token_hints],
         "Decides the driver structure of the token-stream contract on MIR: B14-SCANNER (FindNumbers::push) — \"-\" and whitespace tokens return before any state is touched; a not_a_number_part token can reach neither parser.push nor number_advanced, ends the number in progress and still updates `previous`; the word presented to the parser is the token's lowercase text or the constant \",\", the latter exactly under has_number() && nt_separated(previous); number_advanced is reachable only from Ok edges with the unmodified enumerate position; Err(Incomplete) neither advances, ends nor breaks; reject -> number_end -> retry with the token's own text; `previous` updated on every other path. B14-ITERATOR — lazy and batch drivers call the same push/finalize with the same arguments, the iterator tests has_matches() before reading and after every single token and returns pop() when true, finalizes on exhaustion, nothing is read by the constructor, the stream is read only by Iterator::next and track_numbers, both drain FIFO (pop_front / into over a push_back-only queue). Does NOT decide equality of the two result sequences for all streams nor the exact look-ahead bound (run-time quantities of the hold/release automaton)."))
reg(Prop('C06', 'other', [scanvm.rule_occurrence_wellformed, _sep_mark, scanvm.rule_decimal_scanner],
         "Decides the construction discipline of occurrences: B13 — Occurence is built at exactly one site with start/end copied from match_start/match_end and text/value/is_ordinal from the parameters; FindNumbers::number_end reads parser.is_ordinal() before string_and_value() (which resets) and passes the two components of that one result; number_advanced sets match_end = pos + 1 on every path and match_start only for an empty span; number_end closes the span on every path; FindNumbers::new is private and both callers pass input.enumerate(). B7-DECIMAL-ENTRY — decimal mode is entered only for a rejected word, not already decimal, non-empty non-ordinal integer part, separator word, and returns Incomplete (decimal xor ordinal). B7-RESET-MUST — the decimal formatter runs iff is_dec && !dec_part.is_empty(), with (int_part, dec_part). From these checked facts spans are increasing, disjoint, in-stream and begin/end on accepted word tokens (hand argument: match_start <= pos < match_end, match_start := match_end after each number). Does NOT decide value = read(text) numerically (std float parsing) nor numeral shape of the formatted text (see C04/C05 template rules)."))
reg(Prop('C10', 'other', [scanvm.rule_fresh_start, scanner.rule_scratch_hygiene, dsvm.rule_builder_cases],
         "Decides the absence of the carriers of cross-talk: B7-RESET-MUST (every path through string_and_value resets the parser after formatting), B6 (DigitString::reset covers all five fields; WordToDigitParser::reset covers all fields but lang), B7-SCRATCH-HYGIENE (typestate over the annotation passes: a scratch builder is Fresh whenever handed to apply, Dirty on a success edge until reset — the breach behind `du 109` vs `du 100 neuf`). Together with C09's B16 (a breaker forgets the last kind; on_hold is overwritten or taken on every path of number_end) nothing said several words earlier can reach a later number. Does NOT decide rewrite(A S B) = rewrite(A) S rewrite(B) itself, a relational property over pairs of runs."))
reg(Prop('C07', 'other', [scanner.rule_shared_interpreter, _arm_atomic, builder.rule_fail_atomic, scanvm.rule_scanner_validator],
         "Decides the mechanisms behind scanner/validator agreement: B15 (one interpreter, two drivers: apply is called only from exec_group, WordToDigitParser::push, the facade, the apply_decimal forwarders and the annotation passes; text2digits = exec_group over the lowercased, whitespace-split text + format_and_value), B3 (a rejected builder operation leaves no digits behind — the breach behind '1000000001 1000000000'), B14-SCANNER (reject -> number_end -> retry on the reset parser with the token's own text; Incomplete never advances a span so no span ends on a dangling conjunction), B7-RESET-MUST (the parser is reset by string_and_value before the retry). Does NOT decide the converse direction (every validated phrase is scanned as one number) nor threshold-0 completeness: both compare two run-time traversals of the word table."))

from .rules import textflow  # noqa: E402

reg(Prop('C11', 'other', [textflow.rule_case_flow, scanner.rule_shared_interpreter, scanvm.rule_case_scanner],
         "Decides B9 CASE-FLOW: at every vocabulary-lookup call site of the scanner, parser and annotation passes (apply, apply_decimal, is_linking, is_decimal_sep, get_morph_marker, WordToDigitParser::push) the word argument derives from text_lowercase()/to_lowercase(), a constant, or a parameter whose callers are checked; raw Token::text() flows only into case-blind uses (== \"-\", whitespace / alphabetic classification, trim() != \".\"); vocabulary literals in the annotation passes are compared with lowercase text; BasicToken.lowercase is only ever built from to_lowercase() and text_lowercase returns it; the validator lowercases the phrase before exec_group. Does NOT decide Unicode case-mapping corner cases nor user Token impls returning non-lowercase text."))
reg(Prop('C17', 'other', [textflow.rule_ws_api, textvm.rule_tokenizer, scanvm.rule_ws_scanner],
         "Decides B10 WS-API (no ASCII-only whitespace facility — is_ascii_whitespace, split_ascii_whitespace, trim_ascii, split/trim on a single whitespace character literal, as call or as function item — anywhere in the library; the four classification sites resolve to the Unicode predicates) and B11 TOKENIZER-TILING (separator tokens are maximal non-alphanumeric runs, so any whitespace run stays inside one separator token, is skipped whole by the scanner's is_whitespace and is passed through verbatim). Does NOT decide invariance for mixed whitespace+punctuation separators in every context."))
reg(Prop('C02', 'other', [textvm.rule_tokenizer, textvm.rule_text_rewrite, scanvm.rule_replace_tokenwise],
         "Decides the three mechanisms of locality: B11 (match_word/match_sep return the position of the un-consumed peeked character or source.len(), Tokenize::next slices source[pos..end] unmodified and BasicToken stores it verbatim: tokens tile the input), B12 (occurrence spans are replaced by drain(start..end) + insert(start) in reverse order on the same vector, the drained tokens and the text go to Replace::replace unchanged; replace_numbers_in_stream scans input.iter() and replaces in that same input; replace_numbers_in_text is tokenize -> basic_annotate -> replace_numbers_in_stream -> join(\"\"); annotation passes only read the vector and mark through set_nan), B13 (spans come from enumerate indices). Does NOT decide equality replace_text(s,t) = splice(tokens, find_numbers(..)) as a whole for arbitrary UTF-8 (needs span correctness for all streams)."))

from .rules import policy  # noqa: E402

reg(Prop('C09', 'other', [scanvm.rule_lone_policy],
         "Decides: B8 — the threshold field is never written after construction and read exactly once, as the right operand of a strict `value < threshold` conjoined with (one digit || ordinal) (the constant-false branch is taken exactly when neither); the flag is only passed to NumTracker::number_end where it is branched on once: true can only hold a number, false can only emit it — hence recognition is independent of the threshold, rewriting is monotone in it and t <= 0 or NaN rewrites everything (values are parses of digit strings, >= 0). B16 — the loop-free hold/release function is evaluated on all 24 finite-domain cases (last kind x held x ordinal x small) by an abstract interpreter over its MIR and compared with the table the statement prescribes; sequence_breaker only forgets the last kind. B8-BREAKER — the 8-row truth table of outside_number's condition over its three atoms (no alphabetic char, not a lone period, linking word). Does NOT decide the iff-characterisation of `isolated` over whole token streams (iterating the checked per-step table over unbounded streams is model checking)."))

mtext('C15',
      'Decides named structural clauses (necessary conditions) of the property from the type-resolved MIR of the current tree; see the evidence explanation for the clause list. Level `other`: the compositional behaviour over all inputs is not decided.',
      'Undecided clauses are listed at the end of the explanation in the evidence file and in DESIGN.md §4. Trusted: rustc facts, the rule engine, std/daachorse/phf by signature; closed world (user trait impls outside the claim).',
      'static analysis: MIR path/dominance rules on FindNumbers::push, Iterator::next and track_numbers (must-pass-through, reachability between resolved call sites, edge facts)',
      'DESIGN.md §2 B14, §4 C15')

mtext('C06',
      'Decides named structural clauses (necessary conditions) of the property from the type-resolved MIR of the current tree; see the evidence explanation for the clause list. Level `other`: the compositional behaviour over all inputs is not decided.',
      'Undecided clauses are listed at the end of the explanation in the evidence file and in DESIGN.md §4. Trusted: rustc facts, the rule engine, std/daachorse/phf by signature; closed world (user trait impls outside the claim).',
      'static analysis: MIR provenance rules: single construction site, field provenance by value descriptors, dominance ordering of is_ordinal before string_and_value, guard dominance of decimal-mode entry',
      'DESIGN.md §2 B13 B7, §4 C06')

mtext('C10',
      'Decides named structural clauses (necessary conditions) of the property from the type-resolved MIR of the current tree; see the evidence explanation for the clause list. Level `other`: the compositional behaviour over all inputs is not decided.',
      'Undecided clauses are listed at the end of the explanation in the evidence file and in DESIGN.md §4. Trusted: rustc facts, the rule engine, std/daachorse/phf by signature; closed world (user trait impls outside the claim).',
      'static analysis: MIR must-pass-through (reset), field-coverage inventory, typestate dataflow over scratch builders of the annotation passes',
      'DESIGN.md §2 B6 B7, §4 C10')

mtext('C07',
      'Decides named structural clauses (necessary conditions) of the property from the type-resolved MIR of the current tree; see the evidence explanation for the clause list. Level `other`: the compositional behaviour over all inputs is not decided.',
      'Undecided clauses are listed at the end of the explanation in the evidence file and in DESIGN.md §4. Trusted: rustc facts, the rule engine, std/daachorse/phf by signature; closed world (user trait impls outside the claim).',
      'static analysis: who-may-call inventory of apply + write-before-Err reachability in DigitString + MIR ordering rules of the scanner',
      'DESIGN.md §2 B15 B3 B14, §4 C07')

mtext('C11',
      'Decides named structural clauses (necessary conditions) of the property from the type-resolved MIR of the current tree; see the evidence explanation for the clause list. Level `other`: the compositional behaviour over all inputs is not decided.',
      'Undecided clauses are listed at the end of the explanation in the evidence file and in DESIGN.md §4. Trusted: rustc facts, the rule engine, std/daachorse/phf by signature; closed world (user trait impls outside the claim).',
      'static analysis: value-descriptor flow check (taint by provenance) from Token::text()/to_lowercase() to vocabulary-lookup call sites',
      'DESIGN.md §2 B9, §4 C11')

mtext('C17',
      'Decides named structural clauses (necessary conditions) of the property from the type-resolved MIR of the current tree; see the evidence explanation for the clause list. Level `other`: the compositional behaviour over all inputs is not decided.',
      'Undecided clauses are listed at the end of the explanation in the evidence file and in DESIGN.md §4. Trusted: rustc facts, the rule engine, std/daachorse/phf by signature; closed world (user trait impls outside the claim).',
      'static analysis: callee/function-item inventory against banned ASCII-whitespace facilities + tokenizer shape rules',
      'DESIGN.md §2 B10 B11, §4 C17')

mtext('C02',
      'Decides named structural clauses (necessary conditions) of the property from the type-resolved MIR of the current tree; see the evidence explanation for the clause list. Level `other`: the compositional behaviour over all inputs is not decided.',
      'Undecided clauses are listed at the end of the explanation in the evidence file and in DESIGN.md §4. Trusted: rustc facts, the rule engine, std/daachorse/phf by signature; closed world (user trait impls outside the claim).',
      'static analysis: MIR shape/provenance rules on the tokenizer, NumTracker::replace and the rewrite pipeline; mutation inventory of the annotation passes',
      'DESIGN.md §2 B11 B12 B13, §4 C02')

mtext('C09',
      'Decides named structural clauses (necessary conditions) of the property from the type-resolved MIR of the current tree; see the evidence explanation for the clause list. Level `other`: the compositional behaviour over all inputs is not decided.',
      'Undecided clauses are listed at the end of the explanation in the evidence file and in DESIGN.md §4. Trusted: rustc facts, the rule engine, std/daachorse/phf by signature; closed world (user trait impls outside the claim).',
      'static analysis: field read/write inventory + guard facts for the threshold; finite-domain abstract interpretation of NumTracker::number_end (24 cases) and of the breaker condition (8 rows)',
      'DESIGN.md §2 B8 B16, §4 C09')

from .rules import lexical, lexeval  # noqa: E402

reg(Prop('C01', 'other', [lexeval.rule_lex_card, lexical.rule_scale_contexts, lexical.rule_compose_contexts, lexeval.rule_split_closure, lexeval.rule_zero_arm, lexeval.rule_conj, lexeval.rule_neg_contexts],
         "Decides the lexical mechanism of the cardinal round-trip: A1 — every core cardinal form of the frozen reference lexicon (7 languages, ~330 forms incl. plural/inflected scale words, regional tens, national variants) selects, through partial evaluation of the language's lemmatizer source, an arm of the word table whose placing leaves are exactly the instruction its class prescribes for its value (put of its digits; de/nl tens put_digit_at(d,1); lexical hundreds put d00; hundred/thousand/million/milliard shift 2/3/6/9; it mille put 1000; fr vigesimal triples with the 60/80/4 predecessor tests), and apply(word) evaluated on an abstract fresh builder returns Ok with that one instruction; A3 — splitter patterns and arm keys agree (every pattern has an arm, every compounding word is a pattern, patterns non-empty and distinct) and every piece of every generated compound spelling (de/it/nl, n <= 999 quick, <= 9999 thorough) selects an arm; A6 zero arms; A7 scale-word guards (3,5)/(6,8) and the unit/tens separation guards. Does NOT decide that the composition of correct instructions yields decimal(n) for every n < 10^12 and context, nor 'never split in two': that depends on run-time buffer contents."))
reg(Prop('C04', 'other', [lexeval.rule_lex_ord, lexical.rule_group_ordinal, lexeval.rule_split_closure, builder.rule_frozen_first, lexeval.rule_sep_mark],
         "Decides the lexical mechanism of the ordinal round-trip: A2 — every core ordinal form and inflection of the reference lexicon (~750 forms) selects an arm whose placing leaves equal those of the cardinal of its rank; apply(form) evaluated on an abstract fresh builder (es 'segundo' after an ordinal) returns Ok, sets marker = Ordinal(<expected marker for that inflection>) — which evaluates the source of get_morph_marker and of the postlude on the form — and freezes the builder where the language does so; A3 closure for compound stems; B4 a frozen builder refuses every further word; A5 format_and_value renders digits followed by the marker. Does NOT decide the composition for every rank up to 10^6 (same reason as C01)."))
reg(Prop('C05', 'other', [lexeval.rule_dec_table, lexeval.rule_sep_mark, scanvm.rule_decimal_scanner, dsvm.rule_builder_cases],
         "Decides: A4 (en/de decimal tables map each digit word to push(b\"d\"), zero synonyms share an arm, default NaN; fr/es/pt/it/nl apply_decimal forwards to apply verbatim), A5 (is_decimal_sep evaluates to true exactly on the separator word; the text template is {int}<mark>{dec} with mark '.' for English and ',' otherwise, filled with int.to_string(), dec.to_string() in that order; the value is the parse of {int}.{dec} of the same strings), B7-DECIMAL-ENTRY (decimal mode entered only for a rejected word, not already decimal, non-empty non-ordinal integer part, separator word; returns Incomplete — a separator with no number before it stays a word), B7-RESET-MUST (decimal formatter iff is_dec && !dec_part.is_empty(), otherwise the integer: nothing usable after the separator falls back to the integer; parser reset on every path), B6. Does NOT decide that arbitrary integer x fraction shapes round-trip (the fractional grammar of five languages goes through apply, i.e. C01's composition)."))
reg(Prop('C08', 'other', [lexeval.rule_neg_contexts, lexical.rule_block_contexts, lexeval.rule_flags_lifecycle, lexeval.rule_conj, lexeval.rule_zero_arm, dsvm.rule_builder_cases],
         "Decides A7 GUARD-ATOMS: every arm of each sibling class carries the class guard and side assignments that keep adjacent numbers apart (en units peek(2) != 10; es additionally != 20; pt units/teens/tens !smaller_blocked, hundreds !only_multipliers with the flag definitions and three-way flag update; it units peek(2) != 10, un*/otto* is_free(2), ordinal stems is_empty; de/nl units is_free(2) + to_block = TENS, tens !blocked(TENS); fr un..six guarded by their own Excludable bit, dix sets UN_SIX, tens set UN; thousand is_range_free(3,5), million (6,8); success stores / failure clears the flags), A10 (the conjunction is only ever Err(Incomplete) under the class guard), A6 (zero arms), B5 (overlap refusal and zero-only-while-empty inside the builder). Does NOT decide the 10^4-pair outcome table per language nor the grouping of dictated digit strings (needs execution of the guards on concrete buffers)."))
reg(Prop('C16', 'other', [lexeval.rule_zero_arm, lexical.rule_zero_invariance, dsvm.rule_builder_cases],
         "Decides: A6 (zero words select an unguarded put(b\"0\"), synonyms share the arm), B5 (a zero is accepted only on an empty buffer and counted; all-zero input refused otherwise), B6 (len/is_empty/to_string include the zero count, is_null does not; reset clears it), A9 (no guard or arm condition tests DigitString::len() for equality with a constant — the zero-sensitive single-digit test behind the rejected 'zero un milione'). Does NOT decide convert(zero^k spell(n)) = 0^k decimal(n) for all n (C01's composition)."))

reg(Prop('C18', 'other', [lexeval.rule_o_annotate, lexeval.rule_zero_arm, lexeval.rule_dec_table, scanner.rule_scratch_hygiene, scanvm.rule_token_hints],
         "Decides: 'o' is a pattern of the very arm of 'zero' in apply and apply_decimal (treated exactly like zero); English::basic_annotate has the shape: candidate = tokens[i] with lowercase text \"o\"; it is marked not-a-number (the only set_nan in the pass) exactly in the else-branch of `(j > 0 && apply(tokens[S[j-1]]).is_ok()) || (j+1 < S.len() && apply(tokens[S[j+1]]).is_ok())` where S = indices of tokens that are not whitespace-only (Unicode predicate; punctuation counts as neighbour) and j enumerates S; the scratch builder is fresh at each apply (B7-SCRATCH-HYGIENE) and marked tokens never enter an occurrence (B14 S2). Does NOT decide the full neighbour-combination table, in particular neighbours that apply accepts only in some builder states."))

mtext('C01',
      "Decides named structural clauses (necessary conditions) of the property from the type-resolved HIR/MIR of the current tree against a frozen reference lexicon (lexicon/*.json, written from the languages' numeral systems, not from the repository); see the evidence explanation for the clause list. Level `other`: the compositional behaviour over all numbers and contexts is not decided.",
      'Undecided clauses are listed at the end of the explanation in the evidence file and in DESIGN.md §4. A lexicon error is a checker error: every entry failing on the tree was triaged by hand (tree wrong -> fix: commit; doubtful -> variant tier). Trusted: rustc facts, rule engine, reference lexicons, daachorse leftmost-longest semantics.',
      'static analysis: HIR word-table extraction + partial evaluation of lemmatize/apply on the constants of a frozen reference lexicon; splitter-pattern/arm-key agreement over generated compounds',
      'DESIGN.md §2 A1 A3 A6 A7, §3, §4 C01')

mtext('C04',
      "Decides named structural clauses (necessary conditions) of the property from the type-resolved HIR/MIR of the current tree against a frozen reference lexicon (lexicon/*.json, written from the languages' numeral systems, not from the repository); see the evidence explanation for the clause list. Level `other`: the compositional behaviour over all numbers and contexts is not decided.",
      'Undecided clauses are listed at the end of the explanation in the evidence file and in DESIGN.md §4. A lexicon error is a checker error: every entry failing on the tree was triaged by hand (tree wrong -> fix: commit; doubtful -> variant tier). Trusted: rustc facts, rule engine, reference lexicons, daachorse leftmost-longest semantics.',
      'static analysis: HIR word-table + partial evaluation of get_morph_marker and the apply postlude on every ordinal form of the reference lexicon; frozen-first MIR rule',
      'DESIGN.md §2 A2 A3 B4, §4 C04')

mtext('C05',
      "Decides named structural clauses (necessary conditions) of the property from the type-resolved HIR/MIR of the current tree against a frozen reference lexicon (lexicon/*.json, written from the languages' numeral systems, not from the repository); see the evidence explanation for the clause list. Level `other`: the compositional behaviour over all numbers and contexts is not decided.",
      'Undecided clauses are listed at the end of the explanation in the evidence file and in DESIGN.md §4. A lexicon error is a checker error: every entry failing on the tree was triaged by hand (tree wrong -> fix: commit; doubtful -> variant tier). Trusted: rustc facts, rule engine, reference lexicons, daachorse leftmost-longest semantics.',
      'static analysis: decimal word-table check, partial evaluation of is_decimal_sep, format-template check on the pre-lowering AST, MIR guard dominance of decimal-mode entry/exit',
      'DESIGN.md §2 A4 A5 B7, §4 C05')

mtext('C08',
      "Decides named structural clauses (necessary conditions) of the property from the type-resolved HIR/MIR of the current tree against a frozen reference lexicon (lexicon/*.json, written from the languages' numeral systems, not from the repository); see the evidence explanation for the clause list. Level `other`: the compositional behaviour over all numbers and contexts is not decided.",
      'Undecided clauses are listed at the end of the explanation in the evidence file and in DESIGN.md §4. A lexicon error is a checker error: every entry failing on the tree was triaged by hand (tree wrong -> fix: commit; doubtful -> variant tier). Trusted: rustc facts, rule engine, reference lexicons, daachorse leftmost-longest semantics.',
      'static analysis: sibling-class guard-atom check over the HIR arm tables (normalised guard atoms and side assignments) + builder write guards on MIR',
      'DESIGN.md §2 A7 A10 A6 B5, §4 C08')

mtext('C16',
      "Decides named structural clauses (necessary conditions) of the property from the type-resolved HIR/MIR of the current tree against a frozen reference lexicon (lexicon/*.json, written from the languages' numeral systems, not from the repository); see the evidence explanation for the clause list. Level `other`: the compositional behaviour over all numbers and contexts is not decided.",
      'Undecided clauses are listed at the end of the explanation in the evidence file and in DESIGN.md §4. A lexicon error is a checker error: every entry failing on the tree was triaged by hand (tree wrong -> fix: commit; doubtful -> variant tier). Trusted: rustc facts, rule engine, reference lexicons, daachorse leftmost-longest semantics.',
      'static analysis: zero-arm shape check, inventory of equality tests on DigitString::len() in guards, builder zero-counting rules on MIR',
      'DESIGN.md §2 A6 A9 B5 B6, §4 C16')

mtext('C18',
      "Decides named structural clauses (necessary conditions) of the property from the type-resolved HIR/MIR of the current tree against a frozen reference lexicon (lexicon/*.json, written from the languages' numeral systems, not from the repository); see the evidence explanation for the clause list. Level `other`: the compositional behaviour over all numbers and contexts is not decided.",
      'Undecided clauses are listed at the end of the explanation in the evidence file and in DESIGN.md §4. A lexicon error is a checker error: every entry failing on the tree was triaged by hand (tree wrong -> fix: commit; doubtful -> variant tier). Trusted: rustc facts, rule engine, reference lexicons, daachorse leftmost-longest semantics.',
      'static analysis: HIR shape check of English::basic_annotate under alpha-renaming + arm identity of "o" and "zero" + scratch typestate',
      'DESIGN.md §4 C18')
