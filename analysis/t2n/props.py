"""Property registry: which rules decide which property, and the text that goes to the evidence."""
from .rules import facade, stateless

TRUST_COMMON = [
    'rustc nightly 1.97 front end (name resolution, type check, MIR construction) — the facts',
    'the fact serialiser /verif/driver (no judgement, prints what rustc resolved)',
    'the Python rule engine /verif/analysis',
]

ASSUME_COMMON = [
    'closed world: LangInterpreter / Token / Replace / BasicAnnotate impls written by users are outside the claim',
    'library target only (cfg(test) modules and doctests are not analysed)',
    'dependencies (std, phf, daachorse, bitflags) are trusted by signature, not analysed',
]


class Prop:
    def __init__(self, pid, level, rules, explanation, assumptions=(), trusted=()):
        self.pid = pid
        self.level = level
        self.rules = rules
        self.explanation = explanation
        self.assumptions = list(assumptions) + ASSUME_COMMON
        self.trusted = list(trusted) + TRUST_COMMON


PROPS = {}


def reg(p):
    PROPS[p.pid] = p


reg(Prop('C13', 'proof',
         [facade.rule_delegation, facade.rule_constructors, facade.rule_iso, facade.rule_no_downcast],
         'Decides the whole statement structurally. C-DELEGATION: every trait method that any concrete interpreter '
         'defines is defined by `impl LangInterpreter for Language` as `match self` with exactly one arm per variant, '
         'each arm calling the same-named trait method on the bound payload (resolved by rustc to that payload type\'s '
         'impl) with the facade\'s own parameters in order and returning the result unchanged. C-CTOR: Language::x() '
         'wraps <X as Default>::default() in variant X and X::new() is the same default. C-ISO: the code table maps '
         'de,en,es,fr,it,nl,pt to exactly those constructors, nothing else resolves, the parameter is matched '
         'unnormalised, the default arm is None. C-NO-DOWNCAST: no type-identity dispatch. Since every API function is '
         'generic over L: LangInterpreter and reaches the language only through trait methods, the facade and the '
         'concrete type perform identical calls for every input.',
         trusted=['ISO 639-1 table frozen in rules/facade.py']))

reg(Prop('C14', 'proof',
         [stateless.rule_types, stateless.rule_statics, stateless.rule_effects],
         'Decides the whole statement modulo dependencies. (i) the seven interpreters and Language are Freeze, Send and '
         'Sync according to rustc\'s trait solver; every LangInterpreter method takes &self, so no call can modify the '
         'interpreter; (ii) no static mut, no interior-mutable or thread-local static, no user-written unsafe; (iii) the '
         'complete callee inventory of the library MIR contains no effectful callee (std::io incl. _print/_eprint used '
         'by print!/dbg!, fs, env, time, process, net, thread, sync, cell, rand, raw pointers, FFI) and no indirect or '
         'unclassified call. With no mutable state reachable and no effect, each result is a function of the call\'s '
         'arguments; with Send+Sync interpreters may be shared across threads.',
         trusted=['std / phf / daachorse / bitflags bodies keep no hidden global state and do not print on the calls made']))


# ---------------------------------------------------------------------------------------
# texts for MANIFEST.json (tools/gen_manifest.py)

MANIFEST_TEXT = {}
NOT_APPLICABLE = {}


def mtext(pid, text, note, technique, design_ref):
    MANIFEST_TEXT[pid] = {'text': text, 'note': note, 'technique': technique, 'design_ref': design_ref}


mtext('C13',
      'Proof by exhaustive structural obligations: the statement reduces completely to facts visible in the code '
      '(verbatim delegation per method and variant, constructor/variant/payload agreement, the code table). 56 delegation + '
      '14 constructor + 7 code obligations + default arm + no-normalisation + no-downcast are each checked on rustc\'s '
      'resolved HIR; all must be discharged.',
      'Trusted: rustc name resolution/type check (facts), the fact serialiser, the Python rules, the frozen ISO 639-1 table. '
      'Closed world: user-written interpreters are outside the claim.',
      'static analysis: HIR shape/obligation check of the delegate match arms and the ISO table on type-resolved callees',
      'DESIGN.md §2 Family C, §4 C13')
mtext('C14',
      'Proof modulo dependencies: Freeze/Send/Sync obligations answered by rustc\'s trait solver for the seven interpreters '
      'and Language, &self receivers, absence of mutable/interior-mutable/thread-local statics and of user unsafe, and a '
      'complete effect inventory (every call site of the library MIR classified; no effectful, indirect or unclassified callee).',
      'Trusted: std, phf, daachorse, bitflags keep no hidden global state and do not print on the calls made (their bodies are '
      'outside the crate\'s MIR); the trait solver\'s answers; the callee classification table in analysis/t2n/callees.py.',
      'static analysis: trait-solver obligations (Freeze/Send/Sync) + whole-crate MIR effect inventory + static/unsafe inventory',
      'DESIGN.md §2 Family C, §4 C14')

from .rules import builder  # noqa: E402

reg(Prop('C12', 'other',
         [builder.rule_fail_atomic, builder.rule_frozen_first, builder.rule_write_guarded, builder.rule_field_coverage],
         'Decides structural clauses of the digit builder on its MIR, for symbolic arguments (public API): B3 no write through '
         'self can be followed by an Err exit in put/put_digit_at/push/fput/shift (failed operations change nothing; one named '
         'exception, the implicit-one push of shift, with its premises checked); B4 every mutator tests self.frozen on an edge '
         'dominating every write and returns Err(Frozen); B5 overwrites are dominated by the free-slot test of the same range / '
         'position, zeros are counted only on an empty buffer for the digit "0", all-zero input is refused, who-writes '
         'leading_zeroes/frozen; B6 reset covers all fields, len/is_empty/to_string read buffer and leading_zeroes; B1 every '
         'panic-capable site of the DigitString methods is discharged without assuming anything about callers (difference-'
         'constraint prover over dominating branch facts, or a named instance whose guards are checked to dominate). '
         'Does NOT decide the arithmetic meaning of put/shift (value after each step, "no digit lost"): that is a functional-'
         'correctness statement about byte arrays, outside static analysis.',
         assumptions=['arguments are ASCII digits and positions < 2^31 (stated bound of the property)']))

from .rules import panics, progress  # noqa: E402


def _c03_sites(ctx, rep):
    panics.rule_panic_sites(ctx, rep, 'C03')


def _c12_sites(ctx, rep):
    panics.rule_panic_sites(ctx, rep, 'C12')


reg(Prop('C03', 'other', [_c03_sites, panics.rule_nonempty_format, panics.rule_digit_args, progress.rule_loops, progress.rule_recursion],
         'Decides totality structurally: B1 the complete inventory of panic-capable sites in the library MIR (Assert terminators '
         '+ calls to partial callees such as unwrap, index, copy_from_slice, drain) with each site discharged by D1 a dominating '
         'guard (difference-constraint prover over branch facts), D3 constant arguments at every in-crate call site, D4 non-empty '
         'dominance for the float parse in format_and_value, D5 constant constructor input, or D6 a named instance whose guards '
         'are checked to dominate; B2 every natural loop consumes from an iterator on every cycle and the recursion inventory '
         'equals the confirmed bounded set (apply/exec_group over strictly shorter pieces; WordSplitIterator::next depth <= 2). '
         'Thresholds need no rule: f64 comparison is total. Out of scope: panics inside std/daachorse/phf on valid arguments, '
         'allocation failure, stack exhaustion on adversarially long words.',
         assumptions=['token iterators supplied by the caller are finite', 'callee partiality table analysis/t2n/callees.py is complete for the callees used']))
PROPS['C12'].rules.append(_c12_sites)

mtext('C03',
      'Static totality argument over code sites, not inputs: every panic-capable site reachable in the library MIR is enumerated '
      '(100 on this tree) and discharged by a dominance-based rule or a named, guard-checked instance; loops and recursion are '
      'shown to make progress. This is close to the whole statement modulo the trusted base; it is `other` rather than `proof` '
      'because 44 D6 instances rest on one-line hand arguments (their premises are machine-checked, the arithmetic is not).',
      'Trusted: std/daachorse/phf do not panic on valid arguments; the partial-callee table; the D6 table tables/panic_sites.json '
      '(each entry: guards checked mechanically, argument by hand); allocation failure and stack exhaustion out of scope.',
      'static analysis: MIR panic-site inventory + dominator/edge-fact difference-constraint prover + call-site constant and non-empty dominance rules + loop/recursion progress',
      'DESIGN.md §2 B1 B2, §4 C03')
mtext('C12',
      'Structural clauses of the builder decided on MIR for symbolic arguments: failure atomicity (no write before a possible Err), '
      'frozen-first, guarded overwrites and zero counting, field coverage of reset/len/is_empty/to_string, and panic-freedom of every '
      'public method. Each is a necessary condition of the property; the arithmetic meaning of place/shift is not decided.',
      'Not decided: value semantics of put/shift ("multiplies the rightmost group by 10^p", "keeps every non-zero digit"). Assumes ASCII-digit '
      'arguments and positions < 2^31. Known finding: is_range_free(start >= end) violates a documented precondition (debug assertion).',
      'static analysis: MIR mutation/dominance analysis (write-before-Err reachability, guard dominance, who-writes) + panic-site prover',
      'DESIGN.md §2 B1 B3 B4 B5 B6, §4 C12')
