"""Extraction of the word -> instruction tables from the HIR of LangInterpreter::apply /
apply_decimal, the splitter pattern lists, and a model of the leftmost-longest splitter."""
from . import hir as H
from .facts import LANGS, TRAIT, interp_method, interp_ty
from .peval import Builder, Evaluator, Unanalysable

OPS = ('put', 'fput', 'push', 'shift', 'put_digit_at')


class Leaf:
    def __init__(self, kind, op=None, args=(), conds=(), sides=(), node=None):
        self.kind = kind    # 'op' | 'err' | 'other'
        self.op = op
        self.args = tuple(args)
        self.conds = tuple(conds)
        self.sides = tuple(sides)   # side assignments on the way, rendered
        self.node = node

    def sig(self):
        if self.kind == 'op':
            return '%s(%s)' % (self.op, ', '.join(_show(a) for a in self.args))
        if self.kind == 'err':
            return 'Err(%s)' % self.op
        return 'other(%s)' % self.op

    def __repr__(self):
        c = (' if ' + ' && '.join(self.conds)) if self.conds else ''
        return self.sig() + c


def _show(a):
    if isinstance(a, (bytes, bytearray)):
        return 'b"%s"' % bytes(a).decode('latin-1')
    return str(a)


class Arm:
    def __init__(self, node, pats, is_default):
        self.node = node
        self.pats = pats            # list of str literals
        self.is_default = is_default
        self.guard = node.get('guard')
        self.body = node['body']
        self.sp = node['sp']
        self._leaves = None


class Table:
    """The word match of one apply / apply_decimal body."""

    def __init__(self, facts, lang, method='apply'):
        self.facts = facts
        self.lang = lang
        self.method = method
        self.path = interp_method(lang, method)
        self.body = facts.body(self.path)
        if self.body is None:
            raise Unanalysable('no body for ' + self.path)
        self.word_param = H.param_binding(self.body, 1)
        self.b_param = H.param_binding(self.body, 2)
        self.self_param = H.param_binding(self.body, 0)
        self.names = self._role_names()
        self.match = self._find_match()
        self.forwarder = None
        self.arms = []
        if self.match is not None:
            for a in self.match['arms']:
                lits = H.pat_literals(a['pat'])
                if lits is None:
                    raise Unanalysable('non-literal pattern in the word table of %s' % self.path, a['pat'])
                strs = [v for t, v in lits if t == 'str']
                self.arms.append(Arm(a, strs, is_default=(len(lits) == 0)))
        else:
            self.forwarder = self._forwarder()

    def _role_names(self):
        """Rename-robust rendering: parameters by role, immutable lets inlined, mutable locals by type role."""
        names = {}
        if self.b_param:
            names[self.b_param[0]] = 'B'
        if self.word_param:
            names[self.word_param[0]] = 'W'
        lets = {}
        tys = {}
        for n in H.walk(self.body['value']):
            if n.get('k') == 'Let' and 'pat' in n and n['pat'].get('k') == 'Binding' and n.get('init') is not None:
                lets[n['pat']['bid']] = n['init']
                tys[n['pat']['bid']] = n['pat'].get('ty') or n['init'].get('ty') or ''
        assigned = H.assigned_locals(self.body['value'])
        counter = [0]
        for bid in sorted(lets):
            if bid in assigned:
                ty = tys.get(bid, '')
                if 'Excludable' in ty or 'Restriction' in ty:
                    names[bid] = '$FLAGS'
                else:
                    counter[0] += 1
                    names[bid] = '$M%d' % counter[0]
        # the status variable: bound to the result of the table / an if-else over it
        for bid, init in lets.items():
            if bid not in names and (tys.get(bid, '').startswith('core::result::Result') or (init.get('ty') or '').startswith('core::result::Result')) \
                    and H.peel(init).get('k') in ('Match', 'If'):
                names[bid] = '$STATUS'
        # immutable lets: inline (in definition order so that earlier ones are available)
        for bid in sorted(lets):
            if bid in names:
                continue
            init = lets[bid]
            if H.peel(init).get('k') in ('Match', 'If', 'BlockExpr', 'Closure'):
                continue
            names[bid] = H.render(init, names)
        return names

    def _find_match(self):
        best = None
        for n in H.walk(self.body['value']):
            if n.get('k') == 'Match' and n.get('src') == 'Normal':
                cnt = 0
                for a in n['arms']:
                    lits = H.pat_literals(a['pat'])
                    if lits and all(t == 'str' for t, _v in lits):
                        cnt += 1
                if cnt >= 5 and (best is None or cnt > best[0]):
                    best = (cnt, n)
        return best[1] if best else None

    def _forwarder(self):
        """apply_decimal bodies of the form `self.apply(decimal_func, b)`."""
        e = self.body['value']
        while e.get('k') in ('BlockExpr', 'Block'):
            blk = e['block'] if e['k'] == 'BlockExpr' else e
            if blk['stmts'] or not blk.get('expr'):
                return None
            e = blk['expr']
        if e.get('k') == 'MethodCall' and e.get('callee') == TRAIT + '::apply':
            ok = (H.local_id(e['recv']) == self.self_param[0] and len(e['args']) == 2 and
                  H.local_id(e['args'][0]) == self.word_param[0] and H.local_id(e['args'][1]) == self.b_param[0])
            return {'ok': ok, 'resolved': e.get('resolved'), 'node': e}
        return None

    def arms_for(self, lemma):
        return [a for a in self.arms if lemma in a.pats]

    def default_arm(self):
        for a in self.arms:
            if a.is_default:
                return a
        return None

    def all_keys(self):
        out = []
        for a in self.arms:
            out.extend(a.pats)
        return out

    def scrutinee_word(self, ev, word):
        """Value of the match scrutinee for the surface word (runs lemmatize through the evaluator)."""
        env = {self.word_param[0]: word}
        # statements before the match may bind `lemma`
        self._bind_prelude(ev, env)
        return ev.eval(self.match['scrut'], env)

    def _bind_prelude(self, ev, env):
        blk = self.body['value']
        while blk.get('k') == 'BlockExpr':
            blk = blk['block']
        for s in blk.get('stmts', []):
            if s['k'] == 'Let' and s.get('init') is not None and s['pat']['k'] == 'Binding':
                init = s['init']
                # only pure string prelude lets (lemma); others are skipped
                try:
                    if self._mentions_only(init, {self.word_param[0]} | set(env)):
                        env[s['pat']['bid']] = ev.eval(init, env)
                except Unanalysable:
                    pass

    def _mentions_only(self, e, allowed):
        for n in H.walk(e):
            if n.get('k') == 'Path' and n['res'].get('t') == 'local' and n['res']['id'] not in allowed:
                return False
            if n.get('k') == 'Match':
                return False
        return True

    # -- leaves ---------------------------------------------------------------------------------
    def leaves(self, arm):
        if arm._leaves is None:
            arm._leaves = self._leaves(arm.body, (), ())
        return arm._leaves

    def _is_b(self, e):
        return H.local_id(e) == self.b_param[0]

    def _leaves(self, e, conds, sides):
        e = H.peel(e) if e.get('k') in ('AddrOf',) else e
        k = e.get('k')
        if k == 'MethodCall' and self._is_b(e['recv']) and e['name'] in OPS:
            args = []
            for a in e['args']:
                lv = H.lit(a)
                args.append(lv[1] if lv else H.render(a))
            return [Leaf('op', e['name'], args, conds, sides, e)]
        if k == 'Call':
            f = H.peel(e['f'])
            if f.get('k') == 'Path' and (f['res'].get('ctor_of') or '').endswith('Result::Err') and len(e['args']) == 1:
                p = H.def_path(e['args'][0]) or H.render(e['args'][0])
                a = H.peel(e['args'][0])
                name = (a['res'].get('ctor_of') or a['res'].get('path') or '').split('::')[-1] if a.get('k') == 'Path' else H.render(a)
                return [Leaf('err', name, (), conds, sides, e)]
        if k == 'BlockExpr':
            blk = e['block']
            sides2 = list(sides)
            for s in blk['stmts']:
                if s['k'] in ('Semi', 'Expr') and s['e'].get('k') == 'Assign':
                    sides2.append('%s = %s' % (H.render(s['e']['l'], self.names), H.render(s['e']['r'], self.names)))
                elif s['k'] == 'Let':
                    sides2.append('let %s = %s' % (H.render_pat(s['pat']), H.render(s.get('init'))))
                else:
                    sides2.append('stmt:' + H.render(s.get('e')))
            if blk.get('expr'):
                return self._leaves(blk['expr'], conds, tuple(sides2))
            return [Leaf('other', 'unit-block', (), conds, tuple(sides2), e)]
        if k == 'If':
            c = H.norm_atom(e['c']) if e['c'].get('k') != 'Let' else H.render(e['c'])
            out = self._leaves(e['t'], conds + (c,), sides)
            if e.get('e'):
                out += self._leaves(e['e'], conds + ('!' + c,), sides)
            return out
        if k == 'Match':
            out = []
            s = H.render(e['scrut'])
            for a in e['arms']:
                c = '%s ~ %s' % (s, H.render_pat(a['pat']))
                if a.get('guard'):
                    c += ' if ' + H.norm_atom(a['guard'])
                out += self._leaves(a['body'], conds + (c,), sides)
            return out
        return [Leaf('other', H.render(e), (), conds, sides, e)]

    def guard_atoms(self, arm):
        if arm.guard is None:
            return []
        return [H.norm_atom(c, self.names) for c in H.conjuncts(arm.guard)]


# ---------------------------------------------------------------------------------------
class Splitter:
    """Model of WordSplitter over the literal pattern list: leftmost-longest, non-overlapping."""

    def __init__(self, patterns):
        self.patterns = list(patterns)

    def matches(self, word):
        out = []
        i = 0
        n = len(word)
        while i < n:
            best = None
            for p in self.patterns:
                if p and word.startswith(p, i) and (best is None or len(p) > len(best)):
                    best = p
            if best is None:
                i += 1
            else:
                out.append((i, i + len(best)))
                i += len(best)
        return out

    def is_splittable(self, word):
        ms = self.matches(word)
        return bool(ms) and (ms[0][0] > 0 or ms[0][1] < len(word))

    def split(self, word):
        out = []
        cur = 0
        for s, e in self.matches(word):
            if cur < s:
                out.append(word[cur:s])
            out.append(word[s:e])
            cur = e
        if cur < len(word):
            out.append(word[cur:])
        return out


def splitter_patterns(facts, lang):
    """Literal patterns passed to WordSplitter::new in <X as Default>::default (None if the language has none)."""
    path = '<%s as core::default::Default>::default' % interp_ty(lang)
    body = facts.body(path)
    if body is None:
        return None
    for n in H.walk(body['value']):
        if n.get('k') == 'Call' and (n.get('callee') or '').endswith('WordSplitter::new'):
            arr = H.peel(n['args'][0])
            if arr.get('k') != 'Array':
                raise Unanalysable('WordSplitter::new argument is not an array literal', n)
            pats = []
            for x in arr['es']:
                lv = H.lit(x)
                if not lv or lv[0] != 'str':
                    raise Unanalysable('non-literal splitter pattern', x)
                pats.append(lv[1])
            return pats
    return None


class Compound(Exception):
    def __init__(self, pieces):
        self.pieces = pieces


class LexEvaluator(Evaluator):
    """Evaluator that knows the splitter model of the language."""

    def __init__(self, facts, lang):
        pats = splitter_patterns(facts, lang)
        self.splitter = Splitter(pats) if pats is not None else None
        super().__init__(facts, {'word_splitter': self.splitter})
        self.lang = lang
        self.group_result = None   # abstract result of exec_group (for evaluating the group path of apply)

    def apply_fn(self, callee, args, e, env, method=None):
        a0 = args[0] if args else None
        if isinstance(a0, Splitter):
            if method == 'is_splittable':
                return a0.is_splittable(args[1])
            if method == 'split':
                return ('pieces', a0.split(args[1]))
        if method == 'exec_group' or (callee or '').endswith('LangInterpreter::exec_group'):
            pieces = args[1][1] if isinstance(args[1], tuple) and args[1] and args[1][0] == 'pieces' else None
            if self.group_result is not None:
                return self.group_result
            raise Compound(pieces)
        if method == 'split' and isinstance(a0, str):
            return ('pieces', a0.split(args[1]))
        return super().apply_fn(callee, args, e, env, method)

    def lemma(self, table, word):
        return table.scrutinee_word(self, word)

    def marker(self, word):
        return self.call_fn(interp_method(self.lang, 'get_morph_marker'), [self.self_value, word])

    def run_apply(self, word, builder=None):
        """Evaluate apply(word) on an abstract (fresh) builder.  Returns (result, builder)."""
        b = builder or Builder()
        r = self.call_fn(interp_method(self.lang, 'apply'), [self.self_value, word, b])
        return r, b
